"""Shared plumbing for the zvt verification checks.

  * TLC runner (always the pre-installed jar with -Xss1g; parses TLC's own counts)
  * harness build / run (cargo, offline, against /repo's working tree)
  * evidence writer, known-findings handling, VIOLATION / MODEL-DRIFT reporting

Exit codes of a check: 0 held, 1 VIOLATION (with replay file), 2 tool error.
"""
import hashlib
import json
import os
import re
import shutil
import subprocess
import sys
import time

VERIF = os.path.dirname(os.path.dirname(os.path.abspath(__file__)))
REPO = os.environ.get("VERIF_REPO", "/repo")
SPEC = os.path.join(VERIF, "spec")
WORK = os.path.join(VERIF, "work")
HARNESS = os.path.join(VERIF, "harness")
EVIDENCE = os.path.join(VERIF, "evidence")
REPLAYS = os.path.join(VERIF, "replays")
TLA_JARS = "/opt/veriftools/tla/tla2tools.jar:/opt/veriftools/tla/CommunityModules-deps.jar"
NCPU = os.cpu_count() or 4


class ToolError(Exception):
    pass


def log(*a):
    print(*a, flush=True)


def spec_dirs():
    out = []
    for d in sorted(os.listdir(SPEC)):
        p = os.path.join(SPEC, d)
        if os.path.isdir(p):
            out.append(p)
    return out


class TlcResult:
    def __init__(self):
        self.ok = False            # finished without error
        self.generated = 0         # "states generated" = transitions computed
        self.distinct = 0
        self.depth = 0
        self.violated = None       # name of violated invariant / property / "assumption" / "postcondition"
        self.error_text = ""
        self.out = ""
        self.wall = 0.0
        self.prints = []           # values printed with PrintT (raw lines)
        self.coverage = {}


def tlc(module_path, cfg=None, workers=1, env=None, xmx="4g", timeout=3600, extra=None,
        tag=None, simulate=None, depth_first=False, coverage=False, deadlock=False):
    """Run TLC on module_path (absolute or relative to SPEC). Returns TlcResult."""
    if not os.path.isabs(module_path):
        module_path = os.path.join(SPEC, module_path)
    moddir = os.path.dirname(module_path)
    mod = os.path.basename(module_path)
    if cfg is None:
        cfg = mod.replace(".tla", ".cfg")
    tag = tag or mod.replace(".tla", "")
    meta = os.path.join(WORK, "tlc", "%s-%d-%s" % (tag, os.getpid(), hashlib.md5(
        (module_path + str(cfg) + str(env) + str(time.time())).encode()).hexdigest()[:8]))
    os.makedirs(meta, exist_ok=True)
    jopts = ["-Xss1g", "-XX:+UseParallelGC", "-Xmx" + xmx,
             "-DTLA-Library=" + ":".join(spec_dirs())]
    if depth_first:
        jopts.append("-Dtlc2.tool.queue.IStateQueue=StateDeque")
    cmd = ["java"] + jopts + ["-cp", TLA_JARS, "tlc2.TLC", "-workers", str(workers),
                              "-metadir", meta, "-cleanup", "-noGenerateSpecTE",
                              "-config", cfg]
    if not deadlock:
        cmd.append("-deadlock")  # -deadlock = do NOT check for deadlock
    if coverage:
        cmd += ["-coverage", "1"]
    if simulate:
        cmd += ["-simulate", simulate]
    if extra:
        cmd += extra
    cmd.append(mod)
    e = dict(os.environ)
    e.pop("JAVA_TOOL_OPTIONS", None)
    if env:
        e.update({k: str(v) for k, v in env.items()})
    t0 = time.time()
    r = TlcResult()
    try:
        p = subprocess.run(cmd, cwd=moddir, env=e, stdout=subprocess.PIPE, stderr=subprocess.STDOUT,
                           timeout=timeout, text=True, errors="replace")
    except subprocess.TimeoutExpired as ex:
        shutil.rmtree(meta, ignore_errors=True)
        raise ToolError("TLC timeout after %ss on %s" % (timeout, mod))
    finally:
        pass
    shutil.rmtree(meta, ignore_errors=True)
    r.wall = time.time() - t0
    r.out = p.stdout
    m = None
    for m in re.finditer(r"(\d+) states generated, (\d+) distinct states found", r.out):
        pass
    if m:
        r.generated, r.distinct = int(m.group(1)), int(m.group(2))
    m = re.search(r"depth of the complete state graph search is (\d+)", r.out)
    if m:
        r.depth = int(m.group(1))
    r.ok = ("No error has been found" in r.out) or (simulate is not None and p.returncode == 0 and "Error:" not in r.out)
    m = re.search(r"Error: Invariant (\S+) is violated", r.out)
    if m:
        r.violated = m.group(1)
    elif "Error: Assumption" in r.out:
        r.violated = "assumption"
    elif re.search(r"Error: The postcondition|Error: Postcondition", r.out):
        r.violated = "postcondition"
    elif re.search(r"Error: Action property (\S+) is violated", r.out):
        r.violated = re.search(r"Error: Action property (\S+) is violated", r.out).group(1)
    elif "Temporal properties were violated" in r.out or re.search(r"Error: Temporal property \S+ was violated", r.out):
        r.violated = "temporal"
    if not r.ok and not r.violated:
        idx = r.out.find("Error:")
        r.error_text = r.out[idx:idx + 3000] if idx >= 0 else r.out[-3000:]
    r.returncode = p.returncode
    return r


def tlc_must_pass(res, what):
    """Raise ToolError when TLC did not finish cleanly for a reason other than a checked formula."""
    if res.ok:
        return
    if res.violated:
        return
    raise ToolError("TLC failed on %s:\n%s" % (what, res.error_text or res.out[-3000:]))


# ----------------------------------------------------------------------------------------------
# harness

def harness_manifest():
    """(Re)write harness/Cargo.toml dependencies for the repository location in use."""
    tpl = open(os.path.join(HARNESS, "Cargo.toml.in")).read()
    out = tpl.replace("@REPO@", REPO)
    path = os.path.join(HARNESS, "Cargo.toml")
    if not os.path.exists(path) or open(path).read() != out:
        open(path, "w").write(out)
    lock = os.path.join(HARNESS, "Cargo.lock")
    if not os.path.exists(lock):
        shutil.copy(os.path.join(REPO, "Cargo.lock"), lock)


def harness_build(release=False, quiet=True):
    """Build the harness against REPO's working tree. Returns path of the binary."""
    harness_manifest()
    cmd = ["cargo", "build", "--offline", "--bin", "zvth"]
    if release:
        cmd.append("--release")
    e = dict(os.environ)
    e["CARGO_NET_OFFLINE"] = "true"
    e.setdefault("CARGO_TERM_COLOR", "never")
    t0 = time.time()
    p = subprocess.run(cmd, cwd=HARNESS, env=e, stdout=subprocess.PIPE, stderr=subprocess.STDOUT, text=True)
    if p.returncode != 0:
        # A lock file copied from an older tree may be stale: retry once with a fresh copy.
        shutil.copy(os.path.join(REPO, "Cargo.lock"), os.path.join(HARNESS, "Cargo.lock"))
        p = subprocess.run(cmd, cwd=HARNESS, env=e, stdout=subprocess.PIPE, stderr=subprocess.STDOUT, text=True)
    if p.returncode != 0:
        raise ToolError("harness build failed:\n" + p.stdout[-6000:])
    if not quiet:
        log("harness build (%s) %.1fs" % ("release" if release else "debug", time.time() - t0))
    return os.path.join(HARNESS, "target", "release" if release else "debug", "zvth")


class CrashError(Exception):
    """The harness process died of a signal / abort while running code under test (stack overflow, abort, runaway allocation)."""

    def __init__(self, what, status, tail):
        Exception.__init__(self, "%s died with status %s" % (what, status))
        self.what, self.status, self.tail = what, status, tail


def _limit_memory():
    import resource
    resource.setrlimit(resource.RLIMIT_AS, (24 << 30, 24 << 30))     # a runaway allocation ends the harness, not the machine


def harness_run(binary, args, stdin_path=None, stdout_path=None, timeout=3600, env=None):
    e = dict(os.environ)
    e.setdefault("RUST_BACKTRACE", "0")
    if env:
        e.update({k: str(v) for k, v in env.items()})
    fin = open(stdin_path, "rb") if stdin_path else subprocess.DEVNULL
    fout = open(stdout_path, "wb") if stdout_path else subprocess.PIPE
    try:
        p = subprocess.run([binary] + [str(a) for a in args], stdin=fin, stdout=fout, stderr=subprocess.PIPE,
                           timeout=timeout, env=e, preexec_fn=_limit_memory)
    except subprocess.TimeoutExpired:
        raise ToolError("harness timeout: %s" % " ".join(map(str, args)))
    finally:
        if stdin_path:
            fin.close()
        if stdout_path:
            fout.close()
    if p.returncode < 0 or p.returncode in (134, 139):
        # killed by a signal or aborted: not an error the harness reports about itself (those exit 2) - the code under test took
        # the process down
        raise CrashError(str(args[0]), p.returncode, p.stderr.decode(errors="replace")[-600:])
    if p.returncode != 0:
        raise ToolError("harness %s exited %d:\n%s" % (" ".join(map(str, args)), p.returncode,
                                                      p.stderr.decode(errors="replace")[-4000:]))
    return None if stdout_path else p.stdout.decode(errors="replace")


# ----------------------------------------------------------------------------------------------
# reporting

def load_known():
    p = os.path.join(VERIF, "known_findings.json")
    if not os.path.exists(p):
        return {"open": [], "fixed": []}
    return json.load(open(p))


class Check:
    """Collects coverage counters, violations, drifts; writes evidence; decides exit code."""

    def __init__(self, pid, tier, seed, level="model_checking"):
        self.pid, self.tier, self.seed, self.level = pid, tier, seed, level
        self.t0 = time.time()
        self.cov = {"states": 0, "transitions": 0, "traces_validated_against_impl": 0,
                    "evaluations": 0, "distinct_nontrivial": 0, "samples": [], "rule": "",
                    "model_runs": [], "exhaustive": False}
        self.assumptions = []
        self.violations = []   # (key, text, replay_obj)
        self.drifts = []
        self.known_hits = []
        self.notes = []
        self.known = load_known()

    def add_tlc(self, name, res):
        self.cov["states"] += res.distinct
        self.cov["transitions"] += res.generated
        self.cov["model_runs"].append({"model": name, "distinct_states": res.distinct,
                                        "states_generated": res.generated, "depth": res.depth,
                                        "wall_s": round(res.wall, 2), "ok": bool(res.ok)})

    def sample(self, s, cap=6):
        if len(self.cov["samples"]) < cap:
            self.cov["samples"].append(s)

    def drift(self, layer, at, detail=None):
        self.drifts.append({"layer": layer, "at": at, "detail": detail})
        if len(self.drifts) <= 20:
            log("MODEL-DRIFT layer=%s at=%s %s" % (layer, at, json.dumps(detail)[:300] if detail is not None else ""))

    def violation(self, key, text, replay):
        """key: stable identifier of the failing call site / input class / history."""
        for k in self.known.get("open", []):
            if k["property"] == self.pid and k["key"] == key:
                if key not in self.known_hits:
                    self.known_hits.append(key)
                    log("KNOWN-FINDING: property=%s %s" % (self.pid, k["what"]))
                return
        self.violations.append((key, text, replay))

    def finish(self):
        wall = time.time() - self.t0
        os.makedirs(EVIDENCE, exist_ok=True)
        code = 0
        paths = []
        if self.violations:
            code = 1
            d = os.path.join(REPLAYS, self.pid)
            os.makedirs(d, exist_ok=True)
            seen = set()
            for key, text, replay in self.violations[:50]:
                blob = json.dumps({"property": self.pid, "key": key, "what": text, "replay": replay}, sort_keys=True)
                h = hashlib.sha1(blob.encode()).hexdigest()[:12]
                if h in seen:
                    continue
                seen.add(h)
                path = os.path.join(d, h + ".json")
                open(path, "w").write(blob)
                paths.append(path)
                log("VIOLATION property=%s replay=%s" % (self.pid, path))
                log("  " + text[:600])
        cov = dict(self.cov)
        cov["model_drift"] = self.drifts[:50]
        cov["model_drift_count"] = len(self.drifts)
        cov["known_findings_hit"] = self.known_hits
        cov["notes"] = self.notes
        if not cov["samples"]:
            cov["samples"] = ["(none recorded)"]
        ev = {"property_id": self.pid, "tier": self.tier, "seed": self.seed, "level": self.level,
              "coverage": cov, "assumptions": self.assumptions, "wall_s": round(wall, 2),
              "violations": len(self.violations)}
        open(os.path.join(EVIDENCE, self.pid + ".json"), "w").write(json.dumps(ev, indent=1))
        log("%s %s: states=%d transitions=%d impl_traces=%d evaluations=%d drift=%d violations=%d wall=%.1fs" % (
            self.pid, self.tier, cov["states"], cov["transitions"], cov["traces_validated_against_impl"],
            cov["evaluations"], len(self.drifts), len(self.violations), wall))
        return code


def write_ndjson(path, rows):
    with open(path, "w") as f:
        for r in rows:
            f.write(json.dumps(r, separators=(",", ":")))
            f.write("\n")


def read_ndjson(path):
    out = []
    with open(path) as f:
        for line in f:
            line = line.strip()
            if line:
                out.append(json.loads(line))
    return out


def workdir(pid):
    d = os.path.join(WORK, pid)
    shutil.rmtree(d, ignore_errors=True)
    os.makedirs(d, exist_ok=True)
    return d


def parallel(fn, items, n=None):
    """Run fn(item) over items in a thread pool (the work is subprocesses)."""
    from concurrent.futures import ThreadPoolExecutor
    n = n or NCPU
    with ThreadPoolExecutor(max_workers=n) as ex:
        return list(ex.map(fn, items))
