#!/usr/bin/env python3
"""Confirm and evaluate seeded changes.

  seedtool.py confirm <name> <patch> <demo file> <dest path inside the repo> -- <test command>
      in a scratch worktree: the demo passes without the patch; with the patch the existing suite passes and the demo fails
  seedtool.py evaluate <name> <patch> <property> [<property> ...]
      applies the patch to /repo, runs the quick checks of the listed properties, undoes it; prints which report a violation
"""
import json
import os
import shutil
import subprocess
import sys
import time

ENV = dict(os.environ, CARGO_TARGET_DIR="/tmp/confirm_target", CARGO_NET_OFFLINE="true")
# where the checks run and which repository they look at (a scratch copy keeps /verif and /repo free for other work)
EVAL_VERIF = os.environ.get("SEED_VERIF", "/verif")
EVAL_REPO = os.environ.get("SEED_REPO", "/repo")


def sh(cmd, cwd, timeout=3000):
    p = subprocess.run(cmd, cwd=cwd, shell=isinstance(cmd, str), stdout=subprocess.PIPE, stderr=subprocess.STDOUT, text=True, env=ENV, timeout=timeout)
    return p.returncode, p.stdout


def confirm(name, patch, demo, dest, testcmd):
    wt = "/tmp/confirm_wt_" + name
    subprocess.run(["git", "-C", "/repo", "worktree", "remove", "--force", wt], stdout=subprocess.DEVNULL, stderr=subprocess.DEVNULL)
    shutil.rmtree(wt, ignore_errors=True)
    subprocess.run(["git", "-C", "/repo", "worktree", "add", "-q", "--detach", wt, "HEAD"], check=True)
    res = {}
    try:
        rc, out = sh(["git", "apply", patch], wt)
        res["patch_applies"] = rc == 0
        rc, out = sh("cargo test --workspace --offline 2>&1 | grep -E 'test result|error(:|\\[)' ", wt)
        res["suite_with_patch"] = "pass" if ("FAILED" not in out and "error" not in out and "test result: ok" in out) else "FAIL"
        if res["suite_with_patch"] == "FAIL":
            res["suite_tail"] = out[-600:]
        for d, dst in zip(demo.split(","), dest.split(",")):
            if dst == "APPLY":
                # a change to a manifest the demo needs (e.g. a dev-dependency); part of the demo, not of the seeded change
                sh(["git", "apply", d], wt)
                continue
            os.makedirs(os.path.dirname(os.path.join(wt, dst)), exist_ok=True)
            shutil.copy(d, os.path.join(wt, dst))
        rc, out = sh(testcmd, wt)
        res["demo_with_patch"] = "fail" if rc != 0 else "PASS(!)"
        res["demo_with_tail"] = "\n".join(l for l in out.splitlines() if "panicked" in l or "FAILED" in l or "error" in l)[-800:]
        sh(["git", "apply", "-R", patch], wt)
        rc, out = sh(testcmd, wt)
        res["demo_without_patch"] = "pass" if rc == 0 else "FAIL"
        if rc != 0:
            res["demo_without_tail"] = out[-600:]
    finally:
        subprocess.run(["git", "-C", "/repo", "worktree", "remove", "--force", wt], stdout=subprocess.DEVNULL, stderr=subprocess.DEVNULL)
        shutil.rmtree(wt, ignore_errors=True)
    ok = res.get("demo_without_patch") == "pass" and res.get("patch_applies") and res.get("suite_with_patch") == "pass" and res.get("demo_with_patch") == "fail"
    res["confirmed"] = bool(ok)
    print(json.dumps(res, indent=1))
    return ok


def evaluate(name, patch, props):
    st = subprocess.run(["git", "-C", EVAL_REPO, "status", "--porcelain"], stdout=subprocess.PIPE, text=True).stdout.strip()
    assert st == "", EVAL_REPO + " is not clean: " + st
    subprocess.run(["git", "-C", EVAL_REPO, "apply", patch], check=True)
    out = {}
    try:
        for p in props:
            t0 = time.time()
            r = subprocess.run(["./check", p, "--tier", "quick"], cwd=EVAL_VERIF, stdout=subprocess.PIPE, stderr=subprocess.STDOUT, text=True,
                               env=dict(os.environ, VERIF_REPO=EVAL_REPO))
            viol = [l for l in r.stdout.splitlines() if l.startswith("VIOLATION")]
            first = next((l for l in r.stdout.splitlines() if l.startswith("  ") and viol), "")
            out[p] = {"exit": r.returncode, "violations": len(viol), "first": first.strip()[:300], "wall_s": round(time.time() - t0)}
            if r.returncode == 2:
                out[p]["tool_error"] = r.stdout[-500:]
    finally:
        subprocess.run(["git", "-C", EVAL_REPO, "checkout", "--", "."], check=True)
        subprocess.run(["git", "-C", EVAL_REPO, "clean", "-fdq", "-e", "target"], check=True)
    print(json.dumps(out, indent=1))
    return out


if __name__ == "__main__":
    if sys.argv[1] == "confirm":
        i = sys.argv.index("--")
        name, patch, demo, dest = sys.argv[2:6]
        sys.exit(0 if confirm(name, patch, demo, dest, " ".join(sys.argv[i + 1:])) else 1)
    elif sys.argv[1] == "evaluate":
        evaluate(sys.argv[2], sys.argv[3], sys.argv[4:])
