"""Shared machinery of the client-layer checks (C07-C10, C18-C20)."""
import json
import os
import re

import vlib

IFLAG_RE = re.compile(r'^<<"IFLAG", (\d+), (\d+), "([^"]*)", (".*")>>$', re.M)
PFLAG_RE = re.compile(r'^<<"PFLAG", (\d+), (\d+), (".*")>>$', re.M)

DEFAULT_CFG = {"pre": [2, 5, 0, 0], "currency": 978, "password": 123456, "max": 1, "read_card_timeout": 15,
               "serial": "17FD1E3C", "terminal_id": "52523535"}


def digits(n):
    return [int(ch) for ch in str(n)] if n else []


def spec_cfg(cfg):
    c = dict(DEFAULT_CFG)
    c.update(cfg or {})
    return {"pre": c["pre"], "cur": digits(c["currency"]), "password": digits(c["password"]),
            "tid": [ord(ch) for ch in (c["terminal_id"] or "00000000")], "timeout": c["read_card_timeout"], "max": c["max"]}


def run_scenarios(binary, scenarios, wd, label, timeout=3000):
    sin, sout = os.path.join(wd, label + ".sc.ndjson"), os.path.join(wd, label + ".out.ndjson")
    vlib.write_ndjson(sin, scenarios)
    vlib.harness_run(binary, ["client-run", sin, sout], timeout=timeout)
    return sout


def no_null(x):
    """TLC's JSON reader has no null: absent numbers become -1."""
    if x is None:
        return -1
    if isinstance(x, dict):
        return {k: no_null(v) for k, v in x.items()}
    if isinstance(x, list):
        return [no_null(v) for v in x]
    return x


def flatten(out_path, flat_path, first=0):
    """One event list with a reset event in front of every scenario. Returns the scenarios' output records."""
    outs = []
    with open(flat_path, "w") as w:
        for i, line in enumerate(open(out_path)):
            o = json.loads(line)
            outs.append(o)
            w.write(json.dumps({"e": "reset", "sc": first + i + 1, "cfg": spec_cfg(o.get("config"))}) + "\n")
            for e in o["trace"]:
                e.pop("plan", None)
                w.write(json.dumps(no_null(e)) + "\n")
    return outs


def validate(chk, out_path, wd, label, shard=400):
    """TLC validates the traces against FeigClient (I-spec) and the P-specs.
    Returns (outs, iflags, pflags): flags as lists of (scenario index (0-based), event no, what, detail)."""
    lines = open(out_path).read().splitlines()
    shards = []
    for k in range(0, len(lines), shard):
        p = os.path.join(wd, "%s.part%d.ndjson" % (label, k // shard))
        open(p, "w").write("\n".join(lines[k:k + shard]) + "\n")
        shards.append((k, p))

    def one(s):
        k, p = s
        flat = p + ".flat"
        outs = flatten(p, flat, first=k)
        r = vlib.tlc("client/TraceClient.tla", workers=1, xmx="4g", depth_first=True, env={"CLIENT_TRACE": flat},
                     tag="%s%d" % (label, k), timeout=3000)
        return k, outs, r, flat
    all_outs, iflags, pflags = [], [], []
    for k, outs, r, flat in vlib.parallel(one, shards, 12):
        if not r.ok:
            raise vlib.ToolError("TraceClient failed on %s:\n%s" % (flat, (r.error_text or r.out)[-3000:]))
        chk.cov["states"] += r.distinct
        chk.cov["transitions"] += r.generated
        for m in IFLAG_RE.finditer(r.out):
            iflags.append((int(m.group(1)) - 1, int(m.group(2)), m.group(3), json.loads(m.group(4))))
        for m in PFLAG_RE.finditer(r.out):
            pflags.append((int(m.group(1)) - 1, int(m.group(2)), json.loads(json.loads(m.group(3)))))
        all_outs.extend(outs)
        os.remove(flat)
        os.remove(shards[k // shard][1])
    return all_outs, iflags, pflags


def brief_scenario(o, upto=None):
    tr = o.get("trace", [])
    ev = []
    for e in tr:
        if e["e"] in ("call", "ret", "hang", "panic", "open", "close", "fault", "connect_stall", "connect_refused"):
            ev.append({k: v for k, v in e.items() if k not in ("raw",)})
        elif e["e"] == "rx" and e.get("cmd") != "Ack":
            ev.append({"e": "rx", "cmd": e["cmd"], "conn": e["conn"], "t": e["t"], "raw": " ".join("%02x" % b for b in e["raw"][:48])})
        elif e["e"] == "tx" and e.get("pos", 0) >= 1:
            ev.append({"e": "tx", "kind": e["kind"], "code": e.get("code"), "conn": e["conn"], "t": e["t"]})
    return {"config": o.get("config"), "term": o.get("term"), "start": o.get("start"), "calls": o.get("calls"), "plan": o.get("plan"), "events": ev[:120]}
