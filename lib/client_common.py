"""Shared machinery of the client-layer checks (C07-C10, C18-C20)."""
import json
import os
import re

import vlib

IFLAG_RE = re.compile(r'^<<"IFLAG", (\d+), (\d+), "([^"]*)", (".*")>>$', re.M)
PFLAG_RE = re.compile(r'^<<"PFLAG", (\d+), (\d+), (".*")>>$', re.M)

DEFAULT_CFG = {"pre": [2, 5, 0, 0], "currency": 978, "password": 123456, "max": 1, "read_card_timeout": 15,
               "serial": "17FD1E3C", "terminal_id": "52523535"}


def digits(n):
    return [int(ch) for ch in str(n)] if n else []


# ISO 4217, restated: what a currency given by name means (a name this table does not know is not judged)
ISO_4217 = {"SEK": 752, "GBP": 826, "EUR": 978, "CHF": 756, "USD": 840, "DKK": 208, "NOK": 578, "PLN": 985, "CZK": 203, "HUF": 348,
            "JPY": 392, "CAD": 124, "AUD": 36, "ISK": 352, "RON": 946, "BGN": 975}


def spec_cfg(cfg):
    c = dict(DEFAULT_CFG)
    c.update(cfg or {})
    if c.get("currency_name"):
        c["currency"] = ISO_4217.get(c["currency_name"].upper(), 0)
    return {"pre": c["pre"], "cur": digits(c["currency"]), "password": digits(c["password"]),
            "tid": [ord(ch) for ch in (c["terminal_id"] or "00000000")], "timeout": c["read_card_timeout"], "max": c["max"],
            "slow": 500 * (_CAL["v"][0] if "v" in _CAL else 60)}


def run_scenarios(binary, scenarios, wd, label, timeout=3000):
    sin, sout = os.path.join(wd, label + ".sc.ndjson"), os.path.join(wd, label + ".out.ndjson")
    vlib.write_ndjson(sin, scenarios)
    vlib.harness_run(binary, ["client-run", sin, sout], timeout=timeout)
    return sout


def no_null(x):
    """TLC's JSON reader has no null: absent numbers become -1."""
    if x is None:
        return -1
    if isinstance(x, dict):
        return {k: no_null(v) for k, v in x.items()}
    if isinstance(x, list):
        return [no_null(v) for v in x]
    return x


def flatten(out_path, flat_path, first=0):
    """One event list with a reset event in front of every scenario. Returns the scenarios' output records."""
    outs = []
    with open(flat_path, "w") as w:
        for i, line in enumerate(open(out_path)):
            o = json.loads(line)
            outs.append(o)
            w.write(json.dumps({"e": "reset", "sc": first + i + 1, "cfg": spec_cfg(o.get("config"))}) + "\n")
            cc_ev = next((e for e in o["trace"] if e.get("e") == "config_currency"), None)
            if cc_ev and (not cc_ev["accepted"] or cc_ev["name"].upper() not in ISO_4217):
                continue          # a currency name the library rejects, or one the restated table does not list: nothing to judge
            for e in o["trace"]:
                if e.get("e") == "harness-error":
                    raise vlib.ToolError("harness error in scenario %d: %s" % (first + i + 1, e.get("text")))
                e.pop("plan", None)
                w.write(json.dumps(no_null(e)) + "\n")
    return outs


def validate(chk, out_path, wd, label, shard=400):
    """TLC validates the traces against FeigClient (I-spec) and the P-specs.
    Returns (outs, iflags, pflags): flags as lists of (scenario index (0-based), event no, what, detail)."""
    lines = open(out_path).read().splitlines()
    shards = []
    for k in range(0, len(lines), shard):
        p = os.path.join(wd, "%s.part%d.ndjson" % (label, k // shard))
        open(p, "w").write("\n".join(lines[k:k + shard]) + "\n")
        shards.append((k, p))

    def one(s):
        k, p = s
        flat = p + ".flat"
        outs = flatten(p, flat, first=k)
        r = vlib.tlc("client/TraceClient.tla", workers=1, xmx="4g", depth_first=True, env={"CLIENT_TRACE": flat},
                     tag="%s%d" % (label, k), timeout=3000)
        return k, outs, r, flat
    all_outs, iflags, pflags = [], [], []
    for k, outs, r, flat in vlib.parallel(one, shards, 12):
        if not r.ok:
            raise vlib.ToolError("TraceClient failed on %s:\n%s" % (flat, (r.error_text or r.out)[-3000:]))
        chk.cov["states"] += r.distinct
        chk.cov["transitions"] += r.generated
        for m in IFLAG_RE.finditer(r.out):
            iflags.append((int(m.group(1)) - 1, int(m.group(2)), m.group(3), json.loads(m.group(4))))
        for m in PFLAG_RE.finditer(r.out):
            pflags.append((int(m.group(1)) - 1, int(m.group(2)), json.loads(json.loads(m.group(3)))))
        all_outs.extend(outs)
        os.remove(flat)
        os.remove(shards[k // shard][1])
    return all_outs, iflags, pflags


def brief_scenario(o, upto=None):
    tr = o.get("trace", [])
    ev = []
    for e in tr:
        if e["e"] in ("call", "ret", "hang", "panic", "open", "close", "fault", "connect_stall", "connect_refused"):
            ev.append({k: v for k, v in e.items() if k not in ("raw",)})
        elif e["e"] == "rx" and e.get("cmd") != "Ack":
            ev.append({"e": "rx", "cmd": e["cmd"], "conn": e["conn"], "t": e["t"], "raw": " ".join("%02x" % b for b in e["raw"][:48])})
        elif e["e"] == "tx" and e.get("pos", 0) >= 1:
            ev.append({"e": "tx", "kind": e["kind"], "code": e.get("code"), "conn": e["conn"], "t": e["t"]})
    return {"config": o.get("config"), "term": o.get("term"), "start": o.get("start"), "calls": o.get("calls"), "plan": o.get("plan"), "events": ev[:120]}


# ------------------------------------------------------------------------------------------------
import random
import codec_common as cc

PROP_OF = {"P07": "C07", "P08": "C08", "P18": "C18", "P19": "C19", "P20": "C20"}


def model_check(chk, depth, big=False, configure=False):
    env = {"CLIENT_DEPTH": depth, "CLIENT_EMIT": "0", "CLIENT_BIG": "1" if big else "0", "CLIENT_CONFIGURE": "1" if configure else "0"}
    r = vlib.tlc("client/MC_Client.tla", workers=vlib.NCPU, xmx="24g", env=env, timeout=7000)
    vlib.tlc_must_pass(r, "MC_Client")
    if r.violated:
        raise vlib.ToolError("the client specification itself violates %s:\n%s" % (r.violated, r.out[-3000:]))
    chk.add_tlc("MC_Client: every history of %d calls over %s tokens, max in %s, every terminal outcome, dangling yes/no%s; invariants NoPFlags "
                "(I-spec => P_C07/08/19/20), MapsAgree, WithinMax, MapIsOpenOnTerminal, OneToOne" % (
                    depth, "3" if big else "2", "0..3" if big else "0..2", ", configure" if configure else ""), r)
    return r


def model_check_refinement(chk, depth):
    """FeigClient against any terminal refines the abstract token map TxnMap: every step is a Begin / Dangling / Close / Wipe / Reverse
    step of TxnMap or leaves the map, the terminal's books and the maximum unchanged."""
    env = {"CLIENT_DEPTH": depth, "CLIENT_EMIT": "0", "CLIENT_BIG": "0", "CLIENT_CONFIGURE": "1"}
    r = vlib.tlc("client/MC_Client.tla", cfg="MC_Client_refine.cfg", workers=vlib.NCPU, xmx="24g", env=env, timeout=7000)
    vlib.tlc_must_pass(r, "MC_Client (refinement)")
    if r.violated:
        raise vlib.ToolError("the client specification does not refine TxnMap: %s\n%s" % (r.violated, r.out[-3000:]))
    chk.add_tlc("MC_Client, PROPERTY RefinesTxnMap: every history of %d calls (begin / commit / cancel / configure) refines the abstract token map" % depth, r)


def model_scenarios(chk, depth, keep_every=1, offset=0, big=False, configure=False):
    env = {"CLIENT_DEPTH": depth, "CLIENT_EMIT": "1", "CLIENT_BIG": "1" if big else "0", "CLIENT_CONFIGURE": "1" if configure else "0"}
    r = vlib.tlc("client/MC_Client.tla", workers=vlib.NCPU, xmx="24g", env=env, timeout=7000)
    vlib.tlc_must_pass(r, "MC_Client (emit)")
    if r.violated:
        raise vlib.ToolError("the client specification itself violates %s" % r.violated)
    sc = cc.parse_cases(r.out)
    sc.sort(key=lambda s: json.dumps(s, sort_keys=True))
    if keep_every > 1:
        sc = [s for i, s in enumerate(sc) if (i + offset) % keep_every == 0]
    return sc


_CAL = {}


def calibrate(chk, binary):
    """The two time constants of the implementation are not part of any property (C10 asks for a finite bound, C09 for what happens
    after a timeout): they are MEASURED from the real client - how long it waits for a packet before it drops the connection
    (silence instead of an acknowledgement) and how much longer than the configured card timeout it waits in read_card (silence
    instead of the status). The scenarios and acceptors take them from here; a value other than the shipped 60 s / +2 s is drift."""
    if "v" in _CAL:
        return _CAL["v"]
    wd = vlib.workdir("calibrate")
    base = {"config": {"read_card_timeout": 15}, "plan": {"default": {"o": "ok", "status": {"amount": [1]}, "uid": [1, 2, 3, 4]}}}
    scs = [dict(base, calls=[{"op": "begin", "token": [97], "amount": []}],
                plan=dict(base["plan"], exchanges=[{"o": "ok", "fault": {"pos": 0, "kind": "silence"}}])),
           dict(base, calls=[{"op": "read_card"}],
                plan=dict(base["plan"], exchanges=[{"o": "ok", "uid": [1, 2, 3, 4], "fault": {"pos": 1, "kind": "silence"}}]))]
    out = run_scenarios(binary, scs, wd, "cal")
    got = []
    for line in open(out):
        tr = json.loads(line)["trace"]
        f = next((e for e in tr if e["e"] == "fault"), None)
        c = next((e for e in tr if e["e"] == "close" and f and e["conn"] == f["conn"] and e["t"] >= f["t"]), None)
        got.append((c["t"] - f["t"]) if f and c else None)
    ppt = got[0] // 1000 if got[0] and got[0] >= 1000 and got[0] < 86400000 else 60
    rc = got[1] // 1000 - 15 if got[1] and 16000 <= got[1] < 86400000 else 2
    if (ppt, rc) != (60, 2):
        chk.drift("L4-stream", "D10-time-constants", {"per_packet_timeout_s": ppt, "read_card_margin_s": rc, "shipped": [60, 2],
                                                       "measured_ms": got})
    chk.cov["measured_time_constants"] = {"per_packet_timeout_s": ppt, "read_card_margin_s": rc}
    _CAL["v"] = (ppt, rc)
    return _CAL["v"]


def gen_scenarios(chk, mode, thorough, ppt=60, rcm=2):
    r = vlib.tlc("client/Gen_Client.tla", workers=1, xmx="8g", env={"GEN_MODE": mode, "GEN_THOROUGH": "1" if thorough else "0", "GEN_BIG": "0",
                                                                   "GEN_PPT": str(ppt), "GEN_RCM": str(rcm)}, timeout=3000)
    vlib.tlc_must_pass(r, "Gen_Client " + mode)
    sc = cc.parse_cases(r.out)
    if len(sc) != r.distinct:
        raise vlib.ToolError("Gen_Client: %d scenarios printed for %d states" % (len(sc), r.distinct))
    chk.add_tlc("Gen_Client(%s): one state per generated scenario" % mode, r)
    return sc


def random_walks(seed, count, depth, ops=("begin", "commit", "cancel"), read_card=False, configure=False):
    rnd = random.Random(seed)
    out = []
    for _ in range(count):
        ntok = rnd.choice([1, 2, 3, 8])
        toks = [[97 + i] for i in range(ntok)]
        cfg = {"max": rnd.choice([0, 1, 1, 2, 3]), "pre": digits(rnd.choice([0, 1, 2500, 2500, 10 ** 12 - 1, rnd.randrange(10 ** 6)])),
               "currency": rnd.choice([752, 826, 978])}
        calls, plan = [], []
        allops = list(ops) + (["read_card"] if read_card else []) + (["configure"] if configure else [])
        for _ in range(rnd.randrange(1, depth + 1)):
            op = rnd.choice(allops)
            call = {"op": op, "token": rnd.choice(toks), "amount": []}
            if op == "commit":
                call["amount"] = digits(rnd.choice([0, 1, 2499, 2500, 2501, 2 ** 32, 2 ** 64 - 1, rnd.randrange(10 ** 7)]))
            calls.append(call)
        for _ in range(depth * 6):
            k = rnd.random()
            if k < 0.62:
                p = {"o": "ok", "status": {"amount": digits(rnd.randrange(10 ** 6)), "trace": digits(rnd.randrange(10 ** 6)),
                                            "date": digits(rnd.randrange(1232)), "time": digits(rnd.randrange(235960)),
                                            "terminal_id": digits(rnd.randrange(10 ** 8))}}
                if rnd.random() < 0.2:
                    p["status"].pop(rnd.choice(list(p["status"])))
                if rnd.random() < 0.1:
                    p["early_status"] = True
            elif k < 0.78:
                p = {"o": "abort", "code": rnd.choice([rnd.randrange(256), 160, 108, 252, 184, 183])}
                if rnd.random() < 0.3:
                    p["status_first"] = True
            elif k < 0.84:
                p = {"o": "noreceipt", "open": rnd.random() < 0.5}
            elif k < 0.89:
                p = {"o": "ok_nostatus"}
            elif k < 0.95:
                p = {"o": "pending", "receipt": rnd.choice([65535, None, 77, 5]), "code": rnd.choice([184, 0, 183])}
            else:
                p = {"o": "status", "uid": [rnd.randrange(256) for _ in range(rnd.randrange(0, 12))], "subs": []}
            if rnd.random() < 0.25:
                p["inter"] = rnd.randrange(1, 3)
            # the environment at large: what the terminal displays and how often, how long it takes (always well inside the per-packet
            # timeout), what else its status information says, receipt lines - none of it changes what the operation means
            if rnd.random() < 0.15:
                p["inter"] = rnd.choice([1, 2, 5, 19, 20, 21, 40])
            if rnd.random() < 0.2:
                p["inter_status"] = rnd.randrange(256)
            if rnd.random() < 0.15:
                n = p.get("inter", 0) + 3
                p["delays"] = [rnd.choice([0, 1, 999, 5000, 14000]) for _ in range(n)]
            if p["o"] == "ok" and rnd.random() < 0.2:
                p["status"]["currency"] = digits(rnd.choice([978, 826, 752, 0, 9999]))
            if rnd.random() < 0.1:
                p["status_result"] = rnd.choice([0, 0, 5, 0x6c, 255])
            if p["o"] == "abort" and rnd.random() < 0.2:
                p["abort_receipt"] = rnd.choice([65535, 1, 4711, 9999])
            if rnd.random() < 0.1:
                p["lines"] = rnd.randrange(1, 4)
            plan.append(p)
        for c in calls:
            if rnd.random() < 0.05:
                c["idle_ms"] = rnd.choice([1000, 299000, 301000, 3600000])
        out.append({"config": cfg, "term": {"dangling": rnd.choice([[], [], [77], [9999], [5000]]), "next_receipt": rnd.choice([1, 1, 9998]),
                                            "chunk": rnd.choice([0, 0, 0, 1, 7, 64]), "wchunk": rnd.choice([0, 0, 0, 1, 2])},
                    "calls": calls, "plan": {"exchanges": plan}})
    return out


def script_walks(chk, binary, wd, seed, count):
    """impl -> spec at the level of reply scripts: every exchange of begin / commit / cancel / read_card / configure is answered by a
    random script over the reply set of its command - any number (0..3) of non-final packets in any order, then a final one - built
    from the specification's reply tables (Gen_Replies) with random well-formed packet bodies (structure-aware generator over the
    exported layout).  The pending query keeps its regular answer (06 1E with a receipt number / FFFF / none).  What the real client
    makes of each script is compared with FeigClient and judged by the P-specs (TraceClient)."""
    import seq_common
    layout, rp = seq_common.export_tables(wd)
    rep = json.load(open(rp))
    rnd = random.Random(seed * 7919 + 13)
    cmds = {"Reservation": "Reservation", "PartialReversal": "PartialReversal", "PreAuthReversal": "PreAuthReversal", "EndOfDay": "EndOfDay",
            "ReadCard": "ReadCard", "Initialization": "Initialization", "SetTerminalId": "SetTerminalId", "SysInfo": "GetSystemInfo"}
    types = sorted({v["ty"] for c in cmds.values() for v in rep["replies"][rep["sequences"][c]["parser"]]})
    pool = {}
    cand = cc.random_cases(binary, layout, seed, 60 * len(types), "clean", wd, "scriptpool", types)
    # only frames that decode are replies (an undecodable frame is a fault, the subject of C06 / C09); which of the generated frames
    # decode is asked of the real decoder - this selects inputs, it judges nothing
    rec = cc.run_cases(binary, [{"ty": r["ty"], "cls": "rand", "in": r["in"]} for r in cand], wd, "scriptpool")
    for r in vlib.read_ndjson(rec):
        if r["st"] == "ok" and r["rest"] == 0:
            pool.setdefault(r["ty"], []).append(r["in"])
    for t in types:
        if not pool.get(t):
            raise vlib.ToolError("no decodable random frame of type %s" % t)

    def script(cmd):
        sq = rep["sequences"][cmds[cmd]]
        vs = rep["replies"][sq["parser"]]
        fin = [v for v in vs if v["v"] in sq["finals"]] or vs
        non = [v for v in vs if v["v"] not in sq["finals"]]
        frames = []
        if sq["loop"] and non:
            for _ in range(rnd.choice([0, 0, 1, 1, 2, 3])):
                frames.append(rnd.choice(pool[rnd.choice(non)["ty"]]))
        last = list(rnd.choice(pool[rnd.choice(fin if sq["loop"] else vs)["ty"]]))
        if last[:2] == [0x06, 0x1e] and last[2] == 1 and rnd.random() < 0.4:
            # the long form of an abort: the result code followed by a receipt number (BMP 87)
            last = [0x06, 0x1e, 0x04, last[3], 0x87] + rnd.choice([[0xff, 0xff], [0x00, 0x08], [0x99, 0x99], [0x47, 0x11]])
            if rnd.random() < 0.4:
                # ... and a TLV container that lists further receipt numbers (2.10.1)
                lst = rnd.choice([[0x08, 0x02, 0x00, 0x17], [0x08, 0x02, 0x00, 0x17, 0x08, 0x02, 0x00, 0x18], [0x08, 0x02, 0x00, 0x17] * 3])
                tl = [0x23, len(lst)] + lst
                last = last + [0x06, len(tl)] + tl
                last[2] = len(last) - 3
        frames.append(last)
        return {"script": frames}
    out = []
    for _ in range(count):
        kind = rnd.choice(["commit", "commit", "cancel", "cancel", "read_card", "configure", "two", "card_then_pay"])
        cfg = {"max": rnd.choice([1, 2]), "pre": digits(rnd.choice([0, 2500, 10 ** 12 - 1])), "terminal_id": rnd.choice(["52523535", "11112222", "7"])}
        dang = rnd.choice([[], [], [4711]])
        if kind in ("commit", "cancel"):
            calls = [{"op": "begin", "token": [97], "amount": []}, {"op": kind, "token": [97], "amount": digits(rnd.choice([0, 1, 2500, 2501]))}]
        elif kind == "two":
            calls = [{"op": "begin", "token": [97], "amount": []}, {"op": "begin", "token": [98], "amount": []},
                     {"op": rnd.choice(["commit", "cancel"]), "token": [98], "amount": [1]}, {"op": rnd.choice(["commit", "cancel"]), "token": [97], "amount": [7]}]
            cfg["max"] = 2
        elif kind == "read_card":
            calls = [{"op": "read_card"}, {"op": "read_card"}]
        elif kind == "card_then_pay":
            calls = [{"op": "read_card"}, {"op": "begin", "token": [97], "amount": []}, {"op": "commit", "token": [97], "amount": digits(rnd.choice([0, 1, 833]))}]
        else:
            calls = [{"op": "configure"}]
        scripts = {c: [script(c) for _ in range(4)] for c in cmds}
        out.append({"config": cfg, "term": {"dangling": dang, "next_receipt": rnd.choice([1, 9998]), "chunk": rnd.choice([0, 0, 0, 1, 7, 64]), "wchunk": rnd.choice([0, 0, 0, 1, 2, 50])}, "calls": calls,
                    "plan": {"exchanges": [], "scripts": scripts, "default": {"o": "ok", "status": {"amount": [1]}, "uid": [1, 2, 3, 4]}}})
    return out


def report(chk, outs, iflags, pflags, claim, what=None):
    """claim: the P-flag prefixes this property owns (e.g. {"P07"}); 'abnormal' is claimed when "abnormal" in claim."""
    psc = set()
    for sci, ev, flags in pflags:
        o = outs[sci]
        for f in flags:
            pre = f.split("-")[0]
            if pre in claim or (f.startswith("abnormal") and "abnormal" in claim):
                psc.add(sci)
                call = next((e for e in reversed(o["trace"][:10 ** 6]) if e["e"] == "call"), {})
                ops = [c["op"] for c in o.get("calls", [])]
                chk.violation("%s:%s" % ("/".join(sorted(set(ops))), f),
                              "%s in scenario %s" % ((what or {}).get(f, f), json.dumps({"calls": o.get("calls")})[:300]), brief_scenario(o))
            elif pre in PROP_OF or "abnormal" in f:
                psc.add(sci)
                chk.notes.append("scenario flagged for another property (%s): %s" % (f, json.dumps(o.get("calls"))[:160]))
    for sci, ev, kind, detail in iflags:
        if sci not in psc:
            o = outs[sci]
            chk.drift("L4-client", "%s at event %d" % (kind, ev), {"detail": detail, "calls": o.get("calls"), "plan": str(o.get("plan"))[:400]})


CFLAG_RE = PFLAG_RE


def validate_conn(chk, out_path, wd, label, shard=300, ppt=60, rcm=2):
    """TLC runs the connection-level acceptors (TraceConn: P_C09, P_C10) over the traces."""
    lines = open(out_path).read().splitlines()
    shards = []
    for k in range(0, len(lines), shard):
        p = os.path.join(wd, "%s.cpart%d.ndjson" % (label, k // shard))
        open(p, "w").write("\n".join(lines[k:k + shard]) + "\n")
        shards.append((k, p))

    def one(s):
        k, p = s
        flat = p + ".flat"
        outs = []
        with open(flat, "w") as w:
            for i, line in enumerate(open(p)):
                o = json.loads(line)
                outs.append(o)
                c = spec_cfg(o.get("config"))
                full = dict(DEFAULT_CFG)
                full.update(o.get("config") or {})
                c["serial"] = [ord(ch) for ch in full["serial"]]
                c["tag"] = o.get("tag", "")
                c["ppt"] = ppt
                c["rcm"] = rcm
                w.write(json.dumps({"e": "reset", "sc": k + i + 1, "cfg": c}) + "\n")
                for e in o["trace"]:
                    e.pop("plan", None)
                    w.write(json.dumps(no_null(e)) + "\n")
        r = vlib.tlc("client/TraceConn.tla", workers=1, xmx="4g", depth_first=True, env={"CLIENT_TRACE": flat}, tag="%sc%d" % (label, k), timeout=3000)
        return k, outs, r, flat, p
    all_outs, pflags = [], []
    for k, outs, r, flat, p in vlib.parallel(one, shards, 12):
        if not r.ok:
            raise vlib.ToolError("TraceConn failed on %s:\n%s" % (flat, (r.error_text or r.out)[-3000:]))
        chk.cov["states"] += r.distinct
        chk.cov["transitions"] += r.generated
        for m in PFLAG_RE.finditer(r.out):
            pflags.append((int(m.group(1)) - 1, int(m.group(2)), json.loads(json.loads(m.group(3)))))
        all_outs.extend(outs)
        os.remove(flat)
        os.remove(p)
    return all_outs, pflags


STOP_RE = re.compile(r'STOPPED-AT", (\d+)')


def validate_stream(chk, out_path, wd, label, shard=150, ppt=60, rcm=2, demo=True):
    """impl -> spec for the packet-level I-spec: TLC checks that every trace is a behaviour of ResetStream with the real constants
    (TraceStream: attempt budget, throttle law, deadlines, connection discipline, bound to the logged connection ids and virtual
    timestamps).  A trace that is not accepted is MODEL-DRIFT of layer L4-stream, never a violation: the properties are judged by
    the P-spec acceptors (TraceConn).  Returns (accepted, rejected)."""
    lines = open(out_path).read().splitlines()

    def flat_of(objs, first, path):
        idx = []   # (first event line (1-based) of scenario, scenario number)
        n = 0
        with open(path, "w") as w:
            for i, o in enumerate(objs):
                full = dict(DEFAULT_CFG)
                full.update(o.get("config") or {})
                c = {"timeout": full["read_card_timeout"], "ppt": ppt, "rcm": rcm, "serial": [ord(ch) for ch in full["serial"]]}
                w.write(json.dumps({"e": "reset", "sc": first + i + 1, "cfg": c}) + "\n")
                n += 1
                idx.append((n, first + i))
                for e in o["trace"]:
                    e = {k: v for k, v in e.items() if k not in ("plan", "fields", "token", "amount", "val", "err")}
                    if e.get("e") in ("ledger", "plan"):
                        continue
                    w.write(json.dumps(no_null(e)) + "\n")
                    n += 1
        return idx, n

    def one(k):
        objs = [json.loads(x) for x in lines[k:k + shard]]
        rejected, states, gen, off = [], 0, 0, 0
        while off < len(objs):
            flat = os.path.join(wd, "%s.spart%d_%d.flat" % (label, k, off))
            idx, n = flat_of(objs[off:], k + off, flat)
            r = vlib.tlc("client/TraceStream.tla", workers=1, xmx="4g", depth_first=True,
                         env={"CLIENT_TRACE": flat, "PPT_MS": str(ppt * 1000)}, tag="%ss%d_%d" % (label, k, off), timeout=3000)
            states += r.distinct
            gen += r.generated
            if r.ok:
                os.remove(flat)
                break
            m = STOP_RE.search(r.out)
            if r.violated != "postcondition" or not m:
                raise vlib.ToolError("TraceStream failed on %s:\n%s" % (flat, (r.error_text or r.out)[-3000:]))
            at = int(m.group(1))
            # the scenario that contains the first event no branch could explain
            j = max(i for i, (ln, _) in enumerate(idx) if ln <= at)
            ev = open(flat).read().splitlines()[at - 1] if at <= n else "<end>"
            rejected.append((k + off + j, at - idx[j][0], ev[:300]))
            os.remove(flat)
            off += j + 1
            if len(rejected) > 25:
                break
        return k, len(objs), rejected, states, gen
    acc, rej = 0, []
    for k, n, rejected, states, gen in vlib.parallel(one, list(range(0, len(lines), shard)), 12):
        chk.cov["states"] += states
        chk.cov["transitions"] += gen
        acc += n - len(rejected)
        rej.extend(rejected)
    outs = None
    for sci, evno, ev in sorted(rej)[:40]:
        if outs is None:
            outs = [json.loads(x) for x in lines]
        o = outs[sci]
        chk.drift("L4-stream", "trace not a behaviour of ResetStream at event %d" % evno,
                  {"event": ev, "calls": [c["op"] for c in o.get("calls", [])], "tag": o.get("tag"), "plan": str(o.get("plan"))[:300]})
    chk.cov["stream_traces"] = {"accepted_by_ResetStream": acc, "rejected": len(rej)}
    if demo and lines:
        # binding demonstration: one recorded timestamp of a close event moved by one millisecond must be rejected
        o = None
        for x in lines:
            c = json.loads(x)
            if any(e.get("e") in ("hang", "panic") for e in c["trace"]):
                continue
            incall, hit = False, None
            for i, e in enumerate(c["trace"]):
                if e.get("e") == "call":
                    incall = True
                elif e.get("e") == "ret":
                    incall = False
                elif e.get("e") == "close" and incall:
                    hit = i
                    break
            if hit is not None:
                c["trace"][hit]["t"] += 1
                o = c
                break
        if o is not None:
            flat = os.path.join(wd, label + ".sdemo.flat")
            flat_of([o], 0, flat)
            r = vlib.tlc("client/TraceStream.tla", workers=1, xmx="2g", depth_first=True, env={"CLIENT_TRACE": flat, "PPT_MS": str(ppt * 1000)},
                         tag=label + "sdemo", timeout=600)
            os.remove(flat)
            chk.cov["stream_binding_demo"] = "a close event moved by 1 ms is " + ("rejected" if r.violated == "postcondition" else "NOT rejected")
            if r.violated != "postcondition":
                raise vlib.ToolError("binding demonstration failed: TraceStream accepted a corrupted trace")
    return acc, len(rej)


def model_check_stream(chk):
    thorough = chk.tier == "thorough"
    main, delay = ("ResetStream_thorough.cfg", "ResetStream_delay_thorough.cfg") if thorough else ("ResetStream.cfg", "ResetStream_delay.cfg")
    r = vlib.tlc("client/ResetStream.tla", cfg=main, workers=vlib.NCPU if thorough else 8, xmx="12g", timeout=7000)
    vlib.tlc_must_pass(r, "ResetStream")
    if r.violated:
        raise vlib.ToolError("the reconnecting-stream specification violates %s" % r.violated)
    chk.add_tlc("ResetStream (%s): 2 public calls x up to 2 exchanges each, retry budget 3, every fault kind at every frame of connect / registration / "
                "identity check / command exchange, up to %d faults, callers that leave an exchange unfinished; invariants CommandsOnlyOnVetted, "
                "NoUseAfterTaint, OneLive, KeepOnSuccess, Bounded, AttemptsBounded; liveness Returns under weak fairness" % (main, 4 if thorough else 3), r)
    rd = vlib.tlc("client/ResetStream.tla", cfg=delay, workers=vlib.NCPU if thorough else 8, xmx="12g", timeout=7000)
    vlib.tlc_must_pass(rd, "ResetStream (delays)")
    if rd.violated:
        raise vlib.ToolError("the reconnecting-stream specification with delayed replies violates %s" % rd.violated)
    chk.add_tlc("ResetStream (%s): replies delayed to just before the deadline at every frame (handshake: the deadline of the whole connect phase); "
                "same invariants and liveness" % delay, rd)
    r2 = vlib.tlc("client/ResetStream.tla", cfg="ResetStream_unguarded.cfg", workers=4, xmx="8g")
    chk.cov["model_runs"].append({"model": "ResetStream with an unguarded connect phase (the code before the repair of D7)",
                                   "liveness_Returns": "violated as expected" if r2.violated == "temporal" else "NOT violated"})
    if r2.violated != "temporal":
        raise vlib.ToolError("the unguarded variant of ResetStream does not violate Returns: the liveness check is vacuous")
    return r


def apalache_inductive(chk):
    """Thorough tier: Apalache discharges the connection discipline of ResetStream as an inductive invariant (MC_ResetStreamInd):
    Init => IndInv, IndInv /\\ Next => IndInv', IndInv => the P_C09 invariants, for unconstrained natural constants (any retry budget, any
    number of faults, calls, streams; any delays and times).  Two controls: the arbitrary pre-state is not vacuous, and a ResetStream
    whose Drop forgets to close the connection is NOT inductive."""
    import shutil
    import subprocess
    wd = vlib.workdir(chk.pid + "-apalache")
    src = os.path.join(vlib.SPEC, "client")
    for f in ("ResetStream.tla", "MC_ResetStreamInd.tla"):
        shutil.copy(os.path.join(src, f), wd)

    def run(init, inv, length, cwd=wd):
        p = subprocess.run(["apalache-mc", "check", "--init=" + init, "--cinit=ConstInit", "--inv=" + inv, "--length=%d" % length,
                            "--out-dir=" + os.path.join(wd, "out"), "MC_ResetStreamInd.tla"], cwd=cwd, stdout=subprocess.PIPE,
                           stderr=subprocess.STDOUT, text=True, timeout=3000)
        if "The outcome is: NoError" in p.stdout:
            return "holds"
        if "The outcome is: Error" in p.stdout:
            return "violated"
        raise vlib.ToolError("apalache-mc failed (%s, %s):\n%s" % (init, inv, p.stdout[-2000:]))
    res = {"Init => IndInv": run("Init", "IndInv", 0), "IndInv /\\ Next => IndInv'": run("IndInit", "IndInv", 1),
           "IndInv => CommandsOnlyOnVetted /\\ NoUseAfterTaint /\\ OneLive /\\ KeepOnSuccess": run("IndInit", "Implied", 0),
           "control: pre-state not confined to idle": run("IndInit", "NotVacuous", 0)}
    # control: a stream that does not close the connection it drops is not inductive
    mut = os.path.join(wd, "mut")
    os.makedirs(mut, exist_ok=True)
    m = open(os.path.join(wd, "ResetStream.tla")).read()
    assert "Drop(taint) == /\\ closed' = closed \\cup {conn}" in m
    open(os.path.join(mut, "ResetStream.tla"), "w").write(m.replace("Drop(taint) == /\\ closed' = closed \\cup {conn}", "Drop(taint) == /\\ closed' = closed"))
    shutil.copy(os.path.join(wd, "MC_ResetStreamInd.tla"), mut)
    res["control: Drop without closing is not inductive"] = run("IndInit", "IndInv", 1, cwd=mut)
    chk.cov["model_runs"].append({"model": "MC_ResetStreamInd (Apalache 0.58, inductive invariant, unconstrained constants, id sets <= 4)", "results": res})
    want = ["holds", "holds", "holds", "violated", "violated"]
    if list(res.values()) != want:
        raise vlib.ToolError("the inductive-invariant argument for ResetStream does not go through: %s" % res)
    shutil.rmtree(wd, ignore_errors=True)


def apalache_txnmap(chk):
    """Thorough tier: the abstract token map (TxnMap, which FeigClient refines - PROPERTY RefinesTxnMap of MC_Client) keeps WithinMax,
    OneToOne and OnTheBooks in behaviours of any length: inductive invariant discharged by Apalache, with a vacuity control."""
    import shutil
    import subprocess
    wd = vlib.workdir(chk.pid + "-apalache")
    for f in ("TxnMap.tla", "MC_TxnMapInd.tla"):
        shutil.copy(os.path.join(vlib.SPEC, "client", f), wd)

    def run(init, inv, length):
        p = subprocess.run(["apalache-mc", "check", "--init=" + init, "--cinit=ConstInit", "--inv=" + inv, "--length=%d" % length,
                            "--out-dir=" + os.path.join(wd, "out"), "MC_TxnMapInd.tla"], cwd=wd, stdout=subprocess.PIPE,
                           stderr=subprocess.STDOUT, text=True, timeout=3000)
        if "The outcome is: NoError" in p.stdout:
            return "holds"
        if "The outcome is: Error" in p.stdout:
            return "violated"
        raise vlib.ToolError("apalache-mc failed (%s, %s):\n%s" % (init, inv, p.stdout[-2000:]))
    res = {"Init => IndInv": run("Init", "IndInv", 0), "IndInv /\\ Next => IndInv'": run("IndInit", "IndInv", 1),
           "control: pre-state not confined to the empty map": run("IndInit", "NotVacuous", 0)}
    chk.cov["model_runs"].append({"model": "MC_TxnMapInd (Apalache 0.58: WithinMax, OneToOne, OnTheBooks inductive on TxnMap; <= 5 tokens, <= 8 receipts in the pre-state)",
                                   "results": res})
    if list(res.values()) != ["holds", "holds", "violated"]:
        raise vlib.ToolError("the inductive-invariant argument for TxnMap does not go through: %s" % res)
    shutil.rmtree(wd, ignore_errors=True)


def report_conn(chk, outs, pflags, claim, what=None):
    for sci, ev, flags in pflags:
        o = outs[sci]
        for f in flags:
            pre = f.split("-")[0]
            if pre in claim:
                fault = json.dumps((o.get("plan") or {}).get("handshake") or [x.get("fault") for x in (o.get("plan") or {}).get("exchanges", []) if x.get("fault")])[:200]
                ops = [c["op"] for c in o.get("calls", [])]
                chk.violation("%s:%s:%s" % (ops[-2] if len(ops) > 1 else ops[0], f, fault), "%s; calls %s, fault %s" % ((what or {}).get(f, f), ops, fault), brief_scenario(o))
            elif pre.startswith("D"):
                chk.drift("L4-stream", f, {"calls": [c["op"] for c in o.get("calls", [])], "tag": o.get("tag")})
            else:
                chk.notes.append("scenario flagged for another property (%s)" % f)
