"""Shared machinery of the sequence-layer checks (C05, C06, C11)."""
import json
import os
import re

import vlib
import codec_common as cc

FLAG_RE = re.compile(r'^<<"FLAGS", (\d+), (".*")>>$', re.M)


def export_tables(wd):
    layout = cc.export_layout(wd)
    rp = os.path.join(wd, "replies.json")
    r = vlib.tlc("sequence/Gen_Replies.tla", env={"REPLIES_OUT": rp})
    vlib.tlc_must_pass(r, "Gen_Replies")
    return layout, rp


def model_cases(chk, depth, emit_depth, only_cmd=None, label="MC_Sequence"):
    """Exhaustive model check at `depth`; cases for replay at `emit_depth` (<= depth)."""
    env = {"SEQ_DEPTH": depth, "SEQ_EMIT": "1" if emit_depth == depth else "0"}
    if only_cmd:
        env["SEQ_CMD"] = only_cmd
    r = vlib.tlc("sequence/MC_Sequence.tla", workers=vlib.NCPU, xmx="24g", env=env, timeout=7000)
    vlib.tlc_must_pass(r, label)
    if r.violated:
        raise vlib.ToolError("the sequence specification itself violates %s:\n%s" % (r.violated, r.out[-1500:]))
    chk.add_tlc("%s: 18 commands x every PT script up to %d frames over {Ack, replies, NACK, foreign, malformed, truncated}; P_C05, P_C06, "
                "Delivers, FaultsFail as invariants" % (label, depth), r)
    if emit_depth == depth:
        return cc.parse_cases(r.out)
    env["SEQ_DEPTH"] = emit_depth
    env["SEQ_EMIT"] = "1"
    r2 = vlib.tlc("sequence/MC_Sequence.tla", workers=vlib.NCPU, xmx="24g", env=env, timeout=7000)
    vlib.tlc_must_pass(r2, label + " (emit)")
    return cc.parse_cases(r2.out)


def model_cases_wfail(chk, depth, wmax):
    """The same model with the connection refusing the w-th write of the ECR (w = 1 the command, 2.. its answers): every script up to
    `depth` x every w <= wmax; P_C05 / P_C06 as invariants; the behaviours with a refused write are returned for replay."""
    env = {"SEQ_DEPTH": depth, "SEQ_EMIT": "1", "SEQ_WFAIL": wmax}
    r = vlib.tlc("sequence/MC_Sequence.tla", workers=vlib.NCPU, xmx="24g", env=env, timeout=7000)
    vlib.tlc_must_pass(r, "MC_Sequence (refused writes)")
    if r.violated:
        raise vlib.ToolError("the sequence specification with refused writes violates %s:\n%s" % (r.violated, r.out[-1500:]))
    chk.add_tlc("MC_Sequence with refused writes: 18 commands x every PT script up to %d frames x the connection refusing write 0..%d; "
                "P_C05, P_C06 as invariants" % (depth, wmax), r)
    return [c for c in cc.parse_cases(r.out) if c.get("wfail", 0) > 0]


def upload_dir(wd):
    """The payload directory behind the model's announced ids 0x10 and 0x22."""
    d = os.path.join(wd, "payload")
    os.makedirs(os.path.join(d, "firmware"), exist_ok=True)
    os.makedirs(os.path.join(d, "app1"), exist_ok=True)
    open(os.path.join(d, "firmware", "kernel.gz"), "wb").write(bytes([1, 2, 3, 4, 5]))
    open(os.path.join(d, "app1", "update.spec"), "wb").write(bytes([9, 8, 7]))
    open(os.path.join(d, "README.txt"), "wb").write(b"not a recognised file")
    return d


def replay(binary, cases, wd, label):
    cin, cout = os.path.join(wd, label + ".cases.ndjson"), os.path.join(wd, label + ".out.ndjson")
    vlib.write_ndjson(cin, cases)
    vlib.harness_run(binary, ["seq-run", cin, cout], timeout=3000)
    return cout


def judge_traces(chk, path, wd, label, shard=3000, only_lines=None):
    """TLC validates exchange records against ZvtSequence; returns [(record, flags)]."""
    lines = open(path).read().splitlines()
    if only_lines is not None:
        lines = [lines[i] for i in only_lines]
    shards = []
    for k in range(0, len(lines), shard):
        p = os.path.join(wd, "%s.t%d.ndjson" % (label, k // shard))
        open(p, "w").write("\n".join(lines[k:k + shard]) + "\n")
        shards.append((k, p))

    def one(s):
        k, p = s
        return k, p, vlib.tlc("sequence/TraceSequence.tla", workers=2, xmx="6g", env={"SEQ_TRACE": p}, tag="%s%d" % (label, k), timeout=3000)
    out = []
    for k, p, r in vlib.parallel(one, shards, 8):
        if not r.ok:
            raise vlib.ToolError("TraceSequence failed on %s:\n%s" % (p, (r.error_text or r.out)[-2500:]))
        chk.cov["states"] += r.distinct
        chk.cov["transitions"] += r.generated
        for m in FLAG_RE.finditer(r.out):
            out.append((json.loads(lines[k + int(m.group(1)) - 1]), set(json.loads(json.loads(m.group(2))))))
        os.remove(p)
    return out, len(lines)


def brief(rec):
    return {"cmd": rec["cmd"], "frames": [cc.hexs(f["bytes"]) + (" (truncated)" if f["trunc"] else "") for f in rec.get("frames", [])][:12],
            "observed": [(e["e"] + ":" + (e["a"] or e["v"] or str(e["n"]))) for e in rec.get("obs", [])][:60],
            "left": rec.get("obs_left"), "note": rec.get("note"), "fault": rec.get("fault")}


def control_field_sweep(cases, thorough, seed):
    """For every command: the frame in place of the acknowledgement runs over the control fields 80 xx and 84 xx (every NACK code; in
    thorough also xx 00 / xx 1E / xx FF for every class), and a NACK with every code stands in place of the first reply. Built from a
    fault-free model case of the command (its request, acknowledgement and replies); judged by TraceSequence like every other record."""
    base = {}
    for c in sorted(cases, key=lambda c: -len(c["frames"])):
        if len(c["frames"]) < 2 or c.get("wfail"):
            continue
        if any(e["e"] == "y" and e["a"] == "err" for e in c["log"]) or c["frames"][0]["bytes"] != [128, 0, 0] or any(f["trunc"] for f in c["frames"]):
            continue
        oks = [e for e in c["log"] if e["e"] == "y" and e["a"] == "ok"]
        # a fault-free exchange in which every frame was delivered: acknowledgement, (non-final replies,) final reply
        if len(oks) != len(c["frames"]) - 1 or c["left"] != 0:
            continue
        if c["cmd"] not in base:
            base[c["cmd"]] = c
    import random
    rnd = random.Random(seed)
    cfs = [(a, b) for a in (0x80, 0x84) for b in range(256)]
    if thorough:
        cfs += [(a, b) for a in range(256) for b in (0x00, 0x1e, 0xff) if a not in (0x80, 0x84)]
    else:
        cfs += [(rnd.randrange(256), rnd.randrange(256)) for _ in range(64)]
    # the classes in which ZVT packets live, every instruction: in place of the acknowledgement and of the first reply, for a one-shot
    # sequence, a looping one and the upload (thorough: every control field there is)
    wide = [(a, b) for a in ((range(256)) if thorough else (0x04, 0x05, 0x06, 0x08, 0x0f, 0xff)) for b in range(256)]
    out = []
    for cmd, c in sorted(base.items()):
        keep = {k: v for k, v in c.items() if k not in ("frames", "log", "left")}
        for a, b in cfs:
            out.append(dict(keep, frames=[{"bytes": [a, b, 0], "trunc": False}] + c["frames"][1:], fault="cf-sweep", chunk=0))
        for code in range(256):
            out.append(dict(keep, frames=[c["frames"][0], {"bytes": [0x84, code, 0], "trunc": False}] + c["frames"][1:], fault="nack-sweep", chunk=0))
        if cmd in ("Registration", "Authorization", "WriteFile"):
            for a, b in wide:
                out.append(dict(keep, frames=[{"bytes": [a, b, 0], "trunc": False}] + c["frames"][1:], fault="cf-sweep", chunk=0))
                out.append(dict(keep, frames=[c["frames"][0], {"bytes": [a, b, 0], "trunc": False}] + c["frames"][1:], fault="cf-sweep-reply", chunk=0))
    # the command's own bytes coming back (an echoing line) in front of, and in place of, the acknowledgement: a frame like any other
    # that is not the acknowledgement
    for cmd, c in sorted(base.items()):
        if c.get("req"):
            keep = {k: v for k, v in c.items() if k not in ("frames", "log", "left")}
            echo = {"bytes": c["req"], "trunc": False}
            out.append(dict(keep, frames=[echo] + c["frames"], fault="echo", chunk=0))
            out.append(dict(keep, frames=[echo] + c["frames"][1:], fault="echo", chunk=0))
            out.append(dict(keep, frames=[c["frames"][0], echo] + c["frames"][1:], fault="echo", chunk=0))
    # an intermediate status with every status byte (a one-byte field: exhaustive), then a frame that cannot be interpreted (foreign,
    # malformed, NACK, cut short) or the rest of the fault-free script: what the terminal displays does not change the discipline
    faults = [[{"bytes": [4, 13, 0], "trunc": False}], [{"bytes": [6, 15, 2, 41, 0], "trunc": False}], [{"bytes": [0x84, 0x9c, 0], "trunc": False}],
              [{"bytes": [4, 15, 5, 39], "trunc": True}]]
    for cmd, c in sorted(base.items()):
        keep = {k: v for k, v in c.items() if k not in ("frames", "log", "left")}
        for st in range(256):
            inter = {"bytes": [4, 255, 1, st], "trunc": False}
            tail = faults[st % 4] if not thorough else None
            for t in ([tail] if tail is not None else faults):
                out.append(dict(keep, frames=[c["frames"][0], inter] + t, fault="status-sweep", chunk=0))
            if st % 4 == 0 or thorough:
                out.append(dict(keep, frames=[c["frames"][0], inter, inter] + faults[(st // 4) % 4], fault="status-sweep", chunk=0))
                out.append(dict(keep, frames=[c["frames"][0], inter] + c["frames"][1:], fault="status-sweep", chunk=0))
    # long exchanges: 63 / 64 / 65 / 130 / 300 non-final replies in front of the rest of a fault-free script
    for cmd, c in sorted(base.items()):
        fs = c["frames"]
        if len(fs) >= 3:
            keep = {k: v for k, v in c.items() if k not in ("frames", "log", "left")}
            for n in (63, 64, 65, 130, 300):
                out.append(dict(keep, frames=[fs[0]] + [fs[1]] * n + fs[2:], fault="long", chunk=0))
    return out


def run_sequence_check(chk, prefix, what):
    """prefix = 'P05' or 'P06': the flags this property claims."""
    wd = vlib.workdir(chk.pid)
    thorough = chk.tier == "thorough"
    binary = vlib.harness_build()
    # thorough: every script of up to 4 frames for all 18 commands (4.5 M behaviours) on the specification; replayed are all of depth 3
    # and, for a one-shot, a looping and the upload sequence, all of depth 4 (depth 5 - 70 M behaviours with the alphabet as it has
    # grown - is beyond this sandbox; it was run while the alphabet was smaller)
    depth = 4 if thorough else 3
    cases = model_cases(chk, depth, 3)
    if thorough:
        for cmd in ("Registration", "ReadCard", "WriteFile", "EndOfDay"):
            cases += model_cases(chk, 4, 4, only_cmd=cmd, label="MC_Sequence(%s)" % cmd)
    cases += model_cases_wfail(chk, 3 if thorough else 2, 4 if thorough else 3)
    d = upload_dir(wd)
    for c in cases:
        if c["cmd"] == "WriteFile":
            c["dir"] = d
            c["block"] = 2
            c["announced"] = [16, 34]
    # the request itself rotates over the boundary values of its type (reference-encoded): an exchange does not depend on what was asked
    _, rp0 = export_tables(wd)
    seqtab = json.load(open(rp0))["sequences"]
    reqvals = {}
    for v in cc.gen_values(chk, big=False):
        if v.get("cls") == "canon":
            reqvals.setdefault(v["ty"], []).append(v["in"])
    for k, c in enumerate(cases):
        opts = reqvals.get(seqtab.get(c["cmd"], {}).get("req", ""), [])
        if opts and c["cmd"] != "WriteFile":
            c["req"] = opts[k % len(opts)]
    # the connection takes a write whole, or one / two bytes of it at a time (rotating over the cases)
    for k, c in enumerate(cases):
        c["end_kind"] = [0, 0, 1, 0, 2, 3, 0, 4, 5][k % 9]   # behind the script: end of file, or a reset / abort / broken pipe / time-out
        c["wchunk"] = [0, 0, 0, 1, 2][k % 5]
        c["chunk"] = [0, 0, 1, 0, 3, 0, 64][k % 7]          # ... and hands out what it has whole or in pieces
        if k % 11 == 3:
            # ... and sometimes stops in the middle of the script for a while (virtual time)
            total = sum(len(f["bytes"]) for f in c["frames"])
            if total > 2:
                c["pause_at"] = 1 + (k // 11) % (total - 1)
                c["pause_ms"] = [2500, 11000, 61000][(k // 11) % 3]
    out = replay(binary, cases, wd, "replay")
    mism = []
    n = 0
    with open(out) as f:
        for i, line in enumerate(f):
            o = json.loads(line)
            n += 1
            if not (o["obs"] == o["log"] and o["obs_left"] == o["left"] and o["note"] == ""):
                mism.append(i)
    flagged = []
    if mism:
        flagged, _ = judge_traces(chk, out, wd, "mism", only_lines=mism)
    # impl -> spec: random scripts with real packet bodies
    layout, rp = export_tables(wd)
    rc = os.path.join(wd, "rand.cases.ndjson")
    nr = 6000 if thorough else 600
    vlib.harness_run(binary, ["seq-gen", layout, rp, chk.seed, nr, 40, "mix", rc])
    rcases = vlib.read_ndjson(rc)
    rout = replay(binary, rcases, wd, "rand")
    rflag, rn = judge_traces(chk, rout, wd, "rand", shard=500)
    # impl -> spec: control-field sweep at the acknowledgement position and NACK codes at the first reply position, per command
    sweep = control_field_sweep(cases, thorough, chk.seed)
    sout = replay(binary, sweep, wd, "sweep")
    sflag, sn = judge_traces(chk, sout, wd, "sweep", shard=1500)
    rflag = rflag + sflag
    rn += sn
    chk.cov["control_field_sweep_records"] = sn
    # the shipped command line tool: each subcommand as a process against a scripted terminal on a real TCP connection (L5, spec/cli)
    import tool_common
    ncli = tool_common.run_cli(chk, chk.pid, thorough)
    chk.cov["traces_validated_against_impl"] = n + rn + ncli
    chk.cov["evaluations"] = n + rn + ncli
    chk.cov["distinct_nontrivial"] = n
    chk.cov["replayed_model_cases"] = n
    chk.cov["random_exchanges"] = rn
    chk.cov["rule"] = ("spec -> impl: every finished behaviour of MC_Sequence (18 commands x every script of up to %d frames, with and without a "
                       "truncated last frame) replayed against the real into_stream through a scripted peer; the observed event log (frames "
                       "written, frames consumed, items, end) and the bytes left on the connection must equal the model's. impl -> spec: seeded "
                       "random scripts of up to 40 frames with generated packet bodies and one injected fault in half of them, validated by TLC "
                       "(TraceSequence); thorough: model depth 4, replay depth 3 for all and depth 4 for four commands. The thirteen subcommands of zvt_cli run as processes against a scripted terminal on a loopback TCP "
                       "connection for a stratified sample of MC_ZvtCli's runs (every script of up to 3 frames); the frames written are taken at "
                       "the system call and judged by TLC (TraceCli). "
                       "distinct_nontrivial = replayed model behaviours (distinct terminal states)" % 3)
    if cases:
        c = cases[len(cases) // 3]
        chk.sample({"cmd": c["cmd"], "script": [cc.hexs(f["bytes"]) for f in c["frames"]],
                    "expected_log": [(e["e"] + ":" + (e["a"] or e["v"] or str(e["n"]))) for e in c["log"]]})
    for rec, flags in flagged + rflag:
        mine = sorted(f for f in flags if f.startswith(prefix) and not f.endswith("-ambiguous"))
        abnormal = [f for f in flags if f.startswith("abnormal")]
        if abnormal:
            chk.violation("%s:%s" % (rec["cmd"], abnormal[0]), "%s: the exchange %s" % (rec["cmd"], abnormal[0]), brief(rec))
        for f in mine:
            chk.violation("%s:%s" % (rec["cmd"], f), "%s: %s (%s)" % (rec["cmd"], what.get(f, f), f), brief(rec))
        if not mine and not abnormal:
            other = sorted(f for f in flags if f.startswith("P0") and not f.endswith("-ambiguous"))
            if other:
                chk.notes.append("record flagged for another property: %s %s" % (rec["cmd"], other))
            else:
                chk.drift("L3-sequence", "%s %s" % (rec["cmd"], sorted(flags)), brief(rec))
    chk.assumptions += ["the peer queues the script up front (eager); frames written by the code are recognised by APDU framing only",
                        "request values are obtained by decoding reference-encoded typical values with the real decoder",
                        "zvt_cli runs: strace reports the tool's writes faithfully"]
