"""L5: the firmware update tool (zvt_cli, bin feig_update) run as a real process against a scripted terminal on a loopback TCP connection.

spec -> impl: MC_FeigUpdate enumerates terminal scripts and options and prints every run of the I-spec (FeigUpdate!RunTool) as a case;
each case is replayed: a payload directory is built, a TCP listener plays the terminal (it queues the whole script on the connection and
half-closes - the end of the script is the end of the connection - and then reads whatever the tool writes until the tool has exited).
impl -> spec: the observation (frames written, item lines printed, exit status) is a record that TLC judges with TraceTool."""
import json
import os
import random
import re
import shutil
import socket
import subprocess
import threading

import vlib
import codec_common as cc

FLAG_RE = re.compile(r'<<"FLAGS", (\d+), ("(?:[^"\\]|\\.)*")>>')
# one target directory per repository location: cargo does not refresh the final binary when two workspaces share one
import hashlib
CLI_TARGET = os.path.join(vlib.HARNESS, "target-cli-" + hashlib.md5(vlib.REPO.encode()).hexdigest()[:8])

FILES = {  # path -> (id, content); app1/update.spec is written per case
    "firmware/kernel.gz": (16, bytes([1, 2, 3, 4, 5])),
    "app1/update.tar.gz": (35, bytes((i * 7 + 3) % 256 for i in range(300))),     # requests at 0 / 7 / 172 leave 300 / 293 / 128 bytes
}
NEAR_MISSES = ["app2/Update.spec", "firmware/KERNEL.GZ", "app1/update.tar.gz~", "old/app0/update.spec"]   # not artefacts
WHAT = {"PT-stage-order": "the tool's commands did not go out in the order registration, system information, end of day, upload",
        "PT-skip-not-silent": "the tool said it skips the update but wrote further commands (or did not exit with 0)",
        "PT-upload-without-handshake": "the upload was started although registration or the system information exchange had failed",
        "PT-finished-without-completion": "the tool reported the update as finished although the terminal did not complete it",
        "P11-manifest": "the announced file list is not exactly the recognised files present with their true sizes",
        "P11-block": "a data block does not echo the requested id and offset with exactly the file's bytes from that offset",
        "P05-stage": "a stage of the tool violates the acknowledgement discipline of its command sequence"}


def build_tool():
    """Build feig_update from REPO's working tree into a target directory outside the repository."""
    cmd = ["cargo", "build", "--offline", "-p", "zvt_cli", "--bins", "--manifest-path", os.path.join(vlib.REPO, "Cargo.toml"),
           "--target-dir", CLI_TARGET]
    e = dict(os.environ, CARGO_NET_OFFLINE="true")
    p = subprocess.run(cmd, stdout=subprocess.PIPE, stderr=subprocess.STDOUT, text=True, env=e)
    if p.returncode != 0:
        raise vlib.ToolError("cannot build feig_update:\n" + p.stdout[-3000:])
    return os.path.join(CLI_TARGET, "debug", "feig_update")


def model_cases(chk, flat):
    r = vlib.tlc("cli/MC_FeigUpdate.tla", workers=8, xmx="8g", env={"TOOL_EMIT": "1", "TOOL_FLAT": flat}, timeout=3000)
    vlib.tlc_must_pass(r, "MC_FeigUpdate")
    if r.violated:
        raise vlib.ToolError("the specification of the update tool violates %s:\n%s" % (r.violated, r.out[-1500:]))
    chk.add_tlc("MC_FeigUpdate: one terminal behaviour per stage (8 x 8 x 9 x 13 menus) x forced x payload version {unreadable, contained, not "
                "contained, empty} + every script up to %d frames over 7 frames; stage order, no upload without handshake, silence after a skip, "
                "success only after completion, C05/C06 per stage, skip exactly when current" % flat, r)
    # control: a tool that uploads whatever the handshake gave violates Handshake
    m = vlib.tlc("cli/MC_FeigUpdate.tla", workers=8, xmx="8g", env={"TOOL_EMIT": "0", "TOOL_FLAT": 1, "TOOL_MUT": "nohandshake"}, timeout=3000)
    if m.violated != "Handshake":
        raise vlib.ToolError("control failed: a tool that ignores a failed system information exchange must violate Handshake, got %s" % m.violated)
    cases = cc.parse_cases(r.out)
    outcome = {}
    for c in cases:
        k = "skipped" if c["skipped"] else ("exit0" if c["exit"] == 0 else "panic-at-stage-%d" % len(c["items"]))
        outcome[k] = outcome.get(k, 0) + 1
    for k in ("skipped", "exit0", "panic-at-stage-1", "panic-at-stage-2", "panic-at-stage-4"):
        if not outcome.get(k):
            raise vlib.ToolError("MC_FeigUpdate is vacuous: no run with outcome %s" % k)
    chk.cov["tool_model_outcomes"] = outcome
    return cases


def spec_content(desired):
    """<<>>: unreadable; <<v>>: names version v (a byte string)."""
    if not desired:
        return b'{"ver": "1"}'
    return json.dumps({"version": bytes(desired[0]).decode("ascii")}).encode()


def split_frames(buf):
    """Split what the tool wrote at APDU boundaries: cc ii len [ff lo hi] body."""
    out, i = [], 0
    while i < len(buf):
        if i + 3 > len(buf):
            return out, list(buf[i:])
        n, h = buf[i + 2], 3
        if n == 0xff:
            if i + 5 > len(buf):
                return out, list(buf[i:])
            n, h = buf[i + 3] | (buf[i + 4] << 8), 5
        if i + h + n > len(buf):
            return out, list(buf[i:])
        out.append(list(buf[i:i + h + n]))
        i += h + n
    return out, []


ST_CONNECT = re.compile(r'^\d+\s+connect\((\d+), \{sa_family=AF_INET, sin_port=htons\((\d+)\)')
ST_WRITE = re.compile(r'^\d+\s+(?:sendto|write)\((\d+), "((?:\\x[0-9a-f]{2})*)"(?:\.\.\.)?, \d+(?:, [^)]*)?\)\s+= (\d+)')


def syscall_writes(path, port):
    """The bytes the process wrote to the socket it connected to `port`, in order (successful writes only, as many bytes as were taken)."""
    fd, out = None, bytearray()
    try:
        for line in open(path, errors="replace"):
            m = ST_CONNECT.match(line)
            if m and int(m.group(2)) == port:
                fd = m.group(1)
                continue
            if fd is None:
                continue
            if "writev(" + fd + "," in line:
                return None            # not expected from this program: say so instead of guessing
            m = ST_WRITE.match(line)
            if m and m.group(1) == fd:
                data = bytes.fromhex(m.group(2).replace("\\x", ""))
                out.extend(data[:int(m.group(3))])
    except OSError:
        return None
    return bytes(out) if fd is not None else None


ITEM_PREFIX = [("Registered to the terminal ", 1), ("The system info returned ", 2), ("The EndOfDay returned ", 3), ("Updating the terminal ", 4)]


def parse_stdout(text):
    items = {1: [], 2: [], 3: [], 4: []}
    skip = finished = False
    for line in text.splitlines():
        if line.startswith("Skipping update"):
            skip = True
        if line.startswith("Finished the update"):
            finished = True
        for pre, st in ITEM_PREFIX:
            if line.startswith(pre):
                rest = line[len(pre):]
                if st == 3:
                    if rest.startswith("Err("):
                        items[3].append("err")
                        break
                    rest = rest[3:] if rest.startswith("Ok(") else rest
                m = re.match(r"([A-Za-z0-9_]+)", rest)
                items[st].append(m.group(1) if m else "?")
                break
    return items, skip, finished


STRACE_OK = [None]
FALLBACKS = [0]


def strace_usable():
    """Can this process trace a child? (ptrace may be restricted.)"""
    if STRACE_OK[0] is None:
        try:
            p = subprocess.run(["strace", "-f", "-e", "trace=write", "-o", "/dev/null", "true"], stdout=subprocess.PIPE, stderr=subprocess.PIPE, timeout=20)
            STRACE_OK[0] = p.returncode == 0
        except Exception:
            STRACE_OK[0] = False
    return STRACE_OK[0]


def run_process(argv, frames, wd, k):
    """Run a tool against a terminal that queues `frames` on the connection and half-closes. argv(port) -> command line.
    Returns (exit status, stdout, stderr, frames written, note)."""
    srv = socket.socket()
    srv.bind(("127.0.0.1", 0))
    srv.listen(1)
    srv.settimeout(20)
    port = srv.getsockname()[1]
    got = bytearray()
    note = [""]
    script = b"".join(bytes(f["bytes"]) for f in frames)

    def terminal():
        try:
            c, _ = srv.accept()
        except Exception as e:          # the tool never connected
            note[0] = "no-connection:%s" % type(e).__name__
            return
        c.settimeout(20)
        try:
            c.sendall(script)
            c.shutdown(socket.SHUT_WR)
            while True:
                b = c.recv(65536)
                if not b:
                    break
                got.extend(b)
        except (ConnectionResetError, BrokenPipeError, OSError) as e:
            if isinstance(e, socket.timeout):
                note[0] = "terminal-timeout"
            # otherwise: the tool exited with unread data or before the script was out - what it wrote is taken from strace
        finally:
            c.close()
    t = threading.Thread(target=terminal)
    t.start()
    # what the tool writes is taken where it writes it - at the system call (strace), not at the far end of the connection: a process
    # that exits with unread data in its socket resets the connection, and what it had written last may never arrive
    st = os.path.join(wd, "strace%d.out" % k)
    args = (["strace", "-f", "-e", "trace=connect,sendto,write,writev", "-xx", "-s", "300000", "-o", st] if STRACE_OK[0] else []) + argv(port)
    try:
        p = subprocess.run(args, stdout=subprocess.PIPE, stderr=subprocess.PIPE, timeout=30)
        rc, out, err = p.returncode, p.stdout.decode("utf-8", "replace"), p.stderr.decode("utf-8", "replace")
    except subprocess.TimeoutExpired as e:
        rc, out, err = -1, (e.stdout or b"").decode("utf-8", "replace"), ""
        note[0] = "hang"
    t.join(25)
    srv.close()
    written = syscall_writes(st, port) if STRACE_OK[0] else None
    if written is None:
        # no system call trace (tracing not permitted here, or unreadable): what arrived at the far end is the next best observation;
        # frames the tool wrote last may be missing from it (see above) - that shows as model drift, never as a violation
        FALLBACKS[0] += 1
        written = bytes(got)
    try:
        os.remove(st)
    except OSError:
        pass
    wire, tail = split_frames(written)
    if tail and not note[0]:
        note[0] = "partial-frame-written"
    if rc < 0 and not note[0]:
        note[0] = "signal%d" % -rc
    return rc, out, err, wire, note[0]


def run_case(tool, case, wd, k):
    d = os.path.join(wd, "run%d" % k)
    shutil.rmtree(d, ignore_errors=True)
    files = []
    spec = spec_content(case["desired"])
    todo = dict(FILES)
    todo["app1/update.spec"] = (34, spec)
    for path, (fid, content) in sorted(todo.items()):
        p = os.path.join(d, path)
        os.makedirs(os.path.dirname(p), exist_ok=True)
        open(p, "wb").write(content)
        files.append({"id": fid, "path": path, "size": len(content), "content": list(content)})
    open(os.path.join(d, "README.txt"), "wb").write(b"not a recognised file")
    for nm in NEAR_MISSES:
        os.makedirs(os.path.dirname(os.path.join(d, nm)), exist_ok=True)
        open(os.path.join(d, nm), "wb").write(b"near miss " + nm.encode())
    rc, out, err, wire, note = run_process(
        lambda port: [tool, "--ip-address", "127.0.0.1:%d" % port, "--password", "123456"] + (["--force"] if case["force"] else []) + [d],
        case["frames"], wd, k)
    shutil.rmtree(d, ignore_errors=True)
    items, skip, finished = parse_stdout(out)
    n_stages = max([s for s in items if items[s]] + [len([w for w in wire if tuple(w[:2]) in ((6, 0), (15, 161), (6, 80), (8, 20))])])
    rec = {"force": case["force"], "desired": case["desired"], "frames": case["frames"], "files": files, "block": 32768, "announce": [],
           "wire": wire, "items": [items[s] for s in range(1, n_stages + 1)], "exit": rc, "skipline": skip, "finished": finished,
           "note": note, "panic": ("panicked" in err)}
    return rec


def replay(tool, cases, wd, workers=12):
    idx = list(range(len(cases)))
    return vlib.parallel(lambda k: run_case(tool, cases[k], wd, k), idx, workers)


def judge(chk, recs, wd, label, shard=2500):
    lines = [json.dumps(r) for r in recs]
    shards = []
    for k in range(0, len(lines), shard):
        p = os.path.join(wd, "%s.t%d.ndjson" % (label, k // shard))
        open(p, "w").write("\n".join(lines[k:k + shard]) + "\n")
        shards.append((k, p))

    def one(s):
        k, p = s
        return k, p, vlib.tlc("cli/TraceTool.tla", workers=2, xmx="6g", env={"TOOL_TRACE": p}, tag="%s%d" % (label, k), timeout=3000)
    out = []
    for k, p, r in vlib.parallel(one, shards, 6):
        if not r.ok:
            raise vlib.ToolError("TraceTool failed on %s:\n%s" % (p, (r.error_text or r.out)[-2500:]))
        chk.cov["states"] += r.distinct
        chk.cov["transitions"] += r.generated
        for m in FLAG_RE.finditer(r.out):
            out.append((recs[k + int(m.group(1)) - 1], set(json.loads(json.loads(m.group(2))))))
        os.remove(p)
    return out


def brief(rec):
    return {"force": rec["force"], "desired": bytes(rec["desired"][0]).decode() if rec["desired"] else None,
            "script": [cc.hexs(f["bytes"]) + (" (truncated)" if f["trunc"] else "") for f in rec["frames"]][:16],
            "wrote": [cc.hexs(w[:12]) for w in rec["wire"]][:24], "items": rec["items"], "exit": rec["exit"], "note": rec["note"]}


def random_cases(cases, seed, n):
    """Scripts the menus do not contain: menu cases with one frame dropped, doubled or swapped with its neighbour."""
    rnd = random.Random(seed)
    out = []
    pool = [c for c in cases if len(c["frames"]) >= 4]
    for _ in range(n):
        c = rnd.choice(pool)
        fr = list(c["frames"])
        k = rnd.randrange(len(fr))
        op = rnd.choice(["drop", "double", "swap"])
        if fr[k]["trunc"] or (k + 1 < len(fr) and fr[k + 1]["trunc"]):
            continue
        if op == "drop":
            del fr[k]
        elif op == "double":
            fr.insert(k, fr[k])
        elif k + 1 < len(fr):
            fr[k], fr[k + 1] = fr[k + 1], fr[k]
        out.append({"force": rnd.random() < 0.5, "desired": c["desired"], "frames": fr})
    return out


def run(chk, pid, thorough):
    """The tool layer as run by the check of property `pid` (C05, C06 or C11): flags of that property's family are violations, the rest
    is model drift."""
    wd = vlib.workdir(pid + "-tool")
    chk.cov["writes_taken_at_system_call"] = bool(strace_usable())
    cases = model_cases(chk, 3 if thorough else 2)
    tool = build_tool()
    rnd = random.Random(chk.seed + 55)
    if not thorough:
        # every flat script, and a sample of the menu product that contains every menu entry of every stage
        menu = [c for c in cases if len(c["frames"]) > 3]
        flat = [c for c in cases if len(c["frames"]) <= 3]
        rnd.shuffle(menu)
        cases = flat[::3] + menu[:700]
    cases = cases + random_cases(cases, chk.seed + 56, 1500 if thorough else 150)
    recs = replay(tool, cases, wd)
    flagged = judge(chk, recs, wd, "tool")
    chk.cov["tool_runs_over_tcp"] = len(recs)
    chk.cov["impl_traces"] = chk.cov.get("impl_traces", 0) + len(recs)
    # only what the listed property states is a violation of it; the tool's own rules (PT-*) and deviations from RunTool are model drift
    for rec, flags in flagged:
        bad = sorted(f for f in flags if f.startswith("P11") or (f.startswith("abnormal") and STRACE_OK[0])) if pid == "C11" else []
        if bad:
            chk.violation("tool:%s" % bad[0], "update tool over TCP: %s" % "; ".join(WHAT.get(f, f) for f in bad), brief(rec))
        else:
            chk.drift("L5-tool", "feig_update: %s" % "; ".join(WHAT.get(f, "deviates from FeigUpdate!RunTool in " + f) for f in sorted(flags)), brief(rec))
    shutil.rmtree(wd, ignore_errors=True)
    return len(recs)


# ---------------------------------------------------------------------------------------------- zvt_cli (thirteen subcommands)
def digits(n):
    return [int(c) for c in str(n)] if n else []


def text(sx):
    return list(sx.encode("cp437"))


CLI_ARGS = {   # subcommand -> list of (command line options, the options as the specification sees them)
    "status": [([], {})],
    "factory_reset": [([], {})],
    "registration": [([], {"currency_code": digits(978), "config_byte": digits(222)}),
                     (["--currency-code", "826", "--config-byte", "0"], {"currency_code": digits(826), "config_byte": digits(0)})],
    "set_terminal_id": [(["--terminal-id", "52500041"], {"terminal_id": digits(52500041)}), (["--terminal-id", "7"], {"terminal_id": digits(7)})],
    "init": [([], {})],
    "diagnosis": [(["line"], {"diagnosis": digits(1)}), (["ep2_configuration"], {"diagnosis": digits(5)}), (["3"], {"diagnosis": digits(3)})],
    "print_system_diagnosis": [([], {})],
    "end_of_day": [([], {})],
    "read_card": [([], {"timeout": digits(15), "card_type": digits(16), "short_card_reading_control": digits(208), "dialog_control": digits(2),
                        "allowed_cards": digits(7)}),
                  (["--timeout", "0", "--card-type", "255", "--short-card-reading-control", "0", "--dialog-control", "128", "--allowed-cards", "1"],
                   {"timeout": digits(0), "card_type": digits(255), "short_card_reading_control": digits(0), "dialog_control": digits(128),
                    "allowed_cards": digits(1)})],
    "authorization": [([], {"currency_code": digits(978), "amount": digits(5), "payment_type": digits(64), "track_2_data": [], "bmp_prefix": [],
                            "bmp_data": []}),
                      (["--amount", "999999999999", "--currency-code", "0", "--payment-type", "255", "--track-2-data", "67d123", "--bmp-prefix", "AC",
                        "--bmp-data", "ref-1"],
                       {"currency_code": digits(0), "amount": digits(999999999999), "payment_type": digits(255), "track_2_data": [[0x67, 0xd1, 0x23]],
                        "bmp_prefix": [text("AC")], "bmp_data": [text("ref-1")]})],
    "reservation": [([], {"currency_code": digits(978), "amount": digits(5), "payment_type": digits(64), "track_2_data": [], "bmp_prefix": [],
                          "bmp_data": []}),
                    (["--amount", "2500", "--bmp-prefix", "AC", "--bmp-data", "t"],
                     {"currency_code": digits(978), "amount": digits(2500), "payment_type": digits(64), "track_2_data": [], "bmp_prefix": [text("AC")],
                      "bmp_data": [text("t")]})],
    "partial_reversal": [(["--receipt", "4711"], {"receipt": digits(4711), "currency_code": digits(978), "amount": digits(5), "payment_type": digits(64),
                                                   "bmp_prefix": [], "bmp_data": []}),
                         (["--receipt", "65535", "--amount", "0"], {"receipt": digits(65535), "currency_code": digits(978), "amount": digits(0),
                                                                    "payment_type": digits(64), "bmp_prefix": [], "bmp_data": []})],
    "change_host_config": [(["--ip", "10.0.0.254"], {"ip": digits(10 * 2 ** 24 + 254), "port": digits(30401), "configuration_byte": digits(1)}),
                           (["--ip", "255.255.255.255", "--port", "0", "--configuration-byte", "255"],
                            {"ip": digits(2 ** 32 - 1), "port": digits(0), "configuration_byte": digits(255)})],
}
CLI_WHAT = {"P05-foreign-write": "the tool wrote something that is neither its command nor an acknowledgement",
            "P06-answered-beyond-failure": "more acknowledgements were written than the script holds interpretable replies up to the first final one",
            "P05-reply-not-answered": "the tool reported success although a reply up to the final one was not acknowledged"}
ALL_KEYS = sorted({k for v in CLI_ARGS.values() for _, a in v for k in a} | {"password"})


def cli_model_cases(chk, depth):
    r = vlib.tlc("cli/MC_ZvtCli.tla", workers=8, xmx="12g", env={"CLI_EMIT": "1", "CLI_DEPTH": depth}, timeout=3000)
    vlib.tlc_must_pass(r, "MC_ZvtCli")
    if r.violated:
        raise vlib.ToolError("the specification of zvt_cli violates %s:\n%s" % (r.violated, r.out[-1500:]))
    chk.add_tlc("MC_ZvtCli: 13 subcommands x every terminal script up to %d frames over the alphabet of the command (+ card data for read_card); a "
                "handler bails only on the last item, success only at a final reply, C05/C06" % depth, r)
    return cc.parse_cases(r.out)


def run_cli_case(tool, case, wd, k):
    opts, spec_args = CLI_ARGS[case["sub"]][k % len(CLI_ARGS[case["sub"]])]
    rc, out, err, wire, note = run_process(
        lambda port: [tool, "--ip", "127.0.0.1:%d" % port, "--password", "123456", case["sub"]] + opts, case["frames"], wd, k)
    args = {key: [] for key in ALL_KEYS}
    args.update(spec_args)
    args["password"] = digits(123456)
    return {"sub": case["sub"], "args": args, "opts": opts, "frames": case["frames"], "wire": wire, "exit": rc, "note": note}


def run_cli(chk, pid, thorough):
    """zvt_cli over TCP as run by the check of C05 / C06: the P05 / P06 flags are violations of that property, the rest is model drift."""
    wd = vlib.workdir(pid + "-cli")
    chk.cov["writes_taken_at_system_call"] = bool(strace_usable())
    cases = cli_model_cases(chk, 3)
    tool = os.path.join(os.path.dirname(build_tool()), "zvt_cli")
    rnd = random.Random(chk.seed + 77)
    # quick: a sample, stratified by subcommand and by how far the script lets the exchange get (nothing acknowledged / acknowledged and
    # a first reply answered / two replies answered), so that the long exchanges are not drowned by the scripts that fail at once
    budget = 12000 if thorough else 1800
    groups = {}
    for c in cases:
        groups.setdefault((c["sub"], min(len(c["writes"]), 3)), []).append(c)
    per = max(1, budget // len(groups))
    picked = []
    for key in sorted(groups):
        g = groups[key]
        rnd.shuffle(g)
        picked += g[:per]
    cases = picked
    recs = vlib.parallel(lambda k: run_cli_case(tool, cases[k], wd, k), list(range(len(cases))), 12)
    lines = [json.dumps(r) for r in recs]
    shards = []
    for k in range(0, len(lines), 1500):
        p = os.path.join(wd, "cli.t%d.ndjson" % (k // 1500))
        open(p, "w").write("\n".join(lines[k:k + 1500]) + "\n")
        shards.append((k, p))

    def one(sh):
        k, p = sh
        return k, p, vlib.tlc("cli/TraceCli.tla", workers=2, xmx="6g", env={"CLI_TRACE": p}, tag="cli%d" % k, timeout=3000)
    prefix = "P05" if pid == "C05" else "P06"
    for k, p, r in vlib.parallel(one, shards, 6):
        if not r.ok:
            raise vlib.ToolError("TraceCli failed on %s:\n%s" % (p, (r.error_text or r.out)[-2500:]))
        chk.cov["states"] += r.distinct
        chk.cov["transitions"] += r.generated
        for m in FLAG_RE.finditer(r.out):
            rec = recs[k + int(m.group(1)) - 1]
            flags = set(json.loads(json.loads(m.group(2))))
            b = {"sub": rec["sub"], "opts": rec["opts"], "script": [cc.hexs(f["bytes"]) + (" (truncated)" if f["trunc"] else "") for f in rec["frames"]],
                 "wrote": [cc.hexs(w[:16]) for w in rec["wire"]], "exit": rec["exit"], "note": rec["note"]}
            # (without a system call trace the last frames the tool wrote may be missing from the observation: then nothing is a violation)
            bad = sorted(f for f in flags if f.startswith(prefix) or f.startswith("abnormal")) if STRACE_OK[0] else []
            if bad:
                chk.violation("cli:%s:%s" % (rec["sub"], bad[0]), "zvt_cli %s over TCP: %s" % (rec["sub"], "; ".join(CLI_WHAT.get(f, f) for f in bad)), b)
            else:
                chk.drift("L5-cli", "zvt_cli %s deviates from ZvtCli!RunCli in %s" % (rec["sub"], sorted(flags)), b)
        os.remove(p)
    chk.cov["cli_runs_over_tcp"] = len(recs)
    shutil.rmtree(wd, ignore_errors=True)
    return len(recs)
