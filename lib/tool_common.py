"""L5: the firmware update tool (zvt_cli, bin feig_update) run as a real process against a scripted terminal on a loopback TCP connection.

spec -> impl: MC_FeigUpdate enumerates terminal scripts and options and prints every run of the I-spec (FeigUpdate!RunTool) as a case;
each case is replayed: a payload directory is built, a TCP listener plays the terminal (it queues the whole script on the connection and
half-closes - the end of the script is the end of the connection - and then reads whatever the tool writes until the tool has exited).
impl -> spec: the observation (frames written, item lines printed, exit status) is a record that TLC judges with TraceTool."""
import json
import os
import random
import re
import shutil
import socket
import subprocess
import threading

import vlib
import codec_common as cc

FLAG_RE = re.compile(r'<<"FLAGS", (\d+), ("(?:[^"\\]|\\.)*")>>')
# one target directory per repository location: cargo does not refresh the final binary when two workspaces share one
import hashlib
CLI_TARGET = os.path.join(vlib.HARNESS, "target-cli-" + hashlib.md5(vlib.REPO.encode()).hexdigest()[:8])

FILES = {  # path -> (id, content); app1/update.spec is written per case
    "firmware/kernel.gz": (16, bytes([1, 2, 3, 4, 5])),
    "app1/update.tar.gz": (35, bytes(range(200, 210))),
}
WHAT = {"PT-stage-order": "the tool's commands did not go out in the order registration, system information, end of day, upload",
        "PT-skip-not-silent": "the tool said it skips the update but wrote further commands (or did not exit with 0)",
        "PT-upload-without-handshake": "the upload was started although registration or the system information exchange had failed",
        "PT-finished-without-completion": "the tool reported the update as finished although the terminal did not complete it",
        "P11-manifest": "the announced file list is not exactly the recognised files present with their true sizes",
        "P11-block": "a data block does not echo the requested id and offset with exactly the file's bytes from that offset",
        "P05-stage": "a stage of the tool violates the acknowledgement discipline of its command sequence"}


def build_tool():
    """Build feig_update from REPO's working tree into a target directory outside the repository."""
    cmd = ["cargo", "build", "--offline", "-p", "zvt_cli", "--bin", "feig_update", "--manifest-path", os.path.join(vlib.REPO, "Cargo.toml"),
           "--target-dir", CLI_TARGET]
    e = dict(os.environ, CARGO_NET_OFFLINE="true")
    p = subprocess.run(cmd, stdout=subprocess.PIPE, stderr=subprocess.STDOUT, text=True, env=e)
    if p.returncode != 0:
        raise vlib.ToolError("cannot build feig_update:\n" + p.stdout[-3000:])
    return os.path.join(CLI_TARGET, "debug", "feig_update")


def model_cases(chk, flat):
    r = vlib.tlc("cli/MC_FeigUpdate.tla", workers=8, xmx="8g", env={"TOOL_EMIT": "1", "TOOL_FLAT": flat}, timeout=3000)
    vlib.tlc_must_pass(r, "MC_FeigUpdate")
    if r.violated:
        raise vlib.ToolError("the specification of the update tool violates %s:\n%s" % (r.violated, r.out[-1500:]))
    chk.add_tlc("MC_FeigUpdate: one terminal behaviour per stage (8 x 8 x 9 x 12 menus) x forced x payload version {unreadable, contained, not "
                "contained, empty} + every script up to %d frames over 7 frames; stage order, no upload without handshake, silence after a skip, "
                "success only after completion, C05/C06 per stage, skip exactly when current" % flat, r)
    # control: a tool that uploads whatever the handshake gave violates Handshake
    m = vlib.tlc("cli/MC_FeigUpdate.tla", workers=8, xmx="8g", env={"TOOL_EMIT": "0", "TOOL_FLAT": 1, "TOOL_MUT": "nohandshake"}, timeout=3000)
    if m.violated != "Handshake":
        raise vlib.ToolError("control failed: a tool that ignores a failed system information exchange must violate Handshake, got %s" % m.violated)
    cases = cc.parse_cases(r.out)
    outcome = {}
    for c in cases:
        k = "skipped" if c["skipped"] else ("exit0" if c["exit"] == 0 else "panic-at-stage-%d" % len(c["items"]))
        outcome[k] = outcome.get(k, 0) + 1
    for k in ("skipped", "exit0", "panic-at-stage-1", "panic-at-stage-2", "panic-at-stage-4"):
        if not outcome.get(k):
            raise vlib.ToolError("MC_FeigUpdate is vacuous: no run with outcome %s" % k)
    chk.cov["tool_model_outcomes"] = outcome
    return cases


def spec_content(desired):
    """<<>>: unreadable; <<v>>: names version v (a byte string)."""
    if not desired:
        return b'{"ver": "1"}'
    return json.dumps({"version": bytes(desired[0]).decode("ascii")}).encode()


def split_frames(buf):
    """Split what the tool wrote at APDU boundaries: cc ii len [ff lo hi] body."""
    out, i = [], 0
    while i < len(buf):
        if i + 3 > len(buf):
            return out, list(buf[i:])
        n, h = buf[i + 2], 3
        if n == 0xff:
            if i + 5 > len(buf):
                return out, list(buf[i:])
            n, h = buf[i + 3] | (buf[i + 4] << 8), 5
        if i + h + n > len(buf):
            return out, list(buf[i:])
        out.append(list(buf[i:i + h + n]))
        i += h + n
    return out, []


ST_CONNECT = re.compile(r'^\d+\s+connect\((\d+), \{sa_family=AF_INET, sin_port=htons\((\d+)\)')
ST_WRITE = re.compile(r'^\d+\s+(?:sendto|write)\((\d+), "((?:\\x[0-9a-f]{2})*)"(?:\.\.\.)?, \d+(?:, [^)]*)?\)\s+= (\d+)')


def syscall_writes(path, port):
    """The bytes the process wrote to the socket it connected to `port`, in order (successful writes only, as many bytes as were taken)."""
    fd, out = None, bytearray()
    try:
        for line in open(path, errors="replace"):
            m = ST_CONNECT.match(line)
            if m and int(m.group(2)) == port:
                fd = m.group(1)
                continue
            if fd is None:
                continue
            if "writev(" + fd + "," in line:
                return None            # not expected from this program: say so instead of guessing
            m = ST_WRITE.match(line)
            if m and m.group(1) == fd:
                data = bytes.fromhex(m.group(2).replace("\\x", ""))
                out.extend(data[:int(m.group(3))])
    except OSError:
        return None
    return bytes(out) if fd is not None else None


ITEM_PREFIX = [("Registered to the terminal ", 1), ("The system info returned ", 2), ("The EndOfDay returned ", 3), ("Updating the terminal ", 4)]


def parse_stdout(text):
    items = {1: [], 2: [], 3: [], 4: []}
    skip = finished = False
    for line in text.splitlines():
        if line.startswith("Skipping update"):
            skip = True
        if line.startswith("Finished the update"):
            finished = True
        for pre, st in ITEM_PREFIX:
            if line.startswith(pre):
                rest = line[len(pre):]
                if st == 3:
                    if rest.startswith("Err("):
                        items[3].append("err")
                        break
                    rest = rest[3:] if rest.startswith("Ok(") else rest
                m = re.match(r"([A-Za-z0-9_]+)", rest)
                items[st].append(m.group(1) if m else "?")
                break
    return items, skip, finished


def run_case(tool, case, wd, k):
    d = os.path.join(wd, "run%d" % k)
    shutil.rmtree(d, ignore_errors=True)
    files = []
    spec = spec_content(case["desired"])
    todo = dict(FILES)
    todo["app1/update.spec"] = (34, spec)
    for path, (fid, content) in sorted(todo.items()):
        p = os.path.join(d, path)
        os.makedirs(os.path.dirname(p), exist_ok=True)
        open(p, "wb").write(content)
        files.append({"id": fid, "path": path, "size": len(content), "content": list(content)})
    open(os.path.join(d, "README.txt"), "wb").write(b"not a recognised file")
    srv = socket.socket()
    srv.bind(("127.0.0.1", 0))
    srv.listen(1)
    srv.settimeout(20)
    port = srv.getsockname()[1]
    got = bytearray()
    note = [""]
    script = b"".join(bytes(f["bytes"]) for f in case["frames"])

    def terminal():
        try:
            c, _ = srv.accept()
        except Exception as e:          # the tool never connected
            note[0] = "no-connection:%s" % type(e).__name__
            return
        c.settimeout(20)
        try:
            c.sendall(script)
            c.shutdown(socket.SHUT_WR)
            while True:
                b = c.recv(65536)
                if not b:
                    break
                got.extend(b)
        except (ConnectionResetError, BrokenPipeError):
            pass                         # the tool exited with unread data: what it wrote before is already here
        except socket.timeout:
            note[0] = "terminal-timeout"
        finally:
            c.close()
    t = threading.Thread(target=terminal)
    t.start()
    # what the tool writes is taken where it writes it - at the system call (strace), not at the far end of the connection: a process
    # that exits with unread data in its socket resets the connection, and what it had written last may never arrive
    st = os.path.join(wd, "strace%d.out" % k)
    args = ["strace", "-f", "-e", "trace=connect,sendto,write,writev", "-xx", "-s", "300000", "-o", st,
            tool, "--ip-address", "127.0.0.1:%d" % port, "--password", "123456"] + (["--force"] if case["force"] else []) + [d]
    try:
        p = subprocess.run(args, stdout=subprocess.PIPE, stderr=subprocess.PIPE, timeout=30)
        rc, out, err = p.returncode, p.stdout.decode("utf-8", "replace"), p.stderr.decode("utf-8", "replace")
    except subprocess.TimeoutExpired as e:
        rc, out, err = -1, (e.stdout or b"").decode("utf-8", "replace"), ""
        note[0] = "hang"
    t.join(25)
    srv.close()
    shutil.rmtree(d, ignore_errors=True)
    written = syscall_writes(st, port)
    if written is None:
        note[0] = note[0] or "strace-unreadable"
        written = bytes(got)
    try:
        os.remove(st)
    except OSError:
        pass
    wire, tail = split_frames(written)
    if tail and not note[0]:
        note[0] = "partial-frame-written"
    if rc < 0 and not note[0]:
        note[0] = "signal%d" % -rc
    items, skip, finished = parse_stdout(out)
    n_stages = max([s for s in items if items[s]] + [len([w for w in wire if tuple(w[:2]) in ((6, 0), (15, 161), (6, 80), (8, 20))])])
    rec = {"force": case["force"], "desired": case["desired"], "frames": case["frames"], "files": files, "block": 32768, "announce": [],
           "wire": wire, "items": [items[s] for s in range(1, n_stages + 1)], "exit": rc, "skipline": skip, "finished": finished,
           "note": note[0], "panic": ("panicked" in err)}
    return rec


def replay(tool, cases, wd, workers=12):
    idx = list(range(len(cases)))
    return vlib.parallel(lambda k: run_case(tool, cases[k], wd, k), idx, workers)


def judge(chk, recs, wd, label, shard=2500):
    lines = [json.dumps(r) for r in recs]
    shards = []
    for k in range(0, len(lines), shard):
        p = os.path.join(wd, "%s.t%d.ndjson" % (label, k // shard))
        open(p, "w").write("\n".join(lines[k:k + shard]) + "\n")
        shards.append((k, p))

    def one(s):
        k, p = s
        return k, p, vlib.tlc("cli/TraceTool.tla", workers=2, xmx="6g", env={"TOOL_TRACE": p}, tag="%s%d" % (label, k), timeout=3000)
    out = []
    for k, p, r in vlib.parallel(one, shards, 6):
        if not r.ok:
            raise vlib.ToolError("TraceTool failed on %s:\n%s" % (p, (r.error_text or r.out)[-2500:]))
        chk.cov["states"] += r.distinct
        chk.cov["transitions"] += r.generated
        for m in FLAG_RE.finditer(r.out):
            out.append((recs[k + int(m.group(1)) - 1], set(json.loads(json.loads(m.group(2))))))
        os.remove(p)
    return out


def brief(rec):
    return {"force": rec["force"], "desired": bytes(rec["desired"][0]).decode() if rec["desired"] else None,
            "script": [cc.hexs(f["bytes"]) + (" (truncated)" if f["trunc"] else "") for f in rec["frames"]][:16],
            "wrote": [cc.hexs(w[:12]) for w in rec["wire"]][:24], "items": rec["items"], "exit": rec["exit"], "note": rec["note"]}


def random_cases(cases, seed, n):
    """Scripts the menus do not contain: menu cases with one frame dropped, doubled or swapped with its neighbour."""
    rnd = random.Random(seed)
    out = []
    pool = [c for c in cases if len(c["frames"]) >= 4]
    for _ in range(n):
        c = rnd.choice(pool)
        fr = list(c["frames"])
        k = rnd.randrange(len(fr))
        op = rnd.choice(["drop", "double", "swap"])
        if fr[k]["trunc"] or (k + 1 < len(fr) and fr[k + 1]["trunc"]):
            continue
        if op == "drop":
            del fr[k]
        elif op == "double":
            fr.insert(k, fr[k])
        elif k + 1 < len(fr):
            fr[k], fr[k + 1] = fr[k + 1], fr[k]
        out.append({"force": rnd.random() < 0.5, "desired": c["desired"], "frames": fr})
    return out


def run(chk, pid, thorough):
    """The tool layer as run by the check of property `pid` (C05, C06 or C11): flags of that property's family are violations, the rest
    is model drift."""
    wd = vlib.workdir(pid + "-tool")
    cases = model_cases(chk, 3 if thorough else 2)
    tool = build_tool()
    rnd = random.Random(chk.seed + 55)
    if not thorough:
        # every flat script, and a sample of the menu product that contains every menu entry of every stage
        menu = [c for c in cases if len(c["frames"]) > 3]
        flat = [c for c in cases if len(c["frames"]) <= 3]
        rnd.shuffle(menu)
        cases = flat[::3] + menu[:700]
    cases = cases + random_cases(cases, chk.seed + 56, 1500 if thorough else 150)
    recs = replay(tool, cases, wd)
    flagged = judge(chk, recs, wd, "tool")
    chk.cov["tool_runs_over_tcp"] = len(recs)
    chk.cov["impl_traces"] = chk.cov.get("impl_traces", 0) + len(recs)
    # only what the listed property states is a violation of it; the tool's own rules (PT-*) and deviations from RunTool are model drift
    for rec, flags in flagged:
        bad = sorted(f for f in flags if f.startswith("P11") or f.startswith("abnormal")) if pid == "C11" else []
        if bad:
            chk.violation("tool:%s" % bad[0], "update tool over TCP: %s" % "; ".join(WHAT.get(f, f) for f in bad), brief(rec))
        else:
            chk.drift("L5-tool", "feig_update: %s" % "; ".join(WHAT.get(f, "deviates from FeigUpdate!RunTool in " + f) for f in sorted(flags)), brief(rec))
    shutil.rmtree(wd, ignore_errors=True)
    return len(recs)
