#!/usr/bin/env python3
"""Prints the two tables of DESIGN.md that are derived from files: 13.4 (what each quick check ran, from evidence/*.json) and 13.8
(seeded changes per property and round, from seeded/*/meta.json and seeded/RESULTS.json).  Usage: lib/mktables.py [quick|seeds]"""
import glob
import json
import os
import sys

V = os.path.dirname(os.path.dirname(os.path.abspath(__file__)))


def quick():
    print("| id | TLC states (all model and validation runs) | records / traces of the real code judged | other counters | wall |")
    print("|---|---|---|---|---|")
    for f in sorted(glob.glob(os.path.join(V, "evidence", "C*.json"))):
        e = json.load(open(f))
        c = e["coverage"]
        skip = {"states", "transitions", "traces_validated_against_impl", "evaluations", "samples", "rule", "model_runs", "distinct_nontrivial",
                "measured_time_constants", "tool_model_outcomes"}
        other = ", ".join("%s %s" % (k.replace("_", " "), v) for k, v in sorted(c.items()) if k not in skip and isinstance(v, (int, float)))
        print("| %s | %s | %s | %s | %d s |" % (e["property_id"], "{:,}".format(c.get("states", 0)), "{:,}".format(c.get("traces_validated_against_impl", 0)),
                                             other[:260], round(e.get("wall_s", 0))))


def seeds():
    res = {}
    p = os.path.join(V, "seeded", "RESULTS.json")
    if os.path.exists(p):
        res = json.load(open(p))
    rows = {}
    for f in sorted(glob.glob(os.path.join(V, "seeded", "*", "meta.json"))):
        m = json.load(open(f))
        s = m["seed"] if "seed" in m else os.path.basename(os.path.dirname(f))
        pid = m["breaks_property"]
        rnd = m.get("round") or 1
        first = list(m.get("first_evaluation_with_the_checks_as_they_were", {}).values())
        first_ok = bool(first) and first[0] in ("detected", "VIOLATION")
        if not first:
            first_ok = True          # round 1: the checks were built with these changes at hand
        r = rows.setdefault(pid, {"n": 0, "first": 0, "now": 0, "missed_now": [], "by_round": {}})
        r["n"] += 1
        r["first"] += 1 if first_ok else 0
        b = r["by_round"].setdefault(rnd, [0, 0])
        b[0] += 1
        b[1] += 1 if first_ok else 0
        if s in res:
            if res[s].get("detected"):
                r["now"] += 1
            else:
                r["missed_now"].append(s)
        else:
            r["missed_now"].append(s + "?")
    print("| property | seeded changes | detected when first run (per round: found/written) | detected by the checks as committed | not detected |")
    print("|---|---|---|---|---|")
    tot = [0, 0, 0]
    for pid in sorted(rows):
        r = rows[pid]
        per = " ".join("r%d %d/%d" % (k, v[1], v[0]) for k, v in sorted(r["by_round"].items()))
        print("| %s | %d | %d (%s) | %d | %s |" % (pid, r["n"], r["first"], per, r["now"], ", ".join(r["missed_now"]) or "-"))
        tot[0] += r["n"]
        tot[1] += r["first"]
        tot[2] += r["now"]
    print("| all | %d | %d | %d | |" % tuple(tot))
    un = res.get("_unchanged_tree")
    if un:
        print("\nunchanged tree, same checks: " + ", ".join("%s exit %s" % (k, v) for k, v in sorted(un.items())))


if __name__ == "__main__":
    (seeds if (sys.argv[1:] or ["quick"])[0] == "seeds" else quick)()
