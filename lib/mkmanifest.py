#!/usr/bin/env python3
"""Regenerates /verif/MANIFEST.json from the table below (kept valid at all times)."""
import json
import os
import sys

VERIF = os.path.dirname(os.path.dirname(os.path.abspath(__file__)))
sys.path.insert(0, os.path.join(VERIF, "lib"))

TB = ("SANY/TLC 1.8.0 and the CommunityModules Json/IOUtils modules; rustc/cargo; the harness under /verif/harness "
      "(table writers, Debug parser, instrumented streams, simulated terminal)")

# pid -> (category, technique, text, design_ref, note)
CLAIMED = {
    "C16": ("model_checking",
            "TLA+ spec ZvtLength checked by TLC (every length of every style and every 1-2 byte prefix a state); tables of "
            "the real serialize/deserialize validated row by row by TLC against the spec",
            "Exhaustive on the spec (all lengths 0..65535 / 0..99 / 0..999 / Fixed 1..17, all 1-2 byte prefix strings; all "
            "3-byte strings in thorough) and exhaustive on the code over the same finite tables, with TLC as the judge. "
            "The domain is finite, so exhaustive enumeration is the right level.",
            "DESIGN.md 8 (C16), 5.3", TB),
    "C17": ("model_checking",
            "TLA+ spec ZvtEncoding checked by TLC (u8/u16/all tags exhaustively, boundaries of wide integers, BCD nibble classes as states); "
            "tables of the real encoders/decoders (debug and release build) validated row by row by TLC",
            "Exhaustive where the domain is small (u8, u16, 65,536 tags x 2 encodings, all 0-2 byte inputs of the parsers, 0..9999 receipts), "
            "boundary + seeded random on u32/u64/usize, hex, UTF-8 and the calendar; the reference is independent of the code (decimal "
            "arithmetic in TLA+, CP437 table from Python), debug/release parity is compared file by file.",
            "DESIGN.md 8 (C17), 5.3", TB),
    "C01": ("model_checking",
            "TLA+ reference codec (ZvtLayout + ZvtCodec): TLC enumerates boundary values of all 55 types with reference bytes (Gen_Values), the "
            "real decoder/encoder run on them and on seeded random bodies, TLC validates every record (TraceCodec) incl. canonicity",
            "Bounded-exhaustive over structure (every field x every boundary value x others minimal/typical, every Option absent), sampled over "
            "large value spaces; the oracle (reference codec in TLA+) is independent of the derive attributes.",
            "DESIGN.md 8 (C01), 5", TB),
    "C02": ("model_checking",
            "TLC checks totality of the reference decoder on every (type, small body) state (MC_Decoder); the real decoders and reply parsers "
            "run on enumerated input families under catch_unwind / counting allocator / watchdog in a debug and a release build, with a logger that evaluates log arguments; TLC validates "
            "all anomalies and a sample against the reference (TraceCodec, TraceParse)",
            "Exhaustive for bodies <= 2 bytes on all 55 packet types and behind all control fields for the 17 reply parsers; every truncation and "
            "single-byte substitution of a corpus; seeded structure-aware mutations; debug/release parity by outcome hash over every case.",
            "DESIGN.md 8 (C02)", TB),
    "C15": ("model_checking",
            "reply tables in TLA+ (ZvtReplies / ZvtParse); the real zvt_parse of all 17 reply enums on all 65,536 control fields x 4 bodies, "
            "outcomes compared by TLC (TraceParse sweep mode), table sanity (NoAmbiguity) as TLC assumption",
            "The control-field space is finite and enumerated completely for every reply parser; content equality with the variant type's own "
            "decoder is checked for every accepted packet.",
            "DESIGN.md 8 (C15)", TB),
    "C03": ("model_checking",
            "independent layout table in TLA+ (ZvtLayout.tla) interpreted by the reference codec; byte and field-wise comparison with the real "
            "codec in both directions, judged by TLC (TraceCodec); captured blobs included",
            "Every field of every shipped type is exercised at each boundary value; the table is a separate artefact, so a change made to encoder "
            "and decoder together (tag number, length style, encoding, order, control field) is a mismatch.",
            "DESIGN.md 8 (C03)", TB),
    "C04": ("model_checking",
            "TLA+ reader/writer automaton (ZvtFraming + ZvtTransport) model-checked exhaustively with the short/extended switch at 2 (all "
            "chunkings, all end-of-stream positions); simulated behaviours with the real switch replayed into the real read_packet; event "
            "traces of the real reader over an instrumented source validated by TLC (TraceTransport)",
            "All interleavings of chunk boundaries, Pending and EOF are explored on the model; the code is bound by trace validation of every "
            "poll_read (capacity offered = bytes still needed) and delivery, for every body length 0..65535 in thorough.",
            "DESIGN.md 8 (C04), 6", TB),
    "C05": ("model_checking",
            "TLA+ I-spec of one command exchange (ZvtSequence: step function over a PT script) model-checked for all 18 commands x all scripts "
            "to depth 3 (quick) / 5 (thorough) with P_C05 as invariants; every model behaviour replayed against the real into_stream through a "
            "scripted peer and compared event by event; random 40-frame exchanges and a control-field / NACK-code sweep per command validated by TLC (TraceSequence); "
            "the shipped zvt_cli specified (ZvtCli, MC_ZvtCli) and run per subcommand as a process against a scripted terminal over loopback TCP, "
            "its writes taken at the system call and judged by TLC (TraceCli)",
            "Bounded-exhaustive over reply scripts (every order, repetition, final position, frames queued behind the final packet), the code is "
            "bound in both directions; the P-spec is evaluated on the observed log only when the I-spec rejects it.",
            "DESIGN.md 8 (C05), 6", TB),
    "C06": ("model_checking",
            "same I-spec and runs as C05 with the fault alphabet (NACK, foreign control field, malformed body, truncated frame, EOF) at every "
            "position, P_C06 (one error, then silence, no answer for the failing frame) as invariants and as trace predicates; every 80 xx / 84 xx control field in place of the acknowledgement and every NACK code in place of the first reply, per command; zvt_cli over loopback TCP as in C05 (TraceCli)",
            "Every fault kind at every position of every script up to the depth bound, plus frames the PT might still send afterwards.",
            "DESIGN.md 8 (C06), 6", TB),
    "C07": ("model_checking",
            "TLA+ I-spec of the client (FeigClient: program over command exchanges) against a nondeterministic terminal with a ledger, "
            "model-checked over all call histories (MC_Client) with the P-spec acceptors of ClientProps as invariant (I-spec => TxnMap); every "
            "2-call and sampled 3-call history replayed against the real Feig client through the zvt_verif hook and a simulated terminal; "
            "traces validated by TLC (TraceClient); FeigClient refines the abstract token map TxnMap (TLC, PROPERTY RefinesTxnMap), whose invariants "
            "Apalache discharges inductively (thorough); random reply-script walks over each command's reply set",
            "Bounded-exhaustive over histories (tokens {a,b}, max 0..2, every outcome, dangling yes/no; depth 3 quick, 4 thorough, 3 tokens / max "
            "0..3 in thorough), random walks to depth 40; requests are decoded by the reference codec, so 'acts on exactly that receipt' is "
            "checked on the wire.",
            "DESIGN.md 8 (C07), 7", TB),
    "C08": ("model_checking",
            "same I-spec; TLC generates the amount / currency / receipt / token / status boundary grid (Gen_Client C08) with decimal "
            "arithmetic in TLA+ (Decimal.tla); begin + commit run on the real client; TraceClient compares every request field and the summary; the "
            "pairing of token and receipt number is checked on every release independently of the map; refused-release histories, reply-script walks",
            "The u64 x 10^12 amount domain is covered at every boundary (0, pre-1, pre, pre+1, 2^32, 2^63, u64::MAX, every digit count in thorough) "
            "plus random; small amounts exhaustively inside MC_Client.",
            "DESIGN.md 8 (C08)", TB),
    "C09": ("model_checking",
            "TLA+ packet-level model of the reconnecting stream (ResetStream) with P_C09 invariants; TLC-generated single-fault scenarios "
            "(every operation x exchange x frame x fault kind, handshake faults, foreign serial) and seeded multi-fault walks run on the real "
            "client; TLC runs the P_C09 acceptor over the per-connection log (TraceConn) and validates every trace as a behaviour of ResetStream "
            "with the real constants (TraceStream: attempt budget, throttle law, deadlines, connection ids and virtual timestamps bound to the "
            "model's variables); Apalache discharges the connection discipline as an inductive invariant (thorough)",
            "Single faults exhaustively at every frame position incl. the handshake; multi-fault sequences sampled; each followed by a further "
            "operation to observe reuse.",
            "DESIGN.md 8 (C09), 7", TB),
    "C10": ("model_checking",
            "ResetStream liveness (Returns) under weak fairness and the Bounded invariant checked by TLC; the unguarded variant demonstrates the "
            "repaired defect; stalls at every frame of every exchange and of the handshake x read_card_timeout values run on the real client "
            "(debug and release) on tokio's paused clock under a one-virtual-day watchdog; TLC runs the P_C10 acceptor (TraceConn) and validates "
            "every trace against ResetStream (TraceStream); calls that keep exchanging packets beyond any retry budget count as not returning",
            "Every stall placement is enumerated; time is virtual, so 20 x 60 s budgets are explored exactly; all 256 read_card_timeout values "
            "in thorough.",
            "DESIGN.md 8 (C10), 7", TB),
    "C18": ("model_checking",
            "Classify / CanonUid stated in FeigClient + ClientProps (P18); TLC generates UID / application-list / abort-code scenarios "
            "(Gen_Client C18); read_card runs on the real client; TraceClient compares; random reply-script walks",
            "UID lengths 0..20 x zero-prefix and case patterns x list shapes x leading intermediates, all 256 abort codes, plus random UIDs.",
            "DESIGN.md 8 (C18)", TB),
    "C19": ("model_checking",
            "MC_Client with P19 as invariant over all histories incl. ledgers with a dangling pre-authorisation and every end-of-day outcome; "
            "replayed histories, every end-of-day abort code behind idle-going commits and cancels, random walks; P19 evaluated by TLC over "
            "the terminal's request log of each call; dangling receipt numbers over the field's range, aborts naming a receipt number, "
            "unexpected answers to the pending query, reply-script walks",
            "Bounded-exhaustive over histories; the request chain FFFF-query -> reversal of the reported receipt -> end-of-day is compared "
            "request by request.",
            "DESIGN.md 8 (C19)", TB),
    "C20": ("model_checking",
            "MC_Client (with configure) checks P20 on the I-spec; TLC generates result code x operation x exchange x position scenarios "
            "(Gen_Client C20: intermediate statuses / a status information in front of the abort, aborts naming a receipt number, an abort on the "
            "re-sent request after a connection fault); the real client runs them; TraceClient evaluates P20 - also after connection churn, on "
            "the replies the client consumed and acknowledged - with the specification's own message table; reply-script walks",
            "All 256 codes x every exchange of every operation in thorough (every 16th + the named codes in quick).",
            "DESIGN.md 8 (C20)", TB),
    "C11": ("model_checking",
            "TLA+ spec of the upload (WriteFile.tla: path/id table, Slice; ZvtSequence step function with data requests) model-checked "
            "(MC_Upload, MC_Sequence for WriteFile); real uploads from seeded random directories on disk recorded and validated by TLC "
            "(TraceUpload: announcement and every data block decoded with the reference codec); the shipped update tool (zvt_cli feig_update) "
            "specified as FeigUpdate!RunTool, model-checked (MC_FeigUpdate) and run as a process against a scripted terminal over loopback TCP, "
            "its writes taken at the system call and judged by TLC (TraceTool)",
            "The exchange is explored exhaustively to the script depth bound; the data path is bound by trace validation over random "
            "directories, block sizes and request scripts including every refusal class of the property.",
            "DESIGN.md 8 (C11)", TB),
    "C12": ("model_checking",
            "TLA+ grammar of the derive attributes (DeriveGrammar: behaviours = struct definitions, well-formedness as action guards) "
            "enumerated by TLC for all definitions with <= 2 fields and simulated up to 6; a class-stratified seeded sample (thorough: one definition per pair of field classes) is generated as Rust source, compiled "
            "with the working tree's macro, and as a layout table for the reference codec; values, permutations, duplicates, foreign tags and "
            "suffixes from the same generators as C01/C13/C14 run on the derived code; TLC judges (TraceCodec over the generated layout)",
            "programs are enumerated exhaustively at 2 fields (pairwise interaction of all field variants) and sampled for compilation "
            "(~440 structs quick, ~9,000 thorough); the oracle interprets the generator's own description, never the macro's output.",
            "DESIGN.md 8 (C12)", TB),
    "C13": ("model_checking",
            "TLC re-assembles reference-encoded tagged groups (Gen_C13: permutations, duplicates, removals, foreign tags) with the outcome the "
            "property demands; the real decoder runs on every case; TLC judges (TraceCodec P13 flags)",
            "Exhaustive over permutations of windows of up to 4 (quick) / 6 (thorough) present tagged fields of every shipped type and over every "
            "duplicate / removal / foreign-splice position; random field orders beyond.",
            "DESIGN.md 8 (C13)", TB),
    "C14": ("model_checking",
            "TLC generates canonical packets with suffixes and nested containers with inserted bytes (Gen_C13, C14 mode); the real decoder runs on "
            "each; TLC judges value equality and the exact remainder (TraceCodec P14 flags); the same law on a connection: packets waiting "
            "behind a packet come back exactly as written from the real read_packet",
            "All 256 single-byte suffixes plus longer ones for three base values of every command type, 5 suffixes on a sample of all boundary "
            "values, every tagged nested container with bytes inserted behind it.",
            "DESIGN.md 8 (C14)", TB),
}

PENDING = {}


def main():
    props = [json.loads(l) for l in open(os.path.join(VERIF, "properties.jsonl"))]
    checks = []
    na = []
    for p in props:
        pid = p["id"]
        if pid in CLAIMED:
            cat, tech, text, ref, note = CLAIMED[pid]
            checks.append({
                "property_id": pid,
                "quick_cmd": "./check %s --tier quick" % pid,
                "thorough_cmd": "./check %s --tier thorough" % pid,
                "evidence_file": "/verif/evidence/%s.json" % pid,
                "replay_cmd_template": "./check %s --replay {path}" % pid,
                "engine": "tlc+zvth",
                "level_claimed": {"category": cat, "text": text, "design_ref": ref},
                "level_note": note,
                "technique": tech,
            })
        else:
            na.append({"property_id": pid, "reason": PENDING.get(pid, "check not built yet in this round (planned: TLA+ model + conformance, see DESIGN.md section 8); nothing is claimed for it")})
    m = {
        "version": 1,
        "setup_cmd": "./setup.sh",
        "hooks": {
            "guard": "zvt_verif",
            "enable": "cargo feature `zvt_verif` of crate zvt_feig_terminal (the harness depends on it with features = [\"zvt_verif\"])",
            "baseline_off_cmd": "cd /repo && cargo test --workspace --no-fail-fast --offline",
            "source_commits": ["54f33c7"],
            "add_only": True,
        },
        "engines": [
            {"name": "tlc+zvth", "path": "/verif/check", "serves_properties": sorted(CLAIMED),
             "kind_free_text": "explicit TLA+ specification under /verif/spec checked by TLC; Rust conformance harness /verif/harness "
                               "(replays TLC-generated cases into the real code, records traces of the real code for TLC to validate); the shipped binaries "
                               "feig_update and zvt_cli run as processes against a scripted terminal over loopback TCP (C05, C06, C11); "
                               "Apalache discharges two inductive invariants in the thorough tier (C07, C09)"},
        ],
        "checks": checks,
        "not_applicable": na,
        "notes": "See DESIGN.md. Exit codes: 0 held (KNOWN-FINDING / MODEL-DRIFT lines are informational), 1 VIOLATION, 2 tool error.",
    }
    open(os.path.join(VERIF, "MANIFEST.json"), "w").write(json.dumps(m, indent=1) + "\n")
    try:
        import jsonschema
        jsonschema.validate(m, json.load(open("/root/.vp/MANIFEST.schema.json")))
        print("MANIFEST.json valid; claimed:", sorted(CLAIMED))
    except ImportError:
        print("MANIFEST.json written (jsonschema not available to validate)")


if __name__ == "__main__":
    main()
