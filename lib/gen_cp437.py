#!/usr/bin/env python3
"""Prints the CP437 -> Unicode table used in spec/common/CP437.tla (from Python's codec)."""
print([ord(bytes([i]).decode("cp437")) for i in range(256)])
