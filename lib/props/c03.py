"""C03 - shipped packets use the wire layout the ZVT/Feig specification assigns."""
import vlib
import codec_common as cc


def run(chk):
    wd = vlib.workdir("C03")
    binary = vlib.harness_build()
    cases = cc.gen_values(chk, big=(chk.tier == "thorough"), workers=vlib.NCPU if chk.tier == "thorough" else 8)
    cases += cc.blob_cases()
    rec = cc.run_cases(binary, cases, wd, "layout")
    flagged, n = cc.judge(chk, rec, wd, "layout")
    types = sorted(set(c["ty"] for c in cases))
    ncanon = sum(1 for c in cases if c["cls"] == "canon")
    chk.cov["traces_validated_against_impl"] = n
    chk.cov["evaluations"] = n
    chk.cov["programs"] = len(types)
    chk.cov["disagreements_checked"] = n
    chk.cov["distinct_nontrivial"] = ncanon
    chk.cov["rule"] = ("TLC enumerates, for each of the %d types of the layout table, every field x every boundary value of the field "
                       "(others minimal / others typical) with the reference bytes; the real decoder and encoder run on each; TLC compares "
                       "decoded value (field by field, by name), remainder and re-encoded bytes with the reference. distinct_nontrivial = "
                       "generated values that are canonical (fixed points of the reference codec); the rest are counted as gen-noncanon "
                       "and only checked for totality and agreement of the decoder" % len(types))
    chk.cov["exhaustive"] = False
    chk.sample({"ty": cases[5000 % len(cases)]["ty"], "bytes": cc.hexs(cases[5000 % len(cases)]["in"])})
    chk.sample({"ty": cases[-1]["ty"], "src": cases[-1].get("src"), "bytes": cc.hexs(cases[-1]["in"])})
    noncanon = 0
    for rec_, flags in flagged:
        cls = rec_.get("cls")
        if "total" in flags:
            chk.violation("%s:decode:%s" % (rec_["ty"], rec_["st"]),
                          "%s: real decoder %s on %s" % (rec_["ty"], rec_["st"], cc.hexs(rec_["in"])), cc.short(rec_))
            continue
        if flags & {"noncanon"}:
            noncanon += 1
        bad = flags & {"value", "reenc", "ref-ok-impl-err", "ref-err-impl-ok"}
        if cls in ("canon", "blob") and bad:
            for f in sorted(bad):
                what = {"value": "decoded fields differ from the layout table's reading",
                        "reenc": "re-encoded bytes differ from the layout table's bytes",
                        "ref-ok-impl-err": "real decoder rejects bytes the layout table accepts",
                        "ref-err-impl-ok": "real decoder accepts bytes the layout table rejects"}[f]
                chk.violation("%s:%s" % (rec_["ty"], f), "%s (%s): %s; input %s" % (rec_["ty"], cls, what, cc.hexs(rec_["in"])),
                              cc.short(rec_))
        elif bad or flags & {"kind", "tags"}:
            chk.drift("L1-codec", "%s %s" % (rec_["ty"], sorted(flags)), cc.short(rec_, 24))
    chk.cov["noncanonical_values_seen"] = noncanon
    chk.assumptions += ["the layout table spec/codec/ZvtLayout.tla is a hand-written restatement (DESIGN.md C03), checked against the captured blobs",
                        "harness Debug parser; TLC Json module", "usize is 64 bit"]
