"""C15 - replies are dispatched solely by their class and instruction bytes."""
import json
import os
import re

import vlib
import codec_common as cc


def run(chk):
    wd = vlib.workdir("C15")
    binary = vlib.harness_build()
    layout = cc.export_layout(wd)
    out = os.path.join(wd, "sweep.ndjson")
    seeds = [chk.seed] if chk.tier == "quick" else [chk.seed, chk.seed + 1, chk.seed + 2, chk.seed + 3]
    total_calls = 0
    noted = 0
    for k, sd in enumerate(seeds):
        vlib.harness_run(binary, ["parse-sweep", layout, sd, out])
        r = vlib.tlc("sequence/TraceParse.tla", workers=4, env={"PARSE_TRACE": out, "PARSE_MODE": "sweep"})
        vlib.tlc_must_pass(r, "TraceParse")
        chk.add_tlc("TraceParse(sweep seed %d): one state per reply parser; table sanity NoAmbiguity as ASSUME" % sd, r)
        lines = vlib.read_ndjson(out)
        for l in lines:
            total_calls += l["calls"] + len(l["short"])
            noted += len(l["noted"])
        if k == 0:
            chk.sample({"enum": lines[2]["enum"], "accepted_control_fields": lines[2]["noted_cfs"], "calls": lines[2]["calls"],
                        "first_noted": {x: lines[2]["noted"][0][x] for x in ("cf", "body", "st", "variant", "kind")}})
        for m in re.finditer(r'^<<"SWEEPFLAGS", (\d+), (".*")>>$', r.out, re.M):
            l = lines[int(m.group(1)) - 1]
            flags = json.loads(m.group(2))
            e = l["enum"]
            if "accepted-set" in flags:
                chk.violation("%s:accepted-set" % e, "%s accepts control fields %s (table: see spec/sequence/ZvtReplies.tla)" % (e, l["noted_cfs"]),
                              {"enum": e, "noted_cfs": l["noted_cfs"], "flags": flags})
            if "outside-count" in flags:
                chk.violation("%s:outside" % e, "%s: not every control field outside the reply set is rejected as WrongTag" % e,
                              {"enum": e, "wrongtag0": l["wrongtag0"], "calls": l["calls"], "flags": flags})
            for cm in re.finditer(r'\["call",(\d+),\[(.*?)\]\]', flags):
                o = l["noted"][int(cm.group(1)) - 1]
                fl = cm.group(2)
                if "variant" in fl or "content" in fl or "total" in fl or "impl-ok" in fl:
                    chk.violation("%s:%s" % (e, fl.replace('"', "")),
                                  "%s on %s: variant=%s st=%s (%s)" % (e, cc.hexs(o["in"]), o["variant"], o["st"], fl), {"enum": e, "call": o})
                else:
                    chk.drift("L3-parse", "%s %s" % (e, fl), {"enum": e, "in": o["in"], "st": o["st"], "kind": o["kind"]})
            if '"short"' in flags:
                chk.violation("%s:short" % e, "%s: an input shorter than two bytes is not an error" % e, {"enum": e, "flags": flags})
    # the same dispatch when something follows the packet on the wire: a packet outside the reply set (an acknowledgement 80 xx, a
    # negative one 84 xx, a few others - with an empty body) followed by a valid reply of the enum is still outside the reply set;
    # a valid reply followed by another valid reply is still the first one.  Judged record by record by TLC (TraceParse, run mode).
    import seq_common
    _, rp = seq_common.export_tables(wd)
    rep = json.load(open(rp))
    src = open(os.path.join(vlib.SPEC, "codec", "ZvtLayout.tla")).read()
    cmdtab = {n: (int(a), int(b)) for n, a, b in re.findall(r"(\w+) \|-> <<(\d+), (\d+)>>", re.search(r"Command == \[(.*?)\]\n", src, re.S).group(1))}
    typ = {}
    for c in cc.gen_values(chk, big=False):
        if c["ty"] in cmdtab and c.get("cls") == "canon" and c.get("vi") == 2:
            typ.setdefault(c["ty"], c["in"])
    foreign = [[a, b, 0] for a in (0x80, 0x84) for b in range(256)] + [[0x04, 0x0d, 0], [0x05, 0x01, 0], [0x06, 0x00, 0], [0xff, 0xff, 0]]
    pcases = []
    for enum, variants in sorted(rep["replies"].items()):
        own = [typ[v["ty"]] for v in variants if v["ty"] in typ]
        cfs = {cmdtab[v["ty"]] for v in variants if v["ty"] in cmdtab}
        if not own:
            continue
        for f in foreign:
            if (f[0], f[1]) not in cfs:
                pcases.append({"enum": enum, "in": f + own[0], "what": "foreign+reply"})
        for a in own:
            for b in own:
                pcases.append({"enum": enum, "in": a + b, "what": "reply+reply"})
    pin, pout = os.path.join(wd, "follow.cases.ndjson"), os.path.join(wd, "follow.out.ndjson")
    vlib.write_ndjson(pin, pcases)
    vlib.harness_run(binary, ["parse-run", pin, pout])
    precs = vlib.read_ndjson(pout)
    plines = open(pout).read().splitlines()
    shards = [(k, plines[k:k + 2500]) for k in range(0, len(plines), 2500)]

    def pjudge(sh):
        k, ls = sh
        sp = os.path.join(wd, "follow.s%d.ndjson" % k)
        open(sp, "w").write("\n".join(ls) + "\n")
        return k, vlib.tlc("sequence/TraceParse.tla", workers=1, env={"PARSE_TRACE": sp, "PARSE_MODE": "run"}, xmx="3g", tag="c15f%d" % k)
    for k, r in vlib.parallel(pjudge, shards, 8):
        vlib.tlc_must_pass(r, "TraceParse (followed)")
        chk.cov["states"] += r.distinct
        chk.cov["transitions"] += r.generated
        for m in re.finditer(r'^<<"FLAGS", (\d+), (".*")>>$', r.out, re.M):
            rec = precs[k + int(m.group(1)) - 1]
            flags = set(json.loads(json.loads(m.group(2))))
            if flags & {"variant", "content", "ref-err-impl-ok", "total"}:
                chk.violation("%s:followed:%s" % (rec["enum"], sorted(flags)[0]), "%s on %s (%s): variant=%s st=%s (%s)" % (
                    rec["enum"], cc.hexs(rec["in"]), rec["what"], rec["variant"], rec["st"], sorted(flags)), {k2: v for k2, v in rec.items() if k2 != "val"})
            elif flags:
                chk.drift("L3-parse", "%s followed %s" % (rec["enum"], sorted(flags)), {"in": rec["in"], "st": rec["st"], "kind": rec["kind"]})
    total_calls += len(pcases)
    # ... and when a reply arrives in pieces - the class byte alone, class and instruction, the header, then the rest: the transport
    # hands the parsers the packet that was sent (same control field, same bytes), however it was cut
    behs = []
    for a in (0, 1, 2, 5, 37, 254, 255, 300):
        for piece in (1, 2, 3, 4):
            behs.append({"lens": [a, 1, a], "cut": 10 ** 9, "reads": [[0, piece]] * ((2 * a + 30) // piece + 12)})
    bpath, opath = os.path.join(wd, "pieces.ndjson"), os.path.join(wd, "pieces.out.ndjson")
    vlib.write_ndjson(bpath, behs)
    vlib.harness_run(binary, ["transport-replay", bpath, opath])
    for b, o in zip(behs, vlib.read_ndjson(opath)):
        if o["panic"] or o["delivered"] != b["lens"] or not o["same"]:
            chk.violation("pieces:%s" % ("panic" if o["panic"] else "dispatch"),
                          "packets with bodies of %s bytes arriving %d byte(s) at a time were read as %s%s: what reaches the reply parsers is not the "
                          "packet that was sent" % (b["lens"], b["reads"][0][1], o["delivered"], "" if o["same"] else " with different content"),
                          {"behaviour": {"lens": b["lens"], "piece": b["reads"][0][1]}, "observed": {k2: o[k2] for k2 in ("delivered", "same", "panic")}})
    total_calls += len(behs)
    chk.cov["replies_in_pieces"] = len(behs)
    chk.cov["followed_cases"] = len(pcases)
    chk.cov["traces_validated_against_impl"] = total_calls
    chk.cov["evaluations"] = total_calls
    chk.cov["distinct_nontrivial"] = noted
    chk.cov["exhaustive"] = True
    chk.cov["rule"] = ("17 reply parsers x all 65,536 (class, instruction) pairs x bodies {empty, valid for the packet type owning the control "
                       "field, valid for another type, random} + the 257 inputs shorter than two bytes; outcomes other than WrongTag(0) are "
                       "recorded in full and compared by TLC with ZvtReplies/ZvtParse (variant, content = the variant type's own decode), the "
                       "rest are counted and the count compared; distinct_nontrivial = the fully recorded calls")
    chk.assumptions += ["reply tables spec/sequence/ZvtReplies.tla are a hand-written restatement", "harness Debug parser"]
