"""C16 - every length-prefix style is an exact, shortest-form bijection on its range."""
import json
import os
import re

import vlib

GRID_Q = "0,1,127,128,129,130,240,249,255"
GRID_T = "0,1,2,9,10,99,100,126,127,128,129,130,131,239,240,241,249,250,254,255"


def run(chk):
    wd = vlib.workdir("C16")
    # 1. the algebra of the format on the specification itself (cases are states)
    r = vlib.tlc("codec/MC_Length.tla", workers=vlib.NCPU if chk.tier == "thorough" else 8)
    vlib.tlc_must_pass(r, "MC_Length")
    chk.add_tlc("MC_Length: all lengths of Llv/Lllv/Tlv/Adpu/Fixed1..17 + all 1-2 byte prefixes", r)
    if r.violated:
        raise vlib.ToolError("the length specification itself violates %s" % r.violated)
    # 2. impl -> spec: tables recorded from the real code, judged by TLC
    binary = vlib.harness_build()
    ser, de = os.path.join(wd, "len_ser.json"), os.path.join(wd, "len_de.json")
    vlib.harness_run(binary, ["len-ser", ser])
    vlib.harness_run(binary, ["len-de", de, GRID_T if chk.tier == "thorough" else GRID_Q])
    r = vlib.tlc("codec/TraceLength.tla", workers=8, env={"LEN_SER": ser, "LEN_DE": de}, xmx="8g")
    vlib.tlc_must_pass(r, "TraceLength")
    chk.add_tlc("TraceLength: judged rows of the real serialize/deserialize tables", r)
    rows_ser = json.load(open(ser))["rows"]
    rows_de = json.load(open(de))["rows"]
    n_rows = len(rows_ser) + len(rows_de)
    chk.cov["traces_validated_against_impl"] = n_rows
    chk.cov["evaluations"] = n_rows
    chk.cov["distinct_nontrivial"] = n_rows - sum(1 for x in rows_ser if x[0] == "Empty")
    chk.cov["rule"] = ("one row per (style, length) of the real serialize for every representable length, and per "
                       "(style, input) of the real deserialize for every 0-2 byte string, a 3-byte grid and "
                       "prefix+trailing data; non-trivial = all but the constant Empty serialiser rows")
    chk.cov["exhaustive"] = True
    chk.sample({"ser_row": rows_ser[70000]})
    chk.sample({"de_row": rows_de[300000]})
    for m in list(re.finditer(r'<<"LENIENT", "(\w+)", (\d+)>>', r.out))[:20]:
        row = rows_de[int(m.group(2)) - 1]
        chk.drift("L1-length", "%s parser reads the non-canonical input %s differently from the specification's leniency" % (row[0], row[1]), {"row": row})
    for m in re.finditer(r'<<"BAD", "(\w+)", (\d+)>>', r.out):
        kind, i = m.group(1), int(m.group(2))
        row = (rows_ser if kind == "ser" else rows_de)[i - 1]
        outcome = row[2]
        if kind == "de":
            what = {-4: "panic", -5: "remainder is not the tail of the input"}.get(outcome, "wrong parse result")
            key = "%s:de:%s" % (row[0], what)
        else:
            what = "panic" if outcome == [-4] else "wrong prefix"
            key = "%s:ser:%s" % (row[0], what)
        chk.violation(key, "%s %s on %s: real code gave %s" % (row[0], kind, row[1], outcome),
                      {"style": row[0], "op": kind, "input": row[1], "observed": outcome})
    # 3. thorough: every 3-byte prefix string of the three-byte styles
    if chk.tier == "thorough":
        jobs = [(st, lo, lo + 15) for st in ("Tlv", "Adpu", "Lllv") for lo in range(0, 256, 16)]

        def one(job):
            st, lo, hi = job
            path = os.path.join(wd, "de3_%s_%d.json" % (st, lo))
            vlib.harness_run(binary, ["len-de3", st, lo, hi, path])
            rr = vlib.tlc("codec/TraceLength3.tla", workers=1, env={"LEN_DE3": path}, xmx="3g", tag="de3%s%d" % (st, lo))
            os.remove(path)
            return job, rr
        for job, rr in vlib.parallel(one, jobs, 8):
            vlib.tlc_must_pass(rr, "TraceLength3 %s" % (job,))
            chk.cov["states"] += rr.distinct
            chk.cov["transitions"] += rr.generated
            chk.cov["traces_validated_against_impl"] += 16 * 65536
            chk.cov["evaluations"] += 16 * 65536
            chk.cov["distinct_nontrivial"] += 16 * 65536
            for m in re.finditer(r'<<"BAD3", (\d+), (\d+)>>', rr.out):
                b0, b1 = int(m.group(1)), int(m.group(2))
                chk.violation("%s:de:3-byte" % job[0], "%s deserialize on %d %d xx disagrees with the specification" % (job[0], b0, b1),
                              {"style": job[0], "input": [b0, b1, "*"]})
        chk.cov["model_runs"].append({"model": "TraceLength3: all 16,777,216 three-byte strings x {Tlv, Adpu, Lllv}", "shards": len(jobs)})
    chk.assumptions += ["SANY/TLC 1.8.0, CommunityModules Json", "harness table writer (tables.rs)",
                        "Fixed<N> is checked for N = 1..17 (17 is the widest shipped field)"]
