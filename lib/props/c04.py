"""C04 - packets are read from a byte stream exactly at APDU boundaries."""
import json
import os
import re
import shutil

import vlib

BEH_RE = re.compile(r'^<<"BEH", (".*")>>$', re.M)


def validate_trace(path, tag):
    return vlib.tlc("transport/TraceTransport.tla", workers=1, xmx="4g", depth_first=True,
                    env={"TRANSPORT_TRACE": path}, tag=tag, timeout=3000)


def run(chk):
    wd = vlib.workdir("C04")
    thorough = chk.tier == "thorough"
    # 1. exhaustive model: switch at 2, all chunkings, all cuts
    cfg = "MC_Transport.cfg"
    if thorough:
        src = open(os.path.join(vlib.SPEC, "transport", "MC_Transport.cfg")).read()
        src = src.replace("BodyLens = {0, 1, 2, 3, 4}", "BodyLens = {0, 1, 2, 3, 4, 5}")
        cfg = os.path.join(wd, "MC_Transport_thorough.cfg")
        open(cfg, "w").write(src)
    r = vlib.tlc("transport/MC_Transport.tla", cfg=cfg, workers=vlib.NCPU, xmx="12g", timeout=3000)
    vlib.tlc_must_pass(r, "MC_Transport")
    chk.add_tlc("MC_Transport: switch at 2, <= 3 packets, bodies 0..%d, every chunking and every cut; header law 0..65535 as ASSUME" % (5 if thorough else 4), r)
    if r.violated:
        raise vlib.ToolError("the transport specification itself violates %s" % r.violated)
    binary = vlib.harness_build()
    # 2. spec -> impl: simulated behaviours with the real switch replayed into the real reader
    nsim = 1500 if thorough else 250
    r = vlib.tlc("transport/Sim_Transport.tla", workers=1, xmx="4g", simulate="num=%d" % nsim,
                 extra=["-depth", "4000", "-seed", str(chk.seed)], timeout=3000)
    vlib.tlc_must_pass(r, "Sim_Transport")
    behs = [json.loads(json.loads(m)) for m in BEH_RE.findall(r.out)]
    # a behaviour may print once per error state reached; keep distinct ones
    seen, uniq = set(), []
    for b in behs:
        k = json.dumps(b, sort_keys=True)
        if k not in seen:
            seen.add(k)
            uniq.append(b)
    bpath, opath = os.path.join(wd, "beh.ndjson"), os.path.join(wd, "beh.out.ndjson")
    vlib.write_ndjson(bpath, uniq)
    vlib.harness_run(binary, ["transport-replay", bpath, opath])
    outs = vlib.read_ndjson(opath)
    chk.cov["model_runs"].append({"model": "Sim_Transport: simulated behaviours with the real switch (254)", "behaviours": len(uniq)})
    for b, o in zip(uniq, outs):
        exp_reads = [list(x) for x in b["reads"]]
        ok = (o["reads"] == exp_reads and o["delivered"] == b["delivered"] and o["same"] and not o["panic"] and o["errored"])
        if not ok:
            what = "panic" if o["panic"] else ("delivered %s, model %s" % (o["delivered"], b["delivered"]) if o["delivered"] != b["delivered"]
                                                else "reads differ from the model" if o["reads"] != exp_reads else "content or error")
            key = "replay:" + ("panic" if o["panic"] else "delivery" if o["delivered"] != b["delivered"] else "reads")
            chk.violation(key, "packets %s cut at %d: %s" % (b["lens"], b["cut"], what), {"behaviour": b, "observed": o})
    # the packet that answers a command (write_packet_with_ack) is one packet whatever it is - the acknowledgement or something with a
    # body: the reader goes on exactly behind it
    acks = []
    for a in (0, 1, 2, 4, 17, 253, 254, 255, 256, 300):
        for rest in ([0], [3, 0], [255, 1]):
            for piece in (0, 1, 2, 5):
                n = a + sum(rest) + 40
                acks.append({"lens": [a] + rest, "cut": 10 ** 9, "reads": [[0, piece]] * (n // piece + 12) if piece else [], "ack_first": True})
    apath, aopath = os.path.join(wd, "ack.ndjson"), os.path.join(wd, "ack.out.ndjson")
    vlib.write_ndjson(apath, acks)
    vlib.harness_run(binary, ["transport-replay", apath, aopath])
    for b, o in zip(acks, vlib.read_ndjson(aopath)):
        if o["panic"] or o["delivered"] != b["lens"][1:] or not o["same"]:
            chk.violation("ack-first:%s" % ("panic" if o["panic"] else "delivery"),
                          "a packet with a body of %d bytes where the acknowledgement is expected, packets with %s behind it: read on as %s%s" % (
                              b["lens"][0], b["lens"][1:], o["delivered"], "" if o["same"] else " with different content"),
                          {"behaviour": {k: b[k] for k in ("lens", "ack_first")}, "piece": b["reads"][0][1] if b["reads"] else 0,
                           "observed": {k: o[k] for k in ("delivered", "same", "panic", "errored")}})
    chk.cov["answer_position_cases"] = len(acks)
    if uniq:
        chk.sample({"behaviour": {k: uniq[0][k] for k in ("lens", "cut", "delivered")}, "reads": uniq[0]["reads"][:12]})
    # 3. impl -> spec: real writer + real reader under random chunkings, every body length (thorough)
    if thorough:
        specs = ["%d-%d" % (a, min(a + 4095, 65535)) for a in range(0, 65536, 4096)]
    else:
        specs = ["0-260", "261-700", "701-1024,65533-65535", "65535%97", "253-258,0,1,254,255,65535,65534"]
    events = 0
    packets = 0

    def one(job):
        i, spec = job
        p = os.path.join(wd, "trace%d.ndjson" % i)
        vlib.harness_run(binary, ["transport-trace", chk.seed * 100 + i, spec, p])
        return i, p, validate_trace(p, "tt%d" % i)
    first = None
    for i, p, r in vlib.parallel(one, list(enumerate(specs)), 8):
        n = sum(1 for _ in open(p))
        events += n
        packets += sum(1 for l in open(p) if '"e":"packet"' in l)
        chk.cov["states"] += r.distinct
        chk.cov["transitions"] += r.generated
        if first is None:
            first = p
        if not r.ok:
            m = re.search(r'<<"REJECTED-AT", (\d+), (".*")>>', r.out)
            if not m:
                raise vlib.ToolError("TraceTransport failed: " + (r.error_text or r.out[-2000:]))
            at = int(m.group(1))
            ev = json.loads(json.loads(m.group(2)))
            lines = open(p).read().splitlines()
            ctx = [json.loads(x) for x in lines[max(0, at - 12):at]]
            reset = next((c for c in reversed([json.loads(x) for x in lines[:at]]) if c["e"] == "reset"), None)
            chk.violation("trace:%s" % ev["e"], "the reader's event %s is not a step of the transport specification (connection %s)" % (ev, reset),
                          {"event": ev, "connection": reset, "preceding": ctx})
    chk.cov["model_runs"].append({"model": "TraceTransport: %d trace shards validated" % len(specs), "events": events})
    # binding demonstration: a corrupted trace must be rejected
    if first:
        lines = open(first).read().splitlines()
        for j, x in enumerate(lines):
            e = json.loads(x)
            if e["e"] == "poll" and e["want"] > 1:
                e["want"] += 1
                lines[j] = json.dumps(e)
                break
        bad = os.path.join(wd, "corrupted.ndjson")
        open(bad, "w").write("\n".join(lines) + "\n")
        rb = validate_trace(bad, "ttbad")
        chk.cov["binding_demo"] = "corrupted trace rejected" if not rb.ok else "NOT REJECTED"
        if rb.ok:
            raise vlib.ToolError("binding demonstration failed: a corrupted trace was accepted")
    chk.cov["traces_validated_against_impl"] = len(specs) + len(uniq)
    chk.cov["evaluations"] = packets + len(uniq)
    chk.cov["distinct_nontrivial"] = packets
    chk.cov["trace_events"] = events
    chk.cov["rule"] = ("impl -> spec: packets of every listed body length (thorough: all 0..65535) written by the real write_packet, grouped into "
                       "connections of 1-6 packets, read back by the real read_packet under seeded random chunkings with Pending wake-ups and, for "
                       "1 in 5 connections, an early end of stream; every poll_read (capacity offered, bytes supplied, header bytes), delivery and "
                       "error is an event validated by TLC against the reader automaton. spec -> impl: simulated model behaviours with the real "
                       "switch replayed with the model's exact chunk sizes. distinct_nontrivial = packets delivered in validated traces")
    chk.assumptions += ["the in-memory source replaces the socket; tokio's read_exact is part of the code under test",
                        "body bytes are compared by the harness (flag `same`), header bytes are re-read by the specification"]
    shutil.rmtree(wd, ignore_errors=True)
