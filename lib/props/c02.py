"""C02 - decoding is total: arbitrary bytes give a value or an error, never a panic."""
import json
import os
import re

import vlib
import codec_common as cc


def judge_enum(chk, path, wd, label):
    """Reply-parser records (parse-run format) against ZvtParse."""
    if not os.path.exists(path) or os.path.getsize(path) == 0:
        return [], 0
    lines = open(path).read().splitlines()
    shards = []
    step = 4000
    for k in range(0, len(lines), step):
        p = os.path.join(wd, "%s.enum%d.ndjson" % (label, k // step))
        open(p, "w").write("\n".join(lines[k:k + step]) + "\n")
        shards.append((k, p))

    def one(s):
        k, p = s
        return k, p, vlib.tlc("sequence/TraceParse.tla", workers=1, env={"PARSE_TRACE": p, "PARSE_MODE": "run"}, xmx="3g", tag=label + "e%d" % k)
    out = []
    for k, p, r in vlib.parallel(one, shards, 12):
        vlib.tlc_must_pass(r, "TraceParse " + p)
        chk.cov["states"] += r.distinct
        chk.cov["transitions"] += r.generated
        for m in re.finditer(r'^<<"FLAGS", (\d+), (".*")>>$', r.out, re.M):
            out.append((json.loads(lines[k + int(m.group(1)) - 1]), set(json.loads(json.loads(m.group(2))))))
        os.remove(p)
    return out, len(lines)


def run(chk):
    wd = vlib.workdir("C02")
    thorough = chk.tier == "thorough"
    # 1. the reference decoder is total (spec level)
    r = vlib.tlc("codec/MC_Decoder.tla", workers=vlib.NCPU, xmx="16g", timeout=7000,
                 env={"MC_FULL": "2" if thorough else "1", "MC_MAX": "3"})
    vlib.tlc_must_pass(r, "MC_Decoder")
    chk.add_tlc("MC_Decoder: every (type, body) a state; bodies <= %d bytes over all byte values, <= 3 over the type's alphabet" % (2 if thorough else 1), r)
    if r.violated:
        raise vlib.ToolError("the reference decoder itself violates %s" % r.violated)
    # 2. the real decoders on enumerated families, debug and release
    dbg = vlib.harness_build()
    rel = vlib.harness_build(release=True)
    layout = cc.export_layout(wd)
    vals = cc.gen_values(chk, big=False)
    corpus = cc.blob_cases() + [c for c in vals if c["vi"] == 2]
    if thorough:
        corpus += [c for c in vals if c["vi"] in (1, 5, 9)]
    cpath = os.path.join(wd, "corpus.ndjson")
    vlib.write_ndjson(cpath, corpus)
    modes = [("small", 2000 if not thorough else 400, {}), ("subst", 600 if not thorough else 150, {}),
             ("mut", 8 if not thorough else 10, {"SWEEP_COUNT": 60000 if not thorough else 1500000}),
             ("bcd", 10 if not thorough else 25, {"SWEEP_COUNT": 40000 if not thorough else 1000000})]
    if thorough:
        modes.append(("alpha", 400, {"SWEEP_ALPHA_LEN": 5}))
    total_cases = 0
    sampled = 0
    by_outcome = {}

    def sweep(job):
        binary, bname, mode, every, env = job
        rec = os.path.join(wd, "%s.%s.records.ndjson" % (mode, bname))
        summ = os.path.join(wd, "%s.%s.summary.json" % (mode, bname))
        try:
            vlib.harness_run(binary, ["codec-sweep", layout, cpath, mode, chk.seed, every, rec, summ], env=env, timeout=6000)
        except vlib.ToolError as e:
            if os.path.exists(rec + ".hang"):
                return job, rec, None
            raise
        return job, rec, json.load(open(summ))
    jobs = [(dbg, "debug", m, e, env) for m, e, env in modes] + [(rel, "release", m, e, env) for m, e, env in modes]
    # the same inputs with a logger enabled at every level (as in an application): the arguments of log statements are evaluated
    # only then; outcomes must not depend on it
    logmodes = ("bcd", "mut")
    jobs += [(dbg, "debug-logging", m, e, dict(env, ZVTH_LOG="trace")) for m, e, env in modes if m in logmodes]
    results = vlib.parallel(sweep, jobs, 8)
    summaries = {}
    for job, rec, summ in results:
        _, bname, mode, every, env = job
        if summ is None:
            h = json.load(open(rec + ".hang"))
            chk.violation("%s:decode:hang" % h["ty"], "%s: the real decoder makes no progress on %s (%s build)" % (h["ty"], cc.hexs(h["in"]), bname), cc.short(h))
            continue
        summaries[(mode, bname)] = summ
        total_cases += summ["cases"]
        for t, d in summ["by_type"].items():
            for k, v in d.items():
                by_outcome[k.split(":")[0]] = by_outcome.get(k.split(":")[0], 0) + v
    for m in logmodes:
        a, b = summaries.get((m, "debug")), summaries.get((m, "debug-logging"))
        if a and b:
            for t in a["hash"]:
                if a["hash"][t] != b["hash"].get(t):
                    chk.violation("%s:logging" % t, "%s: the %s inputs decode differently (or panic) when a logger is enabled (outcome hash %s vs %s)" % (
                        t, m, a["hash"][t], b["hash"].get(t)), {"type": t, "mode": m, "plain": a["by_type"].get(t), "logging": b["by_type"].get(t)})
    # debug / release parity: the hash covers input, outcome, error, remainder and the Debug rendering of every case
    for m, _, _ in modes:
        a, b = summaries.get((m, "debug")), summaries.get((m, "release"))
        if a and b:
            for t in a["hash"]:
                if a["hash"][t] != b["hash"].get(t):
                    chk.violation("%s:debug-release" % t, "%s: debug and release builds decode the %s inputs differently (outcome hash %s vs %s)" % (
                        t, m, a["hash"][t], b["hash"].get(t)), {"type": t, "mode": m, "debug": a["by_type"].get(t), "release": b["by_type"].get(t)})
    # 3. anomalies and the sample, judged by TLC against the reference decoder
    for job, rec, summ in results:
        _, bname, mode, every, env = job
        if summ is None or bname != "debug":
            # release records: only anomalies matter (the parity hash covers the rest)
            if summ is not None:
                for f in (rec, rec + ".enum"):
                    for line in open(f):
                        x = json.loads(line)
                        if x["st"] not in ("ok", "err"):
                            chk.violation("%s:decode:%s" % (x.get("ty", x.get("enum")), x["st"]),
                                          "%s: real decoder (%s build) %s on %s" % (x.get("ty", x.get("enum")), bname, x["st"], cc.hexs(x["in"])), cc.short(x))
            continue
        flagged, n = cc.judge(chk, rec, wd, mode, shard=1200)
        eflag, en = judge_enum(chk, rec + ".enum", wd, mode)
        sampled += n + en
        if mode == "mut" and n:
            first = json.loads(open(rec).readline())
            chk.sample({"mode": mode, "ty": first["ty"], "how": first.get("how"), "bytes": cc.hexs(first["in"]), "outcome": first["st"] + ":" + first["kind"]})
        for x, flags in flagged + eflag:
            name = x.get("ty", x.get("enum"))
            if "total" in flags:
                chk.violation("%s:decode:%s" % (name, x["st"]), "%s: real decoder %s on %s" % (name, x["st"], cc.hexs(x["in"])), cc.short(x))
            elif "P02-wrapped" in flags:
                chk.violation("%s:decode:wrapped" % name, "%s: a number that does not fit its field is decoded to a value instead of an error, on %s" % (
                    name, cc.hexs(x["in"])), cc.short(x))
            elif flags - {"noncanon", "reenc", "rt"}:
                chk.drift("L1-codec", "%s %s %s" % (name, mode, sorted(flags)), cc.short(x, 24))
    chk.cov["traces_validated_against_impl"] = sampled
    chk.cov["evaluations"] = total_cases
    chk.cov["distinct_nontrivial"] = total_cases // 2
    chk.cov["outcomes"] = by_outcome
    chk.cov["corpus"] = len(corpus)
    chk.cov["rule"] = ("real decodes run (debug + release build, each under catch_unwind, a counting allocator with bound 64 KiB + 64 x input, and a "
                       "20 s watchdog): every body of length 0..2 over all bytes for all 55 packet types (APDU framed) and behind every known "
                       "control field for the 17 reply parsers; every truncation and every single-byte substitution of a corpus (captured blobs + "
                       "a typical reference-encoded value per type); seeded structure-aware mutations (length edits, tag splices, digit overflow, "
                       "calendar values); well-formed bodies whose BCD numbers sit at the edges of their integer type (maximum, maximum + 1, last digit / last two digits overflowing; plain, F-padded and zero-extended); in thorough also bodies of length 3..5 over each type's alphabet. distinct_nontrivial = distinct inputs "
                       "(evaluations / 2 builds). TLC validates every anomaly and a deterministic sample (traces_validated_against_impl) against "
                       "the reference decoder; disagreement on value / error kind is model drift, an outcome other than value-or-error or a "
                       "debug/release difference is the violation")
    chk.assumptions += ["allocation bound and debug/release parity are observed by the harness, not modelled in TLA+ (DESIGN.md section 10)",
                        "a hang is detected by a 20 s no-progress watchdog"]
