"""C13 - tagged fields: any order accepted, duplicates and missing fields reported."""
import collections

import vlib
import codec_common as cc

PFLAGS = {"P13-perm": "a permutation of the tagged groups does not decode to the same value",
          "P13-dup": "a repeated tag is not rejected as DuplicateTag naming that tag",
          "P13-missing": "absent mandatory tags are not all reported",
          "P13-foreign": "an unknown tag neither rejects the packet nor yields exactly the value of the bytes before it"}


def run(chk):
    wd = vlib.workdir("C13")
    binary = vlib.harness_build()
    thorough = chk.tier == "thorough"
    # the reference decoder itself satisfies what the property demands on every generated case (I-spec => P_C13)
    rm = vlib.tlc("codec/MC_Tagged.tla", workers=1, xmx="10g", env={"GEN_WHICH": "C13", "GEN_THOROUGH": "1" if thorough else "0", "GEN_BIG": "0"}, timeout=3000)
    vlib.tlc_must_pass(rm, "MC_Tagged")
    if rm.violated:
        raise vlib.ToolError("the reference decoder violates %s" % rm.violated)
    chk.add_tlc("MC_Tagged(C13): every re-assembled case a state; invariant PHolds on the reference decoder", rm)
    cases = cc.gen_c13(chk, "C13", thorough, workers=vlib.NCPU if thorough else 8)
    cases = [c for c in cases if c["cls"] not in ("nested", "nestedtail")]
    # impl -> spec: random permutations of big packets, judged against the reference decoder
    layout = cc.export_layout(wd)
    rnd = cc.random_cases(binary, layout, chk.seed, 100000 if thorough else 3000, "rand", wd, "perm-rand")
    rec = cc.run_cases(binary, cases + rnd, wd, "c13")
    flagged, n = cc.judge(chk, rec, wd, "c13", shard=2500 if thorough else 600)
    cls = collections.Counter(c["cls"] for c in cases)
    chk.cov["traces_validated_against_impl"] = n
    chk.cov["evaluations"] = n
    chk.cov["distinct_nontrivial"] = len(cases)
    chk.cov["cases_by_class"] = dict(cls)
    chk.cov["rule"] = ("TLC re-assembles the reference-encoded tagged groups of base values of every shipped type with tagged fields: all "
                       "permutations of windows of up to %d present fields (structured permutations of the full value), every group duplicated at "
                       "every position, every non-empty subset of mandatory groups removed, 4 foreign groups spliced at every position; "
                       "distinct_nontrivial = those generated cases (distinct states); plus seeded random field orders from the harness "
                       "generator judged against the reference decoder" % (6 if thorough else 4))
    for c in (cases[0], cases[len(cases) // 2], cases[-1]):
        chk.sample({"ty": c["ty"], "cls": c["cls"], "bytes": cc.hexs(c["in"])})
    for r, flags in flagged:
        if cc.report_common(chk, r, flags, claim_total=True):
            continue
        for f in sorted(flags & set(PFLAGS)):
            chk.violation("%s:%s" % (r["ty"], f), "%s %s: %s; input %s -> st=%s kind=%s tags=%s rest=%s" % (
                r["ty"], r["cls"], PFLAGS[f], cc.hexs(r["in"]), r["st"], r["kind"], r["tags"], r["rest"]), cc.short(r))
        if r.get("cls") == "rand" and flags & {"value", "ref-ok-impl-err", "ref-err-impl-ok"}:
            # a well-formed random order of fields must decode as the reference says
            chk.violation("%s:rand-order:%s" % (r["ty"], sorted(flags)[0]),
                          "%s: random field order decodes differently from the reference: %s" % (r["ty"], cc.hexs(r["in"])), cc.short(r))
        elif flags & cc.DRIFT_FLAGS and not flags & set(PFLAGS):
            chk.drift("L1-codec", "%s %s %s" % (r["ty"], r.get("cls"), sorted(flags)), cc.short(r, 24))
    chk.assumptions += ["expected outcomes are computed by the reference decoder from the base encoding (itself validated under C03)",
                        "for repeated fields a duplicate is only generated non-adjacent to the original (adjacent repetition is the vector encoding)"]
