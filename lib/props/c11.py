"""C11 - firmware upload sends exactly the requested bytes of the right file."""
import json
import os
import re
import shutil

import vlib
import seq_common as sc

WHAT = {"P11-manifest": "the announced file list is not exactly the recognised files present with their true sizes",
        "P11-block-count": "the number of data blocks written differs from the number of answerable requests",
        "P11-block": "a data block does not echo the requested id and offset with exactly the file's bytes from that offset (up to the block size)",
        "P11-error": "a request for an unannounced file, or lacking id or offset, did not end the upload with exactly one error",
        "P11-silence": "something was written after the failure"}


def run(chk):
    wd = vlib.workdir("C11")
    thorough = chk.tier == "thorough"
    r = vlib.tlc("sequence/MC_Upload.tla", workers=4)
    vlib.tlc_must_pass(r, "MC_Upload")
    chk.add_tlc("MC_Upload: block arithmetic for every (content <= 4 bytes, block 1..4, offset 0..6); path/id table sanity as ASSUME", r)
    if r.violated:
        raise vlib.ToolError("MC_Upload violated " + r.violated)
    # the exchange itself: all request scripts over {good request, unannounced id, missing offset, missing file, completion, abort, faults}
    cases = sc.model_cases(chk, 5 if thorough else 4, 4 if thorough else 3, only_cmd="WriteFile", label="MC_Sequence(WriteFile)")
    binary = vlib.harness_build()
    d = sc.upload_dir(wd)
    for c in cases:
        c["dir"] = d
        c["block"] = 2
        c["announced"] = [16, 34]
    out = sc.replay(binary, cases, wd, "replay")
    mism = [i for i, line in enumerate(open(out)) if not (lambda o: o["obs"] == o["log"] and o["obs_left"] == o["left"] and o["note"] == "")(json.loads(line))]
    flagged = []
    if mism:
        flagged, _ = sc.judge_traces(chk, out, wd, "mism", only_lines=mism)
    for rec, flags in flagged:
        bad = sorted(f for f in flags if f.startswith("P0") or f.startswith("abnormal"))
        if bad:
            chk.violation("WriteFile:replay:%s" % bad[0], "firmware upload: the exchange deviates from the model (%s)" % bad, sc.brief(rec))
        else:
            chk.drift("L3-sequence", "WriteFile %s" % sorted(flags), sc.brief(rec))
    # impl -> spec: seeded random directories, block sizes and request scripts
    n = 4000 if thorough else 240
    shards = 16 if thorough else 6
    per = n // shards

    def one(k):
        up = os.path.join(wd, "up%d" % k)
        os.makedirs(up, exist_ok=True)
        outp = os.path.join(wd, "upload%d.ndjson" % k)
        vlib.harness_run(binary, ["upload-run", chk.seed * 1000 + k, per, 200000 if thorough or k % 2 == 0 else 20000, up, outp], timeout=3000)
        shutil.rmtree(up, ignore_errors=True)
        r = vlib.tlc("sequence/TraceUpload.tla", workers=1, xmx="6g", env={"UPLOAD_TRACE": outp}, tag="up%d" % k, timeout=3000)
        return k, outp, r
    total = 0
    blocks = 0
    for k, outp, r in vlib.parallel(one, list(range(shards)), 8):
        if not r.ok:
            raise vlib.ToolError("TraceUpload failed: " + (r.error_text or r.out[-2000:]))
        chk.cov["states"] += r.distinct
        chk.cov["transitions"] += r.generated
        lines = open(outp).read().splitlines()
        total += len(lines)
        for l in lines:
            blocks += l.count('"same"')
        if k == 0 and lines:
            o = json.loads(lines[0])
            chk.sample({"block": o["block"], "files": [(f["path"], f["size"]) for f in o["files"]], "unrelated": o["unrelated"],
                        "requests": len(o["frames"]) - 1, "blocks_written": len(o["blocks"]),
                        "log": [(e["e"] + ":" + (e["a"] or e["v"] or str(e["n"]))) for e in o["obs"]][:30]})
        for m in sc.FLAG_RE.finditer(r.out):
            rec = json.loads(lines[int(m.group(1)) - 1])
            flags = set(json.loads(json.loads(m.group(2))))
            mine = sorted(f for f in flags if f.startswith("P11") or f.startswith("abnormal"))
            brief = {"block": rec["block"], "files": [(f["path"], f["id"], f["size"]) for f in rec["files"]], "unrelated": rec["unrelated"],
                     "frames": [f["bytes"][:24] for f in rec["frames"]],
                     "blocks": [{k2: (v[:40] if isinstance(v, list) else v) for k2, v in b.items()} for b in rec["blocks"]][:10],
                     "observed": [(e["e"] + ":" + (e["a"] or e["v"] or str(e["n"]))) for e in rec["obs"]][:60], "seed_shard": k}
            for f in mine:
                chk.violation("WriteFile:%s" % f, "firmware upload: %s" % WHAT.get(f, f), brief)
            if not mine:
                chk.drift("L3-sequence", "WriteFile %s" % sorted(flags), brief)
    # the shipped program that uploads: feig_update as a process, over a real TCP connection (L5, spec/cli)
    import tool_common
    ntool = tool_common.run(chk, "C11", thorough)
    chk.cov["traces_validated_against_impl"] = total + len(cases) + ntool
    chk.cov["evaluations"] = total + len(cases) + ntool
    chk.cov["distinct_nontrivial"] = total
    chk.cov["data_blocks_checked"] = blocks
    chk.cov["rule"] = ("impl -> spec: seeded random payload directories on disk (1-21 of the recognised paths plus unrelated files, sizes 0..200 KiB, "
                       "random content), block sizes 1..32768, PT scripts of up to 12 data requests (sequential, overlapping, at / beyond end of file, "
                       "offset 2^32-1, unannounced ids, missing id / offset / file / TLV) ending in completion, abort or a foreign frame; TLC decodes "
                       "the announcement and every data block with the reference codec and compares with the directory (content for files <= 4 KiB; "
                       "for larger files the harness compares the payload with its own copy and TLC checks id, offset, length and that flag). "
                       "spec -> impl: all WriteFile scripts of MC_Sequence replayed. The update tool (zvt_cli feig_update) runs as a process against "
                       "a scripted terminal on a loopback TCP connection for the runs MC_FeigUpdate generates (one terminal behaviour per stage x "
                       "forced x payload version, short flat scripts, perturbed scripts); what it wrote is taken at the system call (strace) and "
                       "judged by TraceTool: the announcement and the blocks by P_C11, the whole run against FeigUpdate!RunTool. "
                       "distinct_nontrivial = random uploads (distinct seeds)")
    chk.assumptions += ["for files above 4 KiB the bit-for-bit comparison of a block is done by the harness against the bytes it wrote to disk",
                        "the path -> id table (21 entries) is restated in spec/sequence/WriteFile.tla",
                        "tool runs: strace reports the tool's writes faithfully; the payload files of the tool runs are <= 300 bytes (block logic is "
                        "covered by the in-process uploads)"]
    shutil.rmtree(wd, ignore_errors=True)
