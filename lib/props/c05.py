"""C05 - command sequences acknowledge every packet once and stop at the final packet."""
import seq_common

WHAT = {"P05-cmd-once-first": "the command is not written exactly once before the first read",
        "P05-answer-discipline": "a reply is not answered exactly once before it is handed over and before the next read",
        "P05-order": "replies are not handed over in arrival order",
        "P05-stop-at-final": "something is read or written after the first final reply",
        "P05-delivered-count": "the number of replies handed over is not what the script demands",
        "P05-bytes-left": "the bytes left on the connection are not exactly those behind the final packet"}


def run(chk):
    seq_common.run_sequence_check(chk, "P05", WHAT)
