"""C05 - command sequences acknowledge every packet once and stop at the final packet."""
import json
import os
import shutil

import seq_common
import vlib

WHAT = {"P05-cmd-once-first": "the command is not written exactly once before the first read",
        "P05-answer-discipline": "a reply is not answered exactly once before it is handed over and before the next read",
        "P05-order": "replies are not handed over in arrival order",
        "P05-stop-at-final": "something is read or written after the first final reply",
        "P05-delivered-count": "the number of replies handed over is not what the script demands",
        "P05-bytes-left": "the bytes left on the connection are not exactly those behind the final packet",
        "P11-block": "firmware upload: a request was not answered with the requested data block",
        "P11-block-count": "firmware upload: the number of data blocks written differs from the number of answerable requests"}


def run(chk):
    seq_common.run_sequence_check(chk, "P05", WHAT)
    # "... or with the requested data block during a firmware upload": the answers of the upload are data blocks, and an answer
    # that is not the requested block is not an answer to that packet. C11 decides the content in depth; here a sample of the
    # same traces is judged for the answer itself.
    wd = vlib.workdir("C05u")
    binary = vlib.harness_build()
    n = 400 if chk.tier == "thorough" else 40
    up = os.path.join(wd, "up")
    os.makedirs(up, exist_ok=True)
    outp = os.path.join(wd, "upload.ndjson")
    vlib.harness_run(binary, ["upload-run", chk.seed * 1000 + 77, n, 20000, up, outp], timeout=3000)
    shutil.rmtree(up, ignore_errors=True)
    r = vlib.tlc("sequence/TraceUpload.tla", workers=1, xmx="6g", env={"UPLOAD_TRACE": outp}, tag="c05up", timeout=3000)
    if not r.ok:
        raise vlib.ToolError("TraceUpload failed: " + (r.error_text or r.out[-2000:]))
    lines = open(outp).read().splitlines()
    chk.add_tlc("TraceUpload: %d firmware uploads, every answer is the requested block" % len(lines), r)
    for m in seq_common.FLAG_RE.finditer(r.out):
        rec = json.loads(lines[int(m.group(1)) - 1])
        flags = set(json.loads(json.loads(m.group(2))))
        for f in sorted(flags):
            if f in ("P11-block", "P11-block-count"):
                chk.violation("WriteFile:%s" % f, WHAT[f], {"block": rec["block"], "files": [(x["path"], x["id"], x["size"]) for x in rec["files"]],
                                                           "frames": [x["bytes"][:24] for x in rec["frames"]],
                                                           "blocks": [{k2: (v[:40] if isinstance(v, list) else v) for k2, v in b.items()} for b in rec["blocks"]][:10]})
    chk.cov["traces_validated_against_impl"] += len(lines)
    chk.cov["evaluations"] += len(lines)
    shutil.rmtree(wd, ignore_errors=True)
