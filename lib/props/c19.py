"""C19 - going idle triggers clean-up; end-of-day never runs over open transactions."""
import vlib
import client_common as cl

WHAT = {"P19-cleanup-while-open-or-after-failure": "end-of-day or the pending query was sent while transactions were still open (or although the own reversal failed)",
        "P19-no-pending-query": "the call left no transaction open but did not ask for a dangling pre-authorisation",
        "P19-dangling-not-reversed": "the dangling pre-authorisation the terminal reported was not reversed",
        "P19-no-end-of-day": "end-of-day was not requested after the clean-up",
        "P19-eod-refusal-not-reported": "an end-of-day refusal other than 'receiver not ready' was not reported",
        "P19-receiver-not-ready-not-tolerated": "'receiver not ready' at end-of-day was reported as an error",
        "P19-failed-reversal-ignored": "the failed reversal of the dangling pre-authorisation was ignored",
        "P19-unanswered-query-ignored": "the pending query was not answered with an 06 1E packet and the call still succeeded"}


def run(chk):
    wd = vlib.workdir("C19")
    thorough = chk.tier == "thorough"
    binary = vlib.harness_build()
    cl.model_check(chk, 4 if thorough else 3, big=False)
    sc = cl.model_scenarios(chk, 2) + cl.model_scenarios(chk, 3, keep_every=1 if thorough else 24, offset=chk.seed + 5)
    # every end-of-day abort code behind a commit and a cancel that go idle, with and without a dangling pre-authorisation
    codes = range(256) if thorough else list(range(0, 256, 7)) + [160, 119]
    extra = []
    okp0 = {"o": "ok", "status": {"amount": [1]}}
    # the dangling pre-authorisation's receipt number runs over the range of the field (1..9999)
    receipts = [77, 9999, 2, 9998, 1000, 999, 10, 4711]
    for k, code in enumerate(codes):
        for op in ("commit", "cancel"):
            for dang in ([], [receipts[k % len(receipts)]]):
                plan = [{"o": "ok"}, {"o": "ok", "status": {"amount": [1]}}, {"o": "pending"}] + ([{"o": "ok"}] if dang else []) + [{"o": "abort", "code": code}]
                extra.append({"config": {"max": 1}, "term": {"dangling": dang}, "calls": [{"op": "begin", "token": [97]}, {"op": op, "token": [97], "amount": [1]}],
                              "plan": {"exchanges": plan}})
    # an end-of-day refusal that names a receipt number (06 1E 04 cc 87 rr rr), and a refused reversal of the dangling pre-authorisation
    for code in (0, 119, 160, 183, 181):
        for op in ("commit", "cancel"):
            for rn in (8, 65535):
                plan = [{"o": "ok"}, {"o": "ok", "status": {"amount": [1]}}, {"o": "pending"}, {"o": "abort", "code": code, "abort_receipt": rn}]
                extra.append({"config": {"max": 1}, "term": {"dangling": []}, "calls": [{"op": "begin", "token": [97]}, {"op": op, "token": [97], "amount": [1]}],
                              "plan": {"exchanges": plan}})
            for dcode in (180, 181, 0, 160):
                plan = [{"o": "ok"}, {"o": "ok", "status": {"amount": [1]}}, {"o": "pending"}, {"o": "abort", "code": dcode}, {"o": "ok"}]
                extra.append({"config": {"max": 1}, "term": {"dangling": [4711]}, "calls": [{"op": "begin", "token": [97]}, {"op": op, "token": [97], "amount": [1]}],
                              "plan": {"exchanges": plan, "default": {"o": "abort", "code": dcode}}})
    # the pending query answered by something else than its 06 1E packet
    for kind in ("intermediate", "completion", "status"):
        for op in ("commit", "cancel"):
            plan = [{"o": "ok"}, {"o": "ok", "status": {"amount": [1]}}, {"o": "unexpected", "kind": kind}]
            extra.append({"config": {"max": 1}, "term": {"dangling": []}, "calls": [{"op": "begin", "token": [97]}, {"op": op, "token": [97], "amount": [1]}],
                          "plan": {"exchanges": plan}})
    # configure in the middle of a session wipes the map: the next transaction that closes is the last one open again
    for mx in (1, 2, 3):
        for op in ("commit", "cancel"):
            extra.append({"config": {"max": mx}, "term": {"dangling": []},
                          "calls": [{"op": "begin", "token": [97]}, {"op": "configure"}, {"op": "begin", "token": [98]}, {"op": op, "token": [98], "amount": [1]},
                                    {"op": op, "token": [97], "amount": [1]}],
                          "plan": {"exchanges": [], "default": {"o": "ok", "status": {"amount": [1]}}}})
    # a further begin that the terminal declines (status information with a receipt number, then abort) or fails otherwise while
    # one transaction is open; then the open one is closed - with a final amount of 0, too
    for bad in ({"o": "abort", "code": 108, "status_first": True}, {"o": "abort", "code": 5}, {"o": "noreceipt", "open": False}):
        for op in ("commit", "cancel"):
            for amt in ([], [1]):
                for dang in ([], [4711]):
                    tail = [{"o": "pending"}] + ([{"o": "ok"}] if dang else []) + [{"o": "ok"}]
                    extra.append({"config": {"max": 2}, "term": {"dangling": dang},
                                  "calls": [{"op": "begin", "token": [97]}, {"op": "begin", "token": [98]}, {"op": op, "token": [97], "amount": amt}],
                                  "plan": {"exchanges": [okp0, bad, okp0] + tail}})
                    extra.append({"config": {"max": 1}, "term": {"dangling": dang},
                                  "calls": [{"op": "begin", "token": [97]}, {"op": op, "token": [97], "amount": amt}],
                                  "plan": {"exchanges": [okp0, okp0] + tail}})
    # closing one of two open transactions refused by the terminal with every abort code there is: whatever the code, nothing is
    # cleaned up while the other one is open
    for code in range(256):
        for op in ("commit", "cancel"):
            extra.append({"config": {"max": 2 + code % 2}, "term": {"dangling": [[], [77]][code % 2]},
                          "calls": [{"op": "begin", "token": [97]}, {"op": "begin", "token": [98]}, {"op": op, "token": [97], "amount": [1]}],
                          "plan": {"exchanges": [okp0, okp0, {"o": "abort", "code": code}], "default": okp0}})
    # a terminal that is slow but answers (25 s, well inside the per-packet timeout) in one, or in each, exchange of the clean-up: the
    # query, the reversal of what it reports, the end of day - and intermediate statuses before the end of day's completion
    for op in ("commit", "cancel"):
        for dang in ([], [77]):
            n = 3 + (1 if dang else 0)           # exchanges of the closing call: reversal, query, (reversal of the dangling one,) end of day
            for slow_at in list(range(n)) + ["all"]:
                exch = []
                for k in range(n):
                    e = {"o": "pending"} if k == 1 else {"o": "ok", "status": {"amount": [1]}}
                    if slow_at == "all" or slow_at == k:
                        e = dict(e, delay_ms=25000)
                        if k == n - 1:
                            e = dict(e, inter=2, delays=[25000, 25000, 25000, 25000])
                    exch.append(e)
                extra.append({"config": {"max": 1}, "term": {"dangling": dang},
                              "calls": [{"op": "begin", "token": [97]}, {"op": op, "token": [97], "amount": [1]}],
                              "plan": {"exchanges": [okp0] + exch}})
    # histories in which an earlier call failed: the later call that leaves nothing open must still clean up
    okp = {"o": "ok", "status": {"amount": [1]}}
    for second in ("commit", "cancel"):
        for code in (181, 160, 5):
            for dang in ([], [77], [9999]):
                tail = [{"o": "pending"}] + ([{"o": "ok"}] if dang else []) + [{"o": "ok"}]
                extra.append({"config": {"max": 2}, "term": {"dangling": dang},
                              "calls": [{"op": "begin", "token": [97]}, {"op": "cancel", "token": [97]}, {"op": "begin", "token": [98]},
                                        {"op": second, "token": [98], "amount": [1]}],
                              "plan": {"exchanges": [okp, {"o": "abort", "code": code}, okp, okp] + tail}})
                extra.append({"config": {"max": 2}, "term": {"dangling": dang},
                              "calls": [{"op": "begin", "token": [97]}, {"op": "begin", "token": [98]}, {"op": "cancel", "token": [97]},
                                        {"op": second, "token": [98], "amount": [1]}],
                              "plan": {"exchanges": [okp, okp, {"o": "abort", "code": code}, okp] + tail}})
                extra.append({"config": {"max": 2}, "term": {"dangling": dang},
                              "calls": [{"op": "begin", "token": [97]}, {"op": "begin", "token": [98]}, {"op": "commit", "token": [97], "amount": [2]},
                                        {"op": second, "token": [98], "amount": [1]}],
                              "plan": {"exchanges": [okp, okp, {"o": "abort", "code": code}, okp] + tail}})
    walks = cl.random_walks(chk.seed + 19, 1500 if thorough else 80, 40, read_card=True, configure=True)
    scripts = cl.script_walks(chk, binary, wd, chk.seed + 19, 2000 if thorough else 150)
    out = cl.run_scenarios(binary, sc + extra + walks + scripts, wd, "c19")
    outs, ifl, pfl = cl.validate(chk, out, wd, "c19", shard=1500 if thorough else 400)
    cl.report(chk, outs, ifl, pfl, {"P19", "abnormal"}, WHAT)
    chk.cov["traces_validated_against_impl"] = len(outs)
    chk.cov["reply_script_walks"] = len(scripts)
    chk.cov["evaluations"] = len(outs)
    chk.cov["distinct_nontrivial"] = len(sc) + len(extra)
    chk.cov["rule"] = ("as C07 (all 2-call histories, %s 3-call history, random walks), plus %d end-of-day abort codes x {commit, cancel} x "
                       "{no dangling, dangling pre-authorisation}; P_C19 is evaluated over the terminal's request log of each call" % (
                           "every" if thorough else "every 24th", len(list(codes))))
    chk.sample({"calls": extra[0]["calls"], "terminal_outcomes": extra[0]["plan"]["exchanges"]})
    chk.assumptions += ["fault-free connection; the pending query is answered by an 06 1E packet (its regular answer)"]
