"""C12 - the derive macro implements the declared layout for any user-defined struct."""
import json
import os
import random
import re
import shutil
import subprocess

import vlib
import codec_common as cc

ENC_RS = {"Le": "encoding::Default", "Be": "encoding::BigEndian", "Bcd": "encoding::Bcd", "Text": "encoding::Default",
          "Hex": "encoding::Hex", "Utf8": "encoding::Utf8", "Struct": "encoding::Default"}
ENC_TLA = {"Le": "Le(%d)", "Be": "Be(%d)", "Bcd": "Bcd(%d)", "Text": "Text", "Hex": "Hex", "Utf8": "Utf8"}
WIDTH = {"u8": 1, "u16": 2, "u32": 4, "u64": 8, "usize": 8}

NESTED_RS = '''
#[derive(Debug, PartialEq, Zvt, Default)]
pub struct N1 {
    #[zvt_tlv(tag = 0x41, encoding = encoding::Hex)]
    pub a: Option<String>,
    #[zvt_tlv(tag = 0x1f10)]
    pub b: Option<u8>,
}
#[derive(Debug, PartialEq, Zvt, Default)]
pub struct N2 {
    pub x: u8,
    #[zvt_bmp(length = length::Fixed<2>, encoding = encoding::Bcd)]
    pub y: u16,
}
#[derive(Debug, PartialEq, Zvt, Default)]
pub struct N3 {
    #[zvt_tlv(tag = 0x42)]
    pub c: u8,
    #[zvt_tlv(tag = 0x43, encoding = encoding::Hex)]
    pub d: Option<String>,
}
'''
NESTED_TLA = '''  N1 |-> << T("a", 65, "opt", Hex), T("b", 7952, "opt", U8) >>,
  N2 |-> << P("x", Em, "req", U8), P("y", Fx(2), "req", Bcd(2)) >>,
  N3 |-> << T("c", 66, "req", U8), T("d", 67, "opt", Hex) >>'''


def len_rs(f):
    return {"Empty": "length::Empty", "Fixed": "length::Fixed<%d>" % f["n"], "Llv": "length::Llv", "Lllv": "length::Lllv", "Tlv": "length::Tlv"}[f["len"]]


def len_tla(f):
    return {"Empty": "Em", "Fixed": "Fx(%d)" % f["n"], "Llv": "Llv", "Lllv": "Lllv", "Tlv": "Tlv"}[f["len"]]


def rust_struct(name, d, cf):
    out = ["#[derive(Debug, PartialEq, Zvt)]"]
    if cf:
        out.append("#[zvt_control_field(class = 0x%02x, instr = 0x%02x)]" % cf)
    out.append("pub struct %s {" % name)
    for i, f in enumerate(d["fields"]):
        base = f["ty"]
        # (the same types under the other names Rust has for them: how a field's type is written does not change its layout)
        k = (i + len(name)) % 5
        opt = ["Option", "Option", "std::option::Option", "core::option::Option", "::std::option::Option"][k]
        vec = ["Vec", "Vec", "std::vec::Vec", "::std::vec::Vec", "Vec"][k]
        ty = {"req": base, "opt": "%s<%s>" % (opt, base), "vec": "%s<%s>" % (vec, base)}[f["card"]]
        if f["attr"] == "tlv":
            attr = "#[zvt_tlv(tag = 0x%x%s)]" % (f["tag"], "" if f["enc"] in ("Le", "Text", "Struct") else ", encoding = " + ENC_RS[f["enc"]])
        else:
            parts = []
            if f["attr"] == "bmp":
                parts.append("number = 0x%x" % f["tag"])
            if f["len"] != "Empty":
                parts.append("length = " + len_rs(f))
            if f["enc"] not in ("Le", "Text", "Struct"):
                parts.append("encoding = " + ENC_RS[f["enc"]])
            attr = "#[zvt_bmp(%s)]" % ", ".join(parts) if parts else ""
            if f["attr"] == "pos" and f["len"] == "Tlv" and f["enc"] not in ("Le", "Text", "Struct") and i % 2 == 0:
                # the same layout spelled with the other attribute: zvt_tlv without a tag is a positional field with a TLV length
                attr = "#[zvt_tlv(encoding = %s)]" % ENC_RS[f["enc"]]
        if attr:
            out.append("    " + attr)
        out.append("    pub f%d: %s," % (i + 1, ty))
    out.append("}")
    return "\n".join(out)


def tla_fields(d):
    rows = []
    for i, f in enumerate(d["fields"]):
        name = '"f%d"' % (i + 1)
        if f["enc"] == "Struct":
            if f["attr"] == "pos":
                rows.append('PS(%s, %s, "%s", "%s")' % (name, len_tla(f), f["card"], f["ty"]))
            else:
                rows.append('BS(%s, %d, %s, "%s", "%s")' % (name, f["tag"], len_tla(f), f["card"], f["ty"]))
        else:
            enc = ENC_TLA[f["enc"]]
            if "%d" in enc:
                enc = enc % WIDTH[f["ty"]]
            if f["attr"] == "pos":
                rows.append('P(%s, %s, "%s", %s)' % (name, len_tla(f), f["card"], enc))
            else:
                rows.append('B(%s, %d, %s, "%s", %s)' % (name, f["tag"], len_tla(f), f["card"], enc))
    return "<< " + ", ".join(rows) + " >>"


# tag numbers worth declaring: every class of one-byte and two-byte tag, the neighbours of the two-byte markers 1F / FF and the
# one-byte tags whose low five bits are all set (BER would continue them; ZVT does not)
BMP_POOL = [0x01, 0x04, 0x1e, 0x20, 0x21, 0x27, 0x3c, 0x3f, 0x49, 0x5f, 0x60, 0x7f, 0x80, 0x87, 0x9f, 0xbf, 0xdf, 0xe0, 0xfc, 0xfe]
TLV_POOL = [0x07, 0x1b, 0x2d, 0x3f, 0x41, 0x4c, 0x5f, 0x60, 0x7f, 0x9f, 0xbf, 0xdf, 0xe4, 0xfe,
            0x1f00, 0x1f01, 0x1f10, 0x1f1f, 0x1f7f, 0x1f80, 0x1fff, 0xff00, 0xff01, 0xff40, 0xffff]


def assign_tags(defs, seed):
    """Tags are the generator's choice, not the grammar's: distinct within a struct, drawn from the pools in a seeded rotation."""
    rnd = random.Random(seed)
    for d in defs:
        used = set()
        # two-byte tags that differ only in their first byte (1Fxx / FFxx) must stay apart: a third of the structs with two TLV
        # fields get such a pair
        tl = [f for f in d["fields"] if f["attr"] == "tlv"]
        pair = None
        if len(tl) >= 2 and rnd.random() < 0.34:
            lo = rnd.choice([0x00, 0x01, 0x40, 0xff, 0x10])
            pair = {id(tl[0]): 0x1f00 + lo, id(tl[1]): 0xff00 + lo}
            if rnd.random() < 0.5:
                pair = {id(tl[0]): 0xff00 + lo, id(tl[1]): 0x1f00 + lo}
        for f in d["fields"]:
            if f["attr"] == "pos":
                continue
            pool = BMP_POOL if f["attr"] == "bmp" else TLV_POOL
            if pair and id(f) in pair and not (f["ty"] == "N1" and pair[id(f)] == 0x1f10):
                used.add(pair[id(f)])
                f["tag"] = pair[id(f)]
                continue
            for _ in range(100):
                t = rnd.choice(pool)
                # nested structs N1 (tags 41, 1F10) must stay distinguishable from the parent's tags when they leak
                if t not in used and not (f["ty"] == "N1" and t in (0x41, 0x1f10)):
                    break
            used.add(t)
            f["tag"] = t
    return defs


def build_batch(chk, wd, defs, label):
    """Generate the crate and the shadow layout for one batch of definitions; returns (binary, spec dir, names)."""
    names, cfs = [], {}
    rs = ["// generated by the C12 check from DeriveGrammar behaviours", "#![allow(dead_code)]", "use zvt::{encoding, length, Zvt};", NESTED_RS]
    tla_rows = []
    cmd_rows = []
    for k, d in enumerate(defs):
        name = "G%d" % (k + 1)
        cf = (0x70 + (k % 8), k % 251) if k % 3 == 0 else None
        names.append(name)
        rs.append(rust_struct(name, d, cf))
        tla_rows.append("  %s |-> %s" % (name, tla_fields(d)))
        if cf:
            cmd_rows.append("%s |-> <<%d, %d>>" % (name, cf[0], cf[1]))
    rs.append("pub fn runner(name: &str) -> Option<fn(&[u8]) -> crate::codec::Rec> {\n    match name {")
    for n in names + ["N1", "N2", "N3"]:
        rs.append('        "%s" => Some(crate::codec::run_one::<%s> as fn(&[u8]) -> crate::codec::Rec),' % (n, n))
    rs.append("        _ => None,\n    }\n}")
    crate = os.path.join(wd, "crate_" + label)
    os.makedirs(os.path.join(crate, "src"), exist_ok=True)
    os.makedirs(os.path.join(crate, ".cargo"), exist_ok=True)
    open(os.path.join(crate, "src", "types.rs"), "w").write("\n".join(rs) + "\n")
    open(os.path.join(crate, "src", "main.rs"), "w").write('''
#[path = "%(h)s/util.rs"] mod util;
#[path = "%(h)s/debugparse.rs"] mod debugparse;
#[path = "%(h)s/alloc.rs"] mod alloc;
#[path = "%(h)s/tables.rs"] mod tables;
#[path = "%(h)s/codec.rs"] mod codec;
mod types;
#[global_allocator]
static GLOBAL: alloc::Counting = alloc::Counting;
use std::io::{BufRead, Write};
fn main() {
    std::panic::set_hook(Box::new(|_| {}));
    util::install_logger();
    let args: Vec<String> = std::env::args().collect();
    let f = std::io::BufReader::new(std::fs::File::open(&args[1]).unwrap());
    let mut w = std::io::BufWriter::new(std::fs::File::create(&args[2]).unwrap());
    for line in f.lines() {
        let line = line.unwrap();
        if line.trim().is_empty() { continue; }
        let case: serde_json::Value = serde_json::from_str(&line).unwrap();
        let run = types::runner(case["ty"].as_str().unwrap()).expect("type");
        let input = codec::case_bytes(&case);
        let r = run(&input);
        writeln!(w, "{}", codec::rec_json(&case, &input, &r)).unwrap();
        // (flushed per record: if the derived code takes the whole process down, the records show which case did it)
        w.flush().unwrap();
    }
    w.flush().unwrap();
}
''' % {"h": os.path.join(vlib.HARNESS, "src")})
    open(os.path.join(crate, "Cargo.toml"), "w").write('''[package]
name = "zvtg12"
version = "0.0.0"
edition = "2021"
[workspace]
[dependencies]
zvt = { path = "%(r)s/zvt" }
zvt_builder = { path = "%(r)s/zvt_builder" }
serde_json = "1.0.105"
serde = "1.0.188"
anyhow = "1.0.75"
chrono = "0.4.26"
log = "0.4.20"
[profile.dev]
debug = 0
opt-level = 0
''' % {"r": vlib.REPO})
    open(os.path.join(crate, ".cargo", "config.toml"), "w").write('[net]\noffline = true\n[build]\ntarget-dir = "%s"\n' % os.path.join(vlib.HARNESS, "target-c12"))
    shutil.copy(os.path.join(vlib.REPO, "Cargo.lock"), os.path.join(crate, "Cargo.lock"))
    p = subprocess.run(["cargo", "build", "--offline"], cwd=crate, stdout=subprocess.PIPE, stderr=subprocess.STDOUT, text=True)
    if p.returncode != 0:
        # a definition the grammar calls well-formed does not compile: that is a finding about the macro or the grammar
        raise vlib.ToolError("generated crate does not compile:\n" + "\n".join(l for l in p.stdout.splitlines() if "error" in l or "-->" in l)[:3000])
    binary = os.path.join(vlib.HARNESS, "target-c12", "debug", "zvtg12")
    # the same definitions as a layout table for the reference codec (shadows spec/codec/ZvtLayout.tla)
    sd = os.path.join(wd, "spec_" + label)
    os.makedirs(sd, exist_ok=True)
    src = open(os.path.join(vlib.SPEC, "codec", "ZvtLayout.tla")).read()
    head = src[:src.index("(* the fields Authorization and Reservation share *)")]
    table = "Layout == [\n" + ",\n".join(tla_rows) + ",\n" + NESTED_TLA + " ]\n\n"
    cmds = "Command == [" + ", ".join(cmd_rows) + "]\n" if cmd_rows else "Command == [x \\in {} |-> <<0, 0>>]\n"
    open(os.path.join(sd, "ZvtLayout.tla"), "w").write(head + table + cmds + "\nTypeNames == DOMAIN Layout\nIsCommand(t) == t \\in DOMAIN Command\n" + "=" * 77 + "\n")
    for m in ("Gen_Values", "Gen_C13", "Gen_Sized", "TraceCodec"):
        shutil.copy(os.path.join(vlib.SPEC, "codec", m + ".tla"), sd)
        shutil.copy(os.path.join(vlib.SPEC, "codec", m + ".cfg"), sd)
    return binary, sd, names


def run(chk):
    wd = vlib.workdir("C12")
    thorough = chk.tier == "thorough"
    # 1. the grammar: every well-formed definition with up to 2 fields is a behaviour
    r = vlib.tlc("codec/DeriveGrammar.tla", workers=8, xmx="12g", env={"DG_FIELDS": "2"}, timeout=3000)
    vlib.tlc_must_pass(r, "DeriveGrammar")
    chk.add_tlc("DeriveGrammar: all well-formed struct definitions with <= 2 fields over the attribute grammar", r)
    defs = cc.parse_cases(r.out)
    defs.sort(key=lambda d: json.dumps(d, sort_keys=True))
    one = [d for d in defs if len(d["fields"]) == 1]
    two = [d for d in defs if len(d["fields"]) == 2]
    rnd = random.Random(chk.seed)
    # larger definitions: seeded simulation of the same grammar
    r3 = vlib.tlc("codec/DeriveGrammar.tla", workers=1, xmx="4g", env={"DG_FIELDS": "6"}, simulate="num=%d" % (1500 if thorough else 120),
                  extra=["-depth", "8", "-seed", str(chk.seed)], timeout=3000)
    vlib.tlc_must_pass(r3, "DeriveGrammar (simulation)")
    big = [d for d in cc.parse_cases(r3.out) if len(d["fields"]) >= 3]
    uniq, seen = [], set()
    for d in big:
        k = json.dumps(d, sort_keys=True)
        if k not in seen:
            seen.add(k)
            uniq.append(d)
    # two-field definitions are stratified by the pair of field classes (attribute, type class, length style, cardinality): the
    # interactions the macro has to get right are between classes, the encodings and widths inside a class are sampled
    def fclass(f):
        t = f["ty"]
        return (f["attr"], t if t.startswith("N") else ("str" if t == "String" else "int"), f["len"], f["card"])

    def nested(d):
        return any(f["ty"].startswith("N") for f in d["fields"])
    by_class = {}
    for d in two:
        by_class.setdefault((fclass(d["fields"][0]), fclass(d["fields"][1])), []).append(d)
    classes = sorted(by_class)
    batches = []
    if thorough:
        pool = one + [rnd.choice(by_class[c]) for c in classes] + rnd.sample(two, 1500) + uniq[:800]
        for i in range(0, len(pool), 600):
            batches.append(pool[i:i + 600])
    else:
        # every one-field definition over a nested struct (they carry the absent-value and required-tag cases) and a sample of the
        # others; every class of field behind an un-delimited nested struct (the nested decoder runs into the bytes of its parent);
        # a seeded sample of the other class pairs; some larger definitions
        undel = [c for c in classes if c[0] == ("pos", "N2", "Empty", "req")]
        rest = [c for c in classes if c not in set(undel)]
        batches.append([d for d in one if nested(d)] + rnd.sample([d for d in one if not nested(d)], 90)
                       + [rnd.choice(by_class[c]) for c in undel] + [rnd.choice(by_class[c]) for c in rnd.sample(rest, 130)] + uniq[:40])
    total_structs = 0
    total_cases = 0
    canon = 0
    for bi, batch in enumerate(batches):
        label = "b%d" % bi
        batch = assign_tags(batch, chk.seed * 1000 + bi)
        binary, sd, names = build_batch(chk, wd, batch, label)
        total_structs += len(names)
        cases = []
        for which, extra_env in (("Gen_Values", {}), ("Gen_Sized", {}), ("Gen_C13", {"GEN_WHICH": "C13"}), ("Gen_C13", {"GEN_WHICH": "C14"})):
            env = {"GEN_BIG": "0", "GEN_THOROUGH": "0"}
            env.update(extra_env)
            g = vlib.tlc(os.path.join(sd, which + ".tla"), workers=1, xmx="10g", env=env, timeout=3000, tag=label + which)
            vlib.tlc_must_pass(g, which + " on generated layout")
            cs = cc.parse_cases(g.out)
            chk.cov["states"] += g.distinct
            chk.cov["transitions"] += g.generated
            cases += cs
        cases = [c for c in cases if c["ty"] not in ("N1", "N2", "N3") or c["cls"] == "canon"]
        cin, cout = os.path.join(wd, label + ".cases.ndjson"), os.path.join(wd, label + ".records.ndjson")
        vlib.write_ndjson(cin, cases)
        crashed = None
        try:
            def limit():
                import resource
                resource.setrlimit(resource.RLIMIT_AS, (6 << 30, 6 << 30))     # a runaway allocation ends the runner, not the machine
            p = subprocess.run([binary, cin, cout], stdout=subprocess.PIPE, stderr=subprocess.PIPE, timeout=1500, preexec_fn=limit)
            rc, err = p.returncode, p.stderr.decode()[-600:]
        except subprocess.TimeoutExpired:
            rc, err = -1, "no progress within 1500 s"
        if rc != 0:
            # the derived code took the runner down (stack overflow, abort, endless loop): that is an outcome of the case it was running
            done = sum(1 for _ in open(cout)) if os.path.exists(cout) else 0
            if done >= len(cases):
                raise vlib.ToolError("generated runner failed after the last case: " + err)
            bad = cases[done]
            d = batch[int(bad["ty"][1:]) - 1] if bad["ty"].startswith("G") else {"fields": bad["ty"]}
            shape = " ".join("%s:%s:%s:%s%s:%s" % (f["attr"], f["ty"], f["enc"], f["len"], f["n"] or "", f["card"]) for f in d["fields"]) if isinstance(d["fields"], list) else d["fields"]
            chk.violation("derive:crash:%s" % shape, "struct {%s}: the derived code does not return on %s (%s): the process %s" % (
                shape, cc.hexs(bad["in"]), bad.get("cls"), "hung" if rc == -1 else "died with status %d %s" % (rc, err.strip()[-200:])),
                {"definition": d, "rust": rust_struct("G", d, None) if isinstance(d["fields"], list) else "", "case": cc.short(bad)})
            crashed = done
            # judge what was recorded up to there
            open(cout, "a").close()
        # judge with the reference codec over the generated layout
        lines = open(cout).read().splitlines()
        shards = [(k, lines[k:k + 2500]) for k in range(0, len(lines), 2500)]

        def one_shard(s):
            k, ls = s
            sp = os.path.join(wd, "%s.s%d.ndjson" % (label, k))
            open(sp, "w").write("\n".join(ls) + "\n")
            return k, vlib.tlc(os.path.join(sd, "TraceCodec.tla"), workers=1, xmx="3g", env={"CODEC_TRACE": sp}, tag="%ss%d" % (label, k), timeout=3000)
        for k, rr in vlib.parallel(one_shard, shards, 12):
            if not rr.ok:
                raise vlib.ToolError("TraceCodec (generated layout) failed:\n" + (rr.error_text or rr.out)[-2500:])
            chk.cov["states"] += rr.distinct
            chk.cov["transitions"] += rr.generated
            for m in re.finditer(r'^<<"FLAGS", (\d+), (".*")>>$', rr.out, re.M):
                rec = json.loads(lines[k + int(m.group(1)) - 1])
                flags = set(json.loads(json.loads(m.group(2))))
                d = batch[int(rec["ty"][1:]) - 1] if rec["ty"].startswith("G") else {"fields": rec["ty"]}
                shape = " ".join("%s:%s:%s:%s%s:%s" % (f["attr"], f["ty"], f["enc"], f["len"], f["n"] or "", f["card"]) for f in d["fields"]) if isinstance(d["fields"], list) else d["fields"]
                bad = flags - {"noncanon"}
                cls = rec.get("cls")
                viol = set()
                if "total" in flags:
                    viol.add("total")
                if cls == "canon":
                    viol |= flags & {"value", "reenc", "rt", "ref-ok-impl-err", "ref-err-impl-ok"}
                viol |= {f for f in flags if f.startswith("P13") or f.startswith("P14")}
                for f in sorted(viol):
                    chk.violation("derive:%s:%s" % (f, shape), "struct {%s}: %s on %s (%s)" % (shape, f, cc.hexs(rec["in"]), cls),
                                  {"definition": d, "rust": rust_struct("G", d, None) if isinstance(d["fields"], list) else "", "record": cc.short(rec)})
                if bad and not viol:
                    chk.drift("L1-derive", "%s %s" % (shape, sorted(bad)), cc.short(rec, 24))
        total_cases += len(lines)
        canon += sum(1 for c in cases if c["cls"] == "canon")
        if bi == 0:
            chk.sample({"rust": rust_struct("G1", batch[0], None), "layout": tla_fields(batch[0])})
            chk.sample({"rust": rust_struct("G%d" % len(batch), batch[-1], None)})
        shutil.rmtree(os.path.join(wd, "crate_" + label), ignore_errors=True)
    chk.cov["programs"] = total_structs
    chk.cov["traces_validated_against_impl"] = total_cases
    chk.cov["evaluations"] = total_cases
    chk.cov["distinct_nontrivial"] = canon
    chk.cov["definitions_enumerated"] = len(defs)
    chk.cov["rule"] = ("programs = generated struct definitions compiled with the working tree's derive macro: a class-stratified seeded sample (thorough: one definition per pair of field classes) of the %d well-formed "
                       "1- and 2-field definitions TLC enumerates (all pairs of field variants: positional / BMP / TLV x integer widths x LE / BE / BCD / "
                       "text / hex / UTF-8 x no length / fixed / LLVAR / LLLVAR / TLV x mandatory / optional / repeated x nested structs), plus larger "
                       "definitions from TLC's simulator; every third struct also carries a control field. For each struct the reference codec "
                       "(interpreting the generator's own description) produces boundary values, permutations / duplicates / removals / foreign tags and "
                       "suffix cases; the real derived code runs on them; TLC judges. distinct_nontrivial = canonical generated values" % len(defs))
    chk.assumptions += ["the grammar's well-formedness rules (DeriveGrammar.tla) delimit what counts as a wire format",
                        "nesting depth 2 (N1, N2, N3 as field types); up to 6 fields per struct"]
    shutil.rmtree(wd, ignore_errors=True)
