"""C14 - a decoded packet depends only on the bytes inside its announced length."""
import collections

import vlib
import codec_common as cc

PFLAGS = {"P14-suffix": "bytes appended behind the packet change the value or are not handed back untouched",
          "P14-nested": "bytes behind a nested container changed the nested value",
          "P14-nested-tail": "bytes a nested container left unread, or the bytes that follow the container, were not handed on"}


def run(chk):
    wd = vlib.workdir("C14")
    binary = vlib.harness_build()
    thorough = chk.tier == "thorough"
    cases = cc.gen_c13(chk, "C14", thorough, workers=vlib.NCPU)
    nested = [c for c in cc.gen_c13(chk, "C13", thorough, workers=8) if c["cls"] in ("nested", "nestedtail")]
    if thorough:
        rm = vlib.tlc("codec/MC_Tagged.tla", workers=1, xmx="10g", env={"GEN_WHICH": "C14", "GEN_THOROUGH": "1", "GEN_BIG": "0"}, timeout=5000)
        vlib.tlc_must_pass(rm, "MC_Tagged")
        if rm.violated:
            raise vlib.ToolError("the reference decoder violates %s" % rm.violated)
        chk.add_tlc("MC_Tagged(C14): every suffix case a state; invariant PHolds on the reference decoder", rm)
    cases += nested
    rec = cc.run_cases(binary, cases, wd, "c14")
    flagged, n = cc.judge(chk, rec, wd, "c14", shard=2500)
    cls = collections.Counter(c["cls"] for c in cases)
    chk.cov["traces_validated_against_impl"] = n
    chk.cov["evaluations"] = n
    chk.cov["distinct_nontrivial"] = len(cases)
    chk.cov["cases_by_class"] = dict(cls)
    chk.cov["rule"] = ("for every type: three canonical base values x every single-byte suffix 0..255 and 7 longer suffixes (valid packets, 64 "
                       "patterned bytes, lone tag bytes), a sample of all other boundary values x 5 suffixes; for every tagged nested container: "
                       "5 byte strings inserted right behind it inside its parent. Cases are distinct states of the generator")
    for c in (cases[0], cases[len(cases) // 2], nested[0] if nested else cases[-1]):
        chk.sample({"ty": c["ty"], "cls": c["cls"], "bytes": cc.hexs(c["in"])})
    for r, flags in flagged:
        if cc.report_common(chk, r, flags):
            continue
        for f in sorted(flags & set(PFLAGS)):
            chk.violation("%s:%s" % (r["ty"], f), "%s: %s; input %s -> st=%s rest=%s" % (
                r["ty"], PFLAGS[f], cc.hexs(r["in"]), r["st"], r["rest"]), cc.short(r))
        if flags & cc.DRIFT_FLAGS and not flags & set(PFLAGS):
            chk.drift("L1-codec", "%s %s %s" % (r["ty"], r.get("cls"), sorted(flags)), cc.short(r, 24))
    # the same law on a connection: a packet read from a stream takes exactly its own bytes, whatever is already waiting behind it
    # (the reader is offered everything that is available; every pair of a first packet with a body of 0..12 / 250..258 bytes and a
    # following packet must come out as written)
    import json
    import os
    first = list(range(0, 13)) + list(range(250, 259)) + ([300, 1000, 65535] if thorough else [300])
    behs = [{"lens": [a, b, 2], "cut": 10 ** 9, "reads": []} for a in first for b in (0, 1, 3, 17, 255)]
    bpath, opath = os.path.join(wd, "conn.ndjson"), os.path.join(wd, "conn.out.ndjson")
    vlib.write_ndjson(bpath, behs)
    vlib.harness_run(binary, ["transport-replay", bpath, opath])
    for b, o in zip(behs, vlib.read_ndjson(opath)):
        taken = sum(r[1] for r in o["reads"])
        if o["panic"] or o["delivered"] != b["lens"] or not o["same"] or taken != o["full"]:
            chk.violation("connection:%s" % ("panic" if o["panic"] else "remainder"),
                          "packets with bodies of %s bytes waiting on a connection: read back as %s%s - bytes behind a packet were taken or changed" % (
                              b["lens"], o["delivered"], "" if o["same"] else " with different content"), {"behaviour": b, "observed": o})
    chk.cov["connection_level_cases"] = len(behs)
    chk.assumptions += ["bare container types have no announced length of their own; they are exercised wrapped as nested fields",
                        "base values are canonical (fixed points of the reference codec)"]
