"""C14 - a decoded packet depends only on the bytes inside its announced length."""
import collections
import json
import os

import vlib
import codec_common as cc

PFLAGS = {"P14-suffix": "bytes appended behind the packet change the value or are not handed back untouched",
          "P14-nested": "bytes behind a nested container changed the nested value",
          "P14-nested-tail": "bytes a nested container left unread, or the bytes that follow the container, were not handed on"}


def run(chk):
    wd = vlib.workdir("C14")
    binary = vlib.harness_build()
    thorough = chk.tier == "thorough"
    cases = cc.gen_c13(chk, "C14", thorough, workers=vlib.NCPU)
    nested = [c for c in cc.gen_c13(chk, "C13", thorough, workers=8) if c["cls"] in ("nested", "nestedtail")]
    if thorough:
        rm = vlib.tlc("codec/MC_Tagged.tla", workers=1, xmx="10g", env={"GEN_WHICH": "C14", "GEN_THOROUGH": "1", "GEN_BIG": "0"}, timeout=5000)
        vlib.tlc_must_pass(rm, "MC_Tagged")
        if rm.violated:
            raise vlib.ToolError("the reference decoder violates %s" % rm.violated)
        chk.add_tlc("MC_Tagged(C14): every suffix case a state; invariant PHolds on the reference decoder", rm)
    cases += nested
    rec = cc.run_cases(binary, cases, wd, "c14")
    flagged, n = cc.judge(chk, rec, wd, "c14", shard=2500)
    cls = collections.Counter(c["cls"] for c in cases)
    chk.cov["traces_validated_against_impl"] = n
    chk.cov["evaluations"] = n
    chk.cov["distinct_nontrivial"] = len(cases)
    chk.cov["cases_by_class"] = dict(cls)
    chk.cov["rule"] = ("for every type: three canonical base values x every single-byte suffix 0..255 and 7 longer suffixes (valid packets, 64 "
                       "patterned bytes, lone tag bytes), a sample of all other boundary values x 5 suffixes; for every tagged nested container: "
                       "5 byte strings inserted right behind it inside its parent. Cases are distinct states of the generator")
    for c in (cases[0], cases[len(cases) // 2], nested[0] if nested else cases[-1]):
        chk.sample({"ty": c["ty"], "cls": c["cls"], "bytes": cc.hexs(c["in"])})
    for r, flags in flagged:
        if cc.report_common(chk, r, flags):
            continue
        for f in sorted(flags & set(PFLAGS)):
            chk.violation("%s:%s" % (r["ty"], f), "%s: %s; input %s -> st=%s rest=%s" % (
                r["ty"], PFLAGS[f], cc.hexs(r["in"]), r["st"], r["rest"]), cc.short(r))
        if flags & cc.DRIFT_FLAGS and not flags & set(PFLAGS):
            chk.drift("L1-codec", "%s %s %s" % (r["ty"], r.get("cls"), sorted(flags)), cc.short(r, 24))
    # the same law on a connection: a packet read from a stream takes exactly its own bytes, whatever is already waiting behind it
    # (the reader is offered everything that is available; every pair of a first packet with a body of 0..12 / 250..258 bytes and a
    # following packet must come out as written)
    import json
    import os
    first = list(range(0, 13)) + list(range(250, 259)) + ([300, 1000, 65535] if thorough else [300])
    behs = [{"lens": [a, b, 2], "cut": 10 ** 9, "reads": []} for a in first for b in (0, 1, 3, 17, 255)]
    # ... and when the first packet arrives in pieces while the following ones are already waiting behind it
    for a in (2, 4, 255, 256, 300, 1100, 2100):
        for piece in (1, 2, 7, 100, 1024):
            behs.append({"lens": [a, 1, 3], "cut": 10 ** 9, "reads": [[0, piece]] * (a // piece + 12)})
    bpath, opath = os.path.join(wd, "conn.ndjson"), os.path.join(wd, "conn.out.ndjson")
    vlib.write_ndjson(bpath, behs)
    vlib.harness_run(binary, ["transport-replay", bpath, opath])
    for b, o in zip(behs, vlib.read_ndjson(opath)):
        taken = sum(r[1] for r in o["reads"])
        if o["panic"] or o["delivered"] != b["lens"] or not o["same"] or taken != o["full"]:
            chk.violation("connection:%s" % ("panic" if o["panic"] else "remainder"),
                          "packets with bodies of %s bytes waiting on a connection: read back as %s%s - bytes behind a packet were taken or changed" % (
                              b["lens"], o["delivered"], "" if o["same"] else " with different content"), {"behaviour": b, "observed": o})
    chk.cov["connection_level_cases"] = len(behs)
    # ... and for the reply parsers: what follows the packet decides neither which variant a reply is nor what it contains.  For every
    # reply enum, every packet type that owns one of its control fields (reference-encoded boundary values), alone and with a suffix.
    import re
    import seq_common
    _, rp = seq_common.export_tables(wd)
    rep = json.load(open(rp))
    src = open(os.path.join(vlib.SPEC, "codec", "ZvtLayout.tla")).read()
    cmdtab = {n: (int(a), int(b)) for n, a, b in re.findall(r"(\w+) \|-> <<(\d+), (\d+)>>", re.search(r"Command == \[(.*?)\]\n", src, re.S).group(1))}
    vals = {}
    for c in cc.gen_values(chk, big=False):
        if c["ty"] in cmdtab and c.get("cls") == "canon" and len(vals.setdefault(c["ty"], [])) < (12 if thorough else 5):
            vals[c["ty"]].append(c["in"])
    suffixes = [[], [0], [255], [0x1f], [0x06, 0x0f, 0x00], [0x80, 0x00, 0x00, 0x04, 0x0f, 0x02, 0x27, 0x00]]
    pcases = []
    for enum, variants in sorted(rep["replies"].items()):
        cfs = {cmdtab[v["ty"]] for v in variants if v["ty"] in cmdtab}
        for ty, frames in sorted(vals.items()):
            if cmdtab[ty] in cfs:
                for f in frames:
                    for sfx in suffixes:
                        pcases.append({"enum": enum, "ty": ty, "in": f + sfx, "base": f, "suffix": sfx})
    pin, pout = os.path.join(wd, "parse.cases.ndjson"), os.path.join(wd, "parse.out.ndjson")
    vlib.write_ndjson(pin, pcases)
    vlib.harness_run(binary, ["parse-run", pin, pout])
    precs = vlib.read_ndjson(pout)
    # (a) against the reference parser, record by record (TLC); (b) with a suffix = without
    plines = open(pout).read().splitlines()
    shards = [(k, plines[k:k + 3000]) for k in range(0, len(plines), 3000)]

    def pjudge(sh):
        k, ls = sh
        sp = os.path.join(wd, "parse.s%d.ndjson" % k)
        open(sp, "w").write("\n".join(ls) + "\n")
        return k, vlib.tlc("sequence/TraceParse.tla", workers=1, env={"PARSE_TRACE": sp, "PARSE_MODE": "run"}, xmx="3g", tag="c14p%d" % k)
    for k, r in vlib.parallel(pjudge, shards, 8):
        vlib.tlc_must_pass(r, "TraceParse")
        chk.cov["states"] += r.distinct
        chk.cov["transitions"] += r.generated
        for m in re.finditer(r'^<<"FLAGS", (\d+), (".*")>>$', r.out, re.M):
            rec = precs[k + int(m.group(1)) - 1]
            flags = set(json.loads(json.loads(m.group(2))))
            if rec["suffix"] and flags & {"variant", "content", "ref-ok-impl-err", "ref-err-impl-ok", "total"}:
                chk.violation("parse:%s:%s" % (rec["enum"], sorted(flags)[0]), "%s: a %s packet followed by %s is not parsed as the packet alone is (%s)" % (
                    rec["enum"], rec["ty"], cc.hexs(rec["suffix"]), sorted(flags)), {k2: v for k2, v in rec.items() if k2 != "val"})
            elif flags:
                chk.notes.append("reply parser differs from the reference without a suffix (C15's subject): %s %s %s" % (rec["enum"], rec["ty"], sorted(flags)))
    base = {}
    for rec in precs:
        key = (rec["enum"], json.dumps(rec["base"]))
        if not rec["suffix"]:
            base[key] = (rec["st"], rec["variant"], json.dumps(rec["val"], sort_keys=True))
    for rec in precs:
        if rec["suffix"]:
            b = base[(rec["enum"], json.dumps(rec["base"]))]
            if (rec["st"], rec["variant"], json.dumps(rec["val"], sort_keys=True)) != b:
                chk.violation("parse:%s:suffix" % rec["enum"], "%s: a %s packet followed by %s parses as %s/%s, alone as %s/%s" % (
                    rec["enum"], rec["ty"], cc.hexs(rec["suffix"]), rec["st"], rec["variant"], b[0], b[1]), {k2: v for k2, v in rec.items() if k2 != "val"})
    chk.cov["reply_parser_suffix_cases"] = len(pcases)
    chk.assumptions += ["bare container types have no announced length of their own; they are exercised wrapped as nested fields",
                        "base values are canonical (fixed points of the reference codec)"]
