"""C20 - a terminal abort always surfaces as an error identifying its result code."""
import vlib
import client_common as cl

WHAT = {"P20-abort-reported-as-success": "the terminal aborted the operation but the call reported success",
        "P20-error-does-not-identify-code": "the error does not identify the terminal's result code",
        "P20-timeout-not-no-card": "time-out while reading a card was not translated to 'no card presented'",
        "P20-device-missing-not-pin": "'device missing' during a reservation was not translated to 'needs PIN entry'"}


def amounts_and_pace():
    """Every abort code in the release of a commit whose final amount is at or above the pre-authorised one (nothing to release) and just
    below it; and aborts that arrive late - status informations 25 s or 40 s apart first, every gap inside the per-packet timeout, the
    abort more than the timeout after the request."""
    okp = {"o": "ok", "status": {"amount": [1]}}
    out = []
    for code in range(256):
        for amt in ([2, 5, 0, 0], [2, 5, 0, 1], [2, 4, 9, 9], [9] * 12):
            if code % 4 != len(amt) % 4 and amt != [2, 5, 0, 0]:
                continue
            out.append({"config": {"max": 1}, "calls": [{"op": "begin", "token": [97], "amount": []}, {"op": "commit", "token": [97], "amount": amt}],
                        "plan": {"exchanges": [okp, {"o": "abort", "code": code}], "default": okp}})
    # the reversal of the dangling pre-authorisation the terminal reports (the clean-up of commit, cancel and configure) aborted with
    # every code, end of day completing afterwards
    for code in range(256):
        for calls, lead in (([{"op": "begin", "token": [97], "amount": []}, {"op": "commit", "token": [97], "amount": [1]}], [okp, okp]),
                            ([{"op": "begin", "token": [97], "amount": []}, {"op": "cancel", "token": [97], "amount": []}], [okp, okp]),
                            ([{"op": "configure"}], [okp, okp])):
            if calls[0]["op"] == "configure" and code % 4:
                continue
            out.append({"config": {"max": 1}, "term": {"dangling": [77]}, "calls": calls,
                        "plan": {"exchanges": lead + [{"o": "pending"}, {"o": "abort", "code": code}], "default": okp}})
    for code in (0x6c, 0xb7, 5, 0xff, 0x64):
        for gap in (25000, 40000):
            late = {"o": "abort", "code": code, "inter": 2, "delays": [gap, gap, gap, gap]}
            for calls, at in (([{"op": "begin", "token": [97], "amount": []}], 0),
                              ([{"op": "begin", "token": [97], "amount": []}, {"op": "commit", "token": [97], "amount": [1]}], 1),
                              ([{"op": "begin", "token": [97], "amount": []}, {"op": "cancel", "token": [97], "amount": []}], 1),
                              ([{"op": "configure"}], 0), ([{"op": "configure"}], 2)):
                out.append({"config": {"max": 1}, "calls": calls, "plan": {"exchanges": [okp] * at + [late], "default": okp}})
    return out


def run(chk):
    wd = vlib.workdir("C20")
    thorough = chk.tier == "thorough"
    binary = vlib.harness_build()
    cl.model_check(chk, 3, big=False, configure=True)
    sc = cl.gen_scenarios(chk, "C20", thorough)
    scripts = cl.script_walks(chk, binary, wd, chk.seed + 20, 3000 if thorough else 250)
    paced = amounts_and_pace()
    out = cl.run_scenarios(binary, sc + scripts + paced, wd, "c20")
    outs, ifl, pfl = cl.validate(chk, out, wd, "c20", shard=600)
    cl.report(chk, outs, ifl, pfl, {"P20", "abnormal"}, WHAT)
    chk.cov["traces_validated_against_impl"] = len(outs)
    chk.cov["reply_script_walks"] = len(scripts)
    chk.cov["amount_and_pace_histories"] = len(paced)
    chk.cov["evaluations"] = len(outs)
    chk.cov["distinct_nontrivial"] = len(sc)
    chk.cov["rule"] = ("TLC generates: result codes (%s) x operations {read_card, begin, commit, cancel, configure; with and without a dangling "
                       "pre-authorisation, with and without a terminal-id update} x every exchange of the operation x 0..2 packets before the abort; "
                       "the message table of the specification (spec/client/ZvtMessages.tla) decides what identifies a code for read_card" % (
                           "all 256" if thorough else "every 16th plus the named ones"))
    chk.sample({"calls": sc[len(sc) // 2]["calls"], "plan": sc[len(sc) // 2]["plan"]["exchanges"]})
    chk.assumptions += ["the pending query (receipt FFFF) is not an abort arm: its regular answer is an 06 1E packet (DESIGN.md C20)",
                        "Feig::new swallows configure's error by design (O1) and is not in scope"]
