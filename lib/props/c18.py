"""C18 - card identity is a fixed function of the data the terminal reports."""
import vlib
import client_common as cl

WHAT = {"P18-bank-card-not-bank": "a card whose first application entry carries an application id was not reported as bank card",
        "P18-payment-card-as-membership": "a card on which the terminal lists a payment application was reported as membership card",
        "P18-membership-id": "the membership id is not the canonical upper-case hex form of the UID",
        "P18-no-uid-but-card": "a card was reported although the terminal sent neither application list nor UID",
        "P18-no-data-but-card": "a card was reported although the status carried no TLV data",
        "P18-timeout-not-no-card": "the terminal's time-out (6C) was not reported as 'no card presented'",
        "P18-abort-not-error": "an abort other than the time-out was not reported as an error",
        "P18-no-card-without-the-terminal-saying-so": "'no card presented' was reported although the terminal sent no time-out abort (it was still reporting)"}


def ber(tag, body):
    t = [tag >> 8, tag & 255] if tag > 255 else [tag]
    n = len(body)
    ln = [n] if n < 128 else ([0x81, n] if n < 256 else [0x82, n >> 8, n & 255])
    return t + ln + list(body)


def raw_status_shapes():
    """Status informations assembled byte by byte: the application list and the UID as a terminal may really send them - entries with data
    objects the library does not model (before or behind the application id), unknown elements around the list, the UID in front of or
    behind the list.  What they decode to is the reference parser's business; the classification must follow it."""
    aid = ber(0x43, [0xa0, 0, 0, 0, 4, 0x10, 0x10])
    ctype = ber(0x41, [0x00, 0x05])
    unk = [ber(0x44, [0x56, 0x49, 0x53, 0x41]), ber(0x1f99, [1]), ber(0x45, [])]
    uid = ber(0x4c, [0x04, 0xa1, 0xb2, 0xc3])
    entries = [aid, ctype + aid]
    for u in unk:
        entries += [aid + u, ctype + aid + u, u + aid, ctype + u]
    shapes = []
    for e in entries:
        sub = ber(0x60, e)
        for body in (sub, uid + sub, sub + uid, sub + ber(0x60, ctype), uid + unk[0] + sub, uid + sub + unk[1]):
            shapes.append(body)
    shapes += [uid + u for u in unk] + [u + uid for u in unk]
    # the same data objects with the two-byte form of a short length (81 0c ...): legal BER, not what the library writes
    def ber2(tag, body):
        t = [tag >> 8, tag & 255] if tag > 255 else [tag]
        return t + [0x81, len(body)] + list(body)
    shapes += [ber2(0x60, aid), uid + ber2(0x60, ctype + aid), ber2(0x4c, [0x04, 0xa1, 0xb2, 0xc3]), ber(0x60, ber2(0x43, [0xa0, 0, 0, 0, 4, 0x10, 0x10]))]
    out = []
    for k, body in enumerate(shapes):
        bmp06 = [0x06] + ber(0, body)[1:]          # BMP 06: BER length, then the container
        frame_body = [0x27, 0x00] + bmp06
        n = len(frame_body)
        frame = [0x04, 0x0f] + ([n] if n < 255 else [0xff, n & 255, n >> 8]) + frame_body
        out.append({"calls": [{"op": "read_card"}], "term": {"chunk": [0, 0, 5, 1][k % 4]},
                    "plan": {"exchanges": [], "scripts": {"ReadCard": [{"script": [[0x04, 0xff, 0x01, 0x0a]] * (k % 3) + [frame]}]},
                             "default": {"o": "ok", "uid": [1, 2, 3, 4]}}})
    # the card is presented late: intermediate statuses every few seconds keep the exchange alive beyond the configured card timeout
    for n, gap in ((3, 10000), (6, 14000), (2, 14900), (1, 9000)):
        for data in ({"uid": [4, 161, 178, 195]}, {"uid": [4, 161, 178, 195], "subs": [{"aid": [160, 0, 0, 0, 4, 16, 16]}]}):
            out.append({"calls": [{"op": "read_card"}], "config": {"read_card_timeout": 15},
                        "plan": {"exchanges": [dict({"o": "status", "inter": n, "delays": [gap] * (n + 1)}, **data)], "default": {"o": "ok", "uid": [1, 2, 3, 4]}}})
    # what the terminal displayed on the way (every intermediate status byte there is) and how often (up to 64 times) does not change
    # what the card is, nor what a time-out is
    card = {"uid": [4, 161, 178, 195]}
    bank = {"uid": [4, 161, 178, 195], "subs": [{"aid": [160, 0, 0, 0, 4, 16, 16]}]}
    for st in range(256):
        fin = [dict({"o": "status"}, **card), {"o": "abort", "code": 108}, dict({"o": "status"}, **bank), {"o": "abort", "code": 100}][st % 4]
        out.append({"calls": [{"op": "read_card"}], "plan": {"exchanges": [dict(fin, inter=1 + st % 2, inter_status=st)], "default": {"o": "ok", "uid": [1, 2, 3, 4]}}})
        if st in (0x08, 0x0a, 0x0c, 0x10, 0x19, 0x17, 0x01, 0x02, 0xff):
            for f2 in (dict({"o": "status"}, **card), {"o": "abort", "code": 108}, dict({"o": "status"}, **bank)):
                out.append({"calls": [{"op": "read_card"}], "plan": {"exchanges": [dict(f2, inter=2, inter_status=st)], "default": {"o": "ok", "uid": [1, 2, 3, 4]}}})
    for n in (19, 20, 21, 25, 29, 64):
        for fin in (dict({"o": "status"}, **card), {"o": "abort", "code": 108}, dict({"o": "status"}, **bank)):
            out.append({"calls": [{"op": "read_card"}], "plan": {"exchanges": [dict(fin, inter=n)], "default": {"o": "ok", "uid": [1, 2, 3, 4]}}})
    return out


def run(chk):
    wd = vlib.workdir("C18")
    thorough = chk.tier == "thorough"
    binary = vlib.harness_build()
    sc = cl.gen_scenarios(chk, "C18", thorough)
    import random
    rnd = random.Random(chk.seed)
    rand = []
    for _ in range(100000 if thorough else 1500):
        n = rnd.randrange(0, 21)
        uid = [rnd.choice([0, 0, rnd.randrange(256)]) for _ in range(n)]
        subs = rnd.choice([[], [], [], [{"aid": [160, 0, 0, 0, 4, 16, 16]}], [{}], [{}, {"aid": [1, 2]}]])
        rand.append({"calls": [{"op": "read_card"}], "plan": {"exchanges": [{"o": "status", "uid": uid if rnd.random() < 0.95 else None, "subs": subs,
                                                                              "inter": rnd.choice([0, 0, 1, 3])}]}})
    scripts = cl.script_walks(chk, binary, wd, chk.seed + 18, 2000 if thorough else 150)
    # the replies arrive in one piece or in segments of 1 / 7 / 64 bytes
    for k, x in enumerate(sc):
        x.setdefault("term", {})["chunk"] = [0, 0, 1, 7, 64][k % 5]
    raw = raw_status_shapes()
    out = cl.run_scenarios(binary, sc + rand + scripts + raw, wd, "c18")
    outs, ifl, pfl = cl.validate(chk, out, wd, "c18", shard=800)
    cl.report(chk, outs, ifl, pfl, {"P18", "abnormal"}, WHAT)
    chk.cov["traces_validated_against_impl"] = len(outs)
    chk.cov["reply_script_walks"] = len(scripts)
    chk.cov["raw_status_shapes"] = len(raw)
    chk.cov["evaluations"] = len(outs)
    chk.cov["distinct_nontrivial"] = len(sc)
    chk.cov["rule"] = ("TLC generates status replies: UID of 0..20 bytes x 5 zero-prefix / case patterns x 6 application-list shapes x 0..3 leading "
                       "intermediate statuses, no UID, no TLV, and all 256 abort codes (x 0 / 2 intermediates); plus seeded random UIDs. read_card "
                       "runs against the simulated terminal; TLC compares the classification with the specification's Classify / CanonUid")
    chk.sample(sc[len(sc) // 3]["plan"]["exchanges"][0])
