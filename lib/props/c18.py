"""C18 - card identity is a fixed function of the data the terminal reports."""
import vlib
import client_common as cl

WHAT = {"P18-bank-card-not-bank": "a card whose first application entry carries an application id was not reported as bank card",
        "P18-payment-card-as-membership": "a card on which the terminal lists a payment application was reported as membership card",
        "P18-membership-id": "the membership id is not the canonical upper-case hex form of the UID",
        "P18-no-uid-but-card": "a card was reported although the terminal sent neither application list nor UID",
        "P18-no-data-but-card": "a card was reported although the status carried no TLV data",
        "P18-timeout-not-no-card": "the terminal's time-out (6C) was not reported as 'no card presented'",
        "P18-abort-not-error": "an abort other than the time-out was not reported as an error"}


def run(chk):
    wd = vlib.workdir("C18")
    thorough = chk.tier == "thorough"
    binary = vlib.harness_build()
    sc = cl.gen_scenarios(chk, "C18", thorough)
    import random
    rnd = random.Random(chk.seed)
    rand = []
    for _ in range(100000 if thorough else 1500):
        n = rnd.randrange(0, 21)
        uid = [rnd.choice([0, 0, rnd.randrange(256)]) for _ in range(n)]
        subs = rnd.choice([[], [], [], [{"aid": [160, 0, 0, 0, 4, 16, 16]}], [{}], [{}, {"aid": [1, 2]}]])
        rand.append({"calls": [{"op": "read_card"}], "plan": {"exchanges": [{"o": "status", "uid": uid if rnd.random() < 0.95 else None, "subs": subs,
                                                                              "inter": rnd.choice([0, 0, 1, 3])}]}})
    scripts = cl.script_walks(chk, binary, wd, chk.seed + 18, 2000 if thorough else 150)
    out = cl.run_scenarios(binary, sc + rand + scripts, wd, "c18")
    outs, ifl, pfl = cl.validate(chk, out, wd, "c18", shard=800)
    cl.report(chk, outs, ifl, pfl, {"P18", "abnormal"}, WHAT)
    chk.cov["traces_validated_against_impl"] = len(outs)
    chk.cov["reply_script_walks"] = len(scripts)
    chk.cov["evaluations"] = len(outs)
    chk.cov["distinct_nontrivial"] = len(sc)
    chk.cov["rule"] = ("TLC generates status replies: UID of 0..20 bytes x 5 zero-prefix / case patterns x 6 application-list shapes x 0..3 leading "
                       "intermediate statuses, no UID, no TLV, and all 256 abort codes (x 0 / 2 intermediates); plus seeded random UIDs. read_card "
                       "runs against the simulated terminal; TLC compares the classification with the specification's Classify / CanonUid")
    chk.sample(sc[len(sc) // 3]["plan"]["exchanges"][0])
