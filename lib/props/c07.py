"""C07 - transaction tokens map one-to-one onto open pre-authorisations."""
import vlib
import client_common as cl

WHAT = {"P07-acts-on-another-token": "a reversal of this call names the receipt number of another open token",
        "P07-begin-not-refused": "begin for an open token / at the maximum was not refused with ActiveTransaction",
        "P07-traffic-on-refused-call": "a refused call sent traffic to the terminal",
        "P07-begin-ok-without-successful-reservation": "begin succeeded without exactly one completed reservation carrying a receipt number",
        "P07-unknown-token-accepted": "commit/cancel for a token that is not open was not refused with UnknownToken",
        "P07-wrong-receipt": "commit/cancel did not act on the receipt number the terminal issued for that token's reservation",
        "P07-issued-receipt-not-recorded": "begin failed although the terminal completed the reservation and reported its receipt number: the receipt is not recorded",
        "P07-open-token-refused": "commit/cancel for an open token was refused as unknown"}


def similar_tokens():
    """Tokens that differ only in case, padding, a prefix, or not at all but for one byte: each is its own key of the map."""
    pairs = [([97], [65]), ([97], [97, 32]), ([97], [32, 97]), ([97, 98], [97]), ([97], []), ([97, 98], [98, 97]), ([132], [142]), ([48], [48, 48]),
             ([97, 0], [97]), ([255], [254]), ([88], [65, 67, 88]), ([65, 67], [65, 67, 65, 67]), ([], [65, 67]), ([88, 65, 67], [88])]
    ok = {"o": "ok", "status": {"amount": [1]}}
    out = []
    for a, b in pairs:
        for first, second in ((a, b), (b, a)):
            for closing in ("commit", "cancel"):
                # begin(first); closing(second) must be refused; begin(second) is a new token; both close on their own receipts
                calls = [{"op": "begin", "token": first, "amount": []}, {"op": closing, "token": second, "amount": [1]},
                         {"op": "begin", "token": second, "amount": []}, {"op": "begin", "token": first, "amount": []},
                         {"op": closing, "token": first, "amount": [1]}, {"op": closing, "token": second, "amount": [1]}]
                out.append({"config": {"max": 2}, "term": {"next_receipt": 7}, "calls": calls, "plan": {"exchanges": [], "default": ok}})
                out.append({"config": {"max": 1}, "term": {"next_receipt": 7}, "calls": calls, "plan": {"exchanges": [], "default": ok}})
    # a commit of exactly 0 closes the token like any other; a reservation may get receipt number 0
    for amt in ([], [0], [1]):
        for r0 in (0, 1):
            calls = [{"op": "begin", "token": [65], "amount": []}, {"op": "commit", "token": [65], "amount": amt}, {"op": "commit", "token": [65], "amount": amt},
                     {"op": "cancel", "token": [65], "amount": []}, {"op": "begin", "token": [65], "amount": []}, {"op": "cancel", "token": [65], "amount": []}]
            for mx in (1, 2):
                out.append({"config": {"max": mx}, "term": {"next_receipt": 5}, "calls": calls,
                            "plan": {"exchanges": [dict(ok, receipt=r0)], "default": ok}})
    # the terminal issues the same receipt number twice: both tokens are open, each closes on its own
    for r in (7, 9999):
        for closing in ("commit", "cancel"):
            calls = [{"op": "begin", "token": [65], "amount": []}, {"op": "begin", "token": [66], "amount": []}, {"op": "begin", "token": [67], "amount": []},
                     {"op": closing, "token": [65], "amount": [1]}, {"op": closing, "token": [66], "amount": [1]}, {"op": closing, "token": [65], "amount": [1]}]
            out.append({"config": {"max": 2}, "term": {"next_receipt": 1}, "calls": calls,
                        "plan": {"exchanges": [dict(ok, receipt=r), dict(ok, receipt=r)], "default": ok}})
    # closing one token fails at the terminal with every abort code there is - the other open token stays what it was: begin on it is
    # refused, commit acts on its receipt number, and a third token still fits under the maximum
    for code in range(256):
        for closing in ("commit", "cancel"):
            calls = [{"op": "begin", "token": [65], "amount": []}, {"op": "begin", "token": [66], "amount": []},
                     {"op": closing, "token": [65], "amount": [1]}, {"op": "begin", "token": [66], "amount": []},
                     {"op": "begin", "token": [67], "amount": []}, {"op": "commit", "token": [66], "amount": [1]}]
            out.append({"config": {"max": 2 + code % 2}, "term": {"next_receipt": 11}, "calls": calls,
                        "plan": {"exchanges": [ok, ok, {"o": "abort", "code": code}], "default": ok}})
    # ... and when the abort itself names a receipt number (2.10.1) - the other token's, its own, none, an unknown one
    for code in (0xb8, 0x6c, 0x05, 0xb4, 0xff):
        for named in (12, 11, 65535, 4711):
            for closing in ("commit", "cancel"):
                calls = [{"op": "begin", "token": [65], "amount": []}, {"op": "begin", "token": [66], "amount": []},
                         {"op": closing, "token": [65], "amount": [1]}, {"op": "begin", "token": [66], "amount": []},
                         {"op": "commit", "token": [66], "amount": [1]}]
                out.append({"config": {"max": 2}, "term": {"next_receipt": 11}, "calls": calls,
                            "plan": {"exchanges": [ok, ok, {"o": "abort", "code": code, "abort_receipt": named}], "default": ok}})
    return out


def run(chk):
    wd = vlib.workdir("C07")
    thorough = chk.tier == "thorough"
    binary = vlib.harness_build()
    cl.model_check(chk, 4 if thorough else 3, big=False)
    cl.model_check_refinement(chk, 3 if thorough else 2)
    if thorough:
        cl.model_check(chk, 3, big=True)
        cl.apalache_txnmap(chk)
    sc = cl.model_scenarios(chk, 2) + cl.model_scenarios(chk, 3, keep_every=1 if thorough else 24, offset=chk.seed)
    walks = cl.random_walks(chk.seed, 2000 if thorough else 100, 40, read_card=True, configure=True)
    sim = similar_tokens()
    scripts = cl.script_walks(chk, binary, wd, chk.seed + 7, 2000 if thorough else 150)
    out = cl.run_scenarios(binary, sc + sim + walks + scripts, wd, "c07")
    outs, ifl, pfl = cl.validate(chk, out, wd, "c07", shard=1500 if thorough else 400)
    cl.report(chk, outs, ifl, pfl, {"P07", "abnormal"}, WHAT)
    chk.cov["traces_validated_against_impl"] = len(outs)
    chk.cov["reply_script_walks"] = len(scripts)
    chk.cov["evaluations"] = len(outs)
    chk.cov["distinct_nontrivial"] = len(sc)
    chk.cov["random_walks"] = len(walks)
    chk.cov["similar_token_histories"] = len(sim)
    chk.cov["rule"] = ("spec -> impl: every history of 2 calls and %s history of 3 calls of MC_Client (begin/commit/cancel over 2 tokens, max 0..2, "
                       "every terminal outcome, terminal with and without a dangling pre-authorisation) replayed against the real client through the "
                       "simulated terminal; impl -> spec: seeded random walks of up to 40 calls over up to 8 tokens, max 0..3, random outcomes. Every "
                       "trace is validated by TLC: each request decoded with the reference codec and compared with the I-spec's, each result "
                       "compared, and P_C07 evaluated from observed results and receipts only. distinct_nontrivial = replayed model histories" % (
                           "every" if thorough else "every 24th"))
    if sc:
        s = sc[len(sc) // 2]
        chk.sample({"max": s["config"]["max"], "dangling": s["term"]["dangling"], "calls": s["calls"], "terminal_outcomes": s["plan"]["exchanges"],
                    "expected_results": [(e["ok"], e["err"]["class"]) for e in s["expect"]]})
    chk.assumptions += ["the connection is fault-free in these scenarios (C07's quantifier); faults are C09/C10",
                        "the simulated terminal (harness/src/client.rs) replaces the network through the zvt_verif hook"]
