"""C17 - scalar, text and tag encodings round-trip over their whole domain."""
import filecmp
import json
import os
import re

import vlib


def judge_tables(chk, d, pid_label="C17", parallel=12):
    files = sorted(f for f in os.listdir(d) if f.endswith(".json"))

    def one(f):
        return f, vlib.tlc("codec/TraceScalar.tla", workers=1, env={"SCALAR_TABLE": os.path.join(d, f)},
                           xmx="3g", tag=f, timeout=3000)
    total = 0
    for f, r in vlib.parallel(one, files, parallel):
        vlib.tlc_must_pass(r, "TraceScalar " + f)
        chk.cov["states"] += r.distinct
        chk.cov["transitions"] += r.generated
        bad = [int(x) for x in re.findall(r'<<"BAD", (\d+)>>', r.out)]
        kind = [int(x) for x in re.findall(r'<<"KIND", (\d+)>>', r.out)]
        rows = json.load(open(os.path.join(d, f)))["rows"]
        total += len(rows)
        if f in ("sc_Bcd_u64.json", "sc_Text_string.json", "sc_TagDef_tag.json"):
            chk.sample(rows[len(rows) // 2])
        for i in kind[:5]:
            chk.drift("L1-scalar", "error kind", rows[i - 1])
        for i in bad:
            row = rows[i - 1]
            what = "panic" if row["st"] == "panic" else ("no error" if row["st"] == "ok" and row["op"] == "dec" else "wrong result")
            # stable key: encoding, type, operation and the way it fails
            key = "%s:%s:%s:%s" % (row["enc"], row["ty"], row["op"], what)
            chk.violation(key, "%s<%s> %s of %s: real code gave st=%s out=%s rest=%s" % (
                row["enc"], row["ty"], row["op"], row["in"], row["st"], row["out"], row["rest"]), row)
    return total, len(files)


def run(chk):
    wd = vlib.workdir("C17")
    r = vlib.tlc("codec/MC_Encoding.tla", workers=vlib.NCPU if chk.tier == "thorough" else 8)
    vlib.tlc_must_pass(r, "MC_Encoding")
    chk.add_tlc("MC_Encoding: u8/u16/all tags exhaustively, wide integers at every digit/byte boundary, BCD nibble classes, CP437 pairs, receipts", r)
    if r.violated:
        raise vlib.ToolError("the encoding specification itself violates %s" % r.violated)
    dbg = vlib.harness_build()
    rel = vlib.harness_build(release=True)
    d1, d2 = os.path.join(wd, "debug"), os.path.join(wd, "release")
    vlib.harness_run(dbg, ["scalar-table", d1, chk.seed, chk.tier])
    vlib.harness_run(rel, ["scalar-table", d2, chk.seed, chk.tier])
    # debug and release builds must behave identically (overflow checks on / off)
    differing = [f for f in sorted(os.listdir(d1)) if not filecmp.cmp(os.path.join(d1, f), os.path.join(d2, f), shallow=False)]
    for f in differing:
        a = json.load(open(os.path.join(d1, f)))["rows"]
        b = json.load(open(os.path.join(d2, f)))["rows"]
        for x, y in zip(a, b):
            if x != y:
                chk.violation("%s:%s:%s:debug-release" % (x["enc"], x["ty"], x["op"]),
                              "debug and release builds disagree on %s<%s> %s of %s: %s/%s vs %s/%s" % (
                                  x["enc"], x["ty"], x["op"], x["in"], x["st"], x["out"], y["st"], y["out"]),
                              {"debug": x, "release": y})
                break
    total, nfiles = judge_tables(chk, d1)
    chk.cov["model_runs"].append({"model": "TraceScalar: %d tables of the real encoders/decoders judged row by row" % nfiles})
    chk.cov["traces_validated_against_impl"] = total
    chk.cov["evaluations"] = 2 * total
    chk.cov["distinct_nontrivial"] = total
    chk.cov["debug_release_tables_identical"] = not differing
    chk.cov["rule"] = ("one row per call of a real encoder/decoder: u8, u16 and all 65,536 tags in both tag encodings exhaustively; all 0-2 byte "
                       "inputs through the u16/tag/text/receipt parsers; u32/u64/usize at digit- and byte-count boundaries +-1 plus seeded random; "
                       "BCD inputs over nibble classes {0,9,A,F} (all up to length 3/4, structured to 11); CP437 all bytes in all positions of "
                       "short strings; hex to 64 bytes; UTF-8 incl. ill-formed; calendar grid for TLV date/time. Rows are distinct by construction "
                       "(inputs are de-duplicated per table); evaluations counts the debug and the release build")
    chk.cov["exhaustive"] = False
    chk.assumptions += ["SANY/TLC 1.8.0, CommunityModules Json", "CP437 table from Python's codec (spec/common/CP437.tla)",
                        "the harness table writer (scalars.rs); an error of a different kind than the spec names is model drift, not a violation"]
