"""C06 - a failed exchange yields exactly one error, then silence."""
import seq_common

WHAT = {"P06-one-error": "more than one error item",
        "P06-silence": "something is written, read or yielded after the error",
        "P06-answered-bad-frame": "the failing frame was answered (the error does not directly follow the failing read)",
        "P06-end": "the stream does not end (exactly once)",
        "P06-error-count": "the number of error items is not what the script demands"}


def run(chk):
    seq_common.run_sequence_check(chk, "P06", WHAT)
