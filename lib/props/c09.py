"""C09 - a connection that saw a failure is never reused; fresh ones are vetted."""
import random

import vlib
import client_common as cl

WHAT = {"P09-new-connection-before-failed-one-closed": "a new connection was opened before the one that saw the failure was closed",
        "P09-reconnect-although-connection-healthy": "the client reconnected although its connection had completed its last exchange normally",
        "P09-healthy-connection-dropped": "a connection that completed its exchanges normally was dropped and replaced",
        "P09-frame-on-connection-that-saw-a-failure": "a frame was sent on a connection after a failure on it",
        "P09-command-to-foreign-terminal": "a command was sent to a terminal that reported a different serial number",
        "P09-registration": "a fresh connection did not start with Registration(configured password, 0xDE, configured currency)",
        "P09-identity-request": "the identity check request is not the Feig system-information request",
        "P09-command-on-unvetted-connection": "a command was sent on a connection that had not passed registration and the identity check"}


def multi_fault(seed, count):
    rnd = random.Random(seed)
    kinds = ["close", "garbage", "malformed", "partial", "partial_close", "nack", "silence", "dup_field"]
    out = []
    for _ in range(count):
        calls = [{"op": rnd.choice(["read_card", "begin", "configure"]), "token": [97], "amount": [1]} for _ in range(rnd.randrange(1, 4))]
        if rnd.random() < 0.5:
            calls.append({"op": rnd.choice(["commit", "cancel"]), "token": [97], "amount": [1]})
        calls.append({"op": "read_card"})
        ok = {"o": "ok", "status": {"amount": [1]}, "uid": [1, 2, 3, 4]}
        ex = []
        for _ in range(40):
            p = dict(ok)
            if rnd.random() < 0.3:
                p["fault"] = {"pos": rnd.randrange(0, 3), "kind": rnd.choice(kinds)}
            ex.append(p)
        hs = []
        for _ in range(12):
            k = rnd.random()
            if k < 0.55:
                hs.append({})
            elif k < 0.65:
                hs.append({"connect": rnd.choice(["refused", "stall"])})
            elif k < 0.75:
                hs.append({"sysinfo": {"serial": "DEADBEEF"}})
            else:
                hs.append({rnd.choice(["registration", "sysinfo"]): {"fault": {"pos": rnd.randrange(0, 2), "kind": rnd.choice(kinds)}}})
        out.append({"start": rnd.choice(["connected", "disconnected"]), "calls": calls, "plan": {"exchanges": ex, "handshake": hs, "default": ok},
                    "config": {"serial": rnd.choice(["17FD1E3C", "17fd1e3c"])}})
    return out


def serial_variants():
    """The configured serial number is only a prefix / suffix of the one the terminal reports, or empty: a different serial number."""
    ok = {"o": "ok", "status": {"amount": [1]}, "uid": [1, 2, 3, 4]}
    out = []
    for serial in ("17FD", "", "17FD1E3", "7FD1E3C", "1E3C", "17FD1E3C0"):
        for calls in ([{"op": "read_card"}, {"op": "begin", "token": [97], "amount": []}],
                      [{"op": "configure"}, {"op": "read_card"}]):
            out.append({"start": "disconnected", "calls": calls, "plan": {"exchanges": [], "handshake": [], "default": ok},
                        "config": {"serial": serial}})
    # serial numbers that are no hexadecimal numbers, differing in one character
    for cfg_serial, term_serial in (("PT-00017", "PT-00018"), ("PT-00017", "PT-00017"), ("ZZZZZZZZ", "YYYYYYYY"), ("1234567G", "1234567H")):
        for calls in ([{"op": "read_card"}, {"op": "begin", "token": [97], "amount": []}], [{"op": "configure"}, {"op": "read_card"}]):
            out.append({"start": "disconnected", "calls": calls, "term": {"serial": term_serial},
                        "plan": {"exchanges": [], "handshake": [], "default": ok}, "config": {"serial": cfg_serial}})
    return out


def slow_construction():
    """Feig::new against a terminal that stalls twice in a row in one exchange of the configuration, then a further operation: whatever
    the constructor gives up on, the connection that saw the stall is not used again."""
    ok = {"o": "ok", "status": {"amount": [1]}, "uid": [1, 2, 3, 4]}
    sil = dict(ok, fault={"pos": 0, "kind": "silence"})
    sil1 = dict(ok, fault={"pos": 1, "kind": "silence"})
    out = []
    for k in range(6):
        for s in (sil, sil1):
            for n in (2, 3):
                out.append({"start": "disconnected", "calls": [{"op": "new"}, {"op": "read_card"}, {"op": "read_card"}],
                            "plan": {"exchanges": [ok] * k + [s] * n, "handshake": [], "default": ok}, "config": {"terminal_id": "11112222"}})
    return out


def slow_and_declined(ppt):
    """Exchanges that are slow but healthy - several packets, every gap well below the per-packet timeout, the whole exchange longer than
    it (a customer typing a PIN, a terminal talking to its host) - keep the connection; a payment the terminal declines with a status
    information (result code set) followed by the abort is an exchange like any other: whatever the client makes of it, the next
    operation runs on a sound connection."""
    ok = {"o": "ok", "status": {"amount": [1]}, "uid": [1, 2, 3, 4]}
    gap = ppt * 1000 * 5 // 12           # 25 s for the shipped 60 s
    out = []
    for n in (2, 3, 5):
        slow = dict(ok, inter=n, delays=[gap] * (n + 3))
        for calls in ([{"op": "begin", "token": [97], "amount": []}, {"op": "begin", "token": [98], "amount": []}],
                      [{"op": "begin", "token": [97], "amount": []}, {"op": "commit", "token": [97], "amount": [1]}, {"op": "read_card"}],
                      [{"op": "begin", "token": [97], "amount": []}, {"op": "cancel", "token": [97], "amount": []}, {"op": "read_card"}],
                      [{"op": "configure"}, {"op": "read_card"}]):
            out.append({"config": {"max": 2}, "calls": calls, "plan": {"exchanges": [slow], "default": ok}})
            out.append({"config": {"max": 2}, "calls": calls, "plan": {"exchanges": [ok, slow], "default": ok}})
            out.append({"config": {"max": 2}, "calls": calls, "plan": {"exchanges": [ok, ok, slow], "default": ok}})
    # a caller that comes back after a quarter of an hour, an hour, a day: a connection that saw no failure is still the connection
    for idle in (16 * 60000, 3600000, 86400000):
        for calls in ([{"op": "read_card"}, {"op": "read_card", "idle_ms": idle}],
                      [{"op": "begin", "token": [97], "amount": []}, {"op": "commit", "token": [97], "amount": [1], "idle_ms": idle}, {"op": "read_card", "idle_ms": idle}]):
            out.append({"config": {"max": 2}, "calls": calls, "plan": {"exchanges": [], "default": ok}})
    for code in (5, 0x6c, 0xff):
        for res in (5, 0x6c, 1, 255):
            declined = {"o": "abort", "code": code, "status_first": True, "status_result": res}
            for nxt in ({"op": "begin", "token": [98], "amount": []}, {"op": "read_card"}, {"op": "begin", "token": [97], "amount": []}):
                out.append({"config": {"max": 2}, "calls": [{"op": "begin", "token": [97], "amount": []}, nxt, {"op": "read_card"}],
                            "plan": {"exchanges": [declined], "default": ok}})
    return out


def content_errors():
    """A reply that is framed correctly, carries an expected control field and cannot be decoded because of what is in it (a field
    twice) is an undecodable reply like any other: the connection that delivered it is not used again."""
    ok = {"o": "ok", "status": {"amount": [1]}, "uid": [1, 2, 3, 4]}
    out = []
    for calls in ([{"op": "read_card"}, {"op": "read_card"}], [{"op": "begin", "token": [97], "amount": []}, {"op": "read_card"}],
                  [{"op": "begin", "token": [97], "amount": []}, {"op": "commit", "token": [97], "amount": [1]}, {"op": "read_card"}],
                  [{"op": "configure"}, {"op": "read_card"}]):
        for k in range(0, 4):
            for pos in (1, 2):
                out.append({"config": {"max": 2}, "calls": calls,
                            "plan": {"exchanges": [ok] * k + [dict(ok, inter=1, fault={"pos": pos, "kind": "dup_field"})], "default": ok}})
    return out


def run(chk):
    wd = vlib.workdir("C09")
    thorough = chk.tier == "thorough"
    binary = vlib.harness_build()
    cl.model_check_stream(chk)
    if thorough:
        cl.apalache_inductive(chk)
    ppt, rcm = cl.calibrate(chk, binary)
    sc = cl.gen_scenarios(chk, "C09", thorough, ppt, rcm)
    walks = multi_fault(chk.seed, 5000 if thorough else 200)
    out = cl.run_scenarios(binary, sc + serial_variants() + slow_construction() + slow_and_declined(ppt) + content_errors() + walks, wd, "c09")
    outs, pfl = cl.validate_conn(chk, out, wd, "c09", shard=200, ppt=ppt, rcm=rcm)
    cl.report_conn(chk, outs, pfl, {"P09"}, WHAT)
    cl.validate_stream(chk, out, wd, "c09", ppt=ppt, rcm=rcm)
    chk.cov["traces_validated_against_impl"] = len(outs)
    chk.cov["evaluations"] = len(outs)
    chk.cov["distinct_nontrivial"] = len(sc)
    chk.cov["rule"] = ("TLC generates single-fault scenarios: {read_card, begin, commit, cancel, configure} x every exchange of the operation x every "
                       "frame position (acknowledgement included) x {close, garbage, malformed, partial frame, partial frame + close, NACK, silence}, "
                       "and on a fresh connection {connect refused, connect stall, foreign serial, each fault at each frame of registration and of the "
                       "identity check; the client's own write failing once - of the command or of an acknowledgement}; terminals reporting a serial that "
                       "differs in one character or is shorter, configurations whose serial is a proper prefix / suffix of the reported one or empty; each followed by a further read_card to observe reuse. Plus seeded multi-fault walks. The real client runs "
                       "against the simulated terminal on the paused clock; TLC runs the P_C09 acceptor over the per-connection log")
    chk.sample({"calls": [c["op"] for c in sc[len(sc) // 2]["calls"]], "plan": str(sc[len(sc) // 2]["plan"])[:400]})
    chk.assumptions += ["a connection also counts as having seen a failure when the client itself leaves an exchange unfinished on it (AbandonExchange, O2)",
                        "the in-memory connector replaces TCP (no half-open sockets)"]
