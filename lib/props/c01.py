"""C01 - every packet value survives serialise -> deserialise unchanged."""
import collections

import vlib
import codec_common as cc

WHAT = {"value": "the decoded value differs from the value that was encoded (a field was dropped, truncated or altered)",
        "rt": "serialising the decoded value and deserialising it again does not give an equal value with no bytes left",
        "ref-ok-impl-err": "the real decoder rejects the reference encoding of a canonical value",
        "reenc-panic": "serialising a canonical value panics"}


def run(chk):
    wd = vlib.workdir("C01")
    binary = vlib.harness_build()
    thorough = chk.tier == "thorough"
    cases = cc.gen_values(chk, big=thorough, workers=vlib.NCPU if thorough else 8)
    layout = cc.export_layout(wd)
    rnd = cc.random_cases(binary, layout, chk.seed, 200000 if thorough else 5000, "rand", wd, "rand")
    rec = cc.run_cases(binary, cases + rnd, wd, "c01")
    flagged, n = cc.judge(chk, rec, wd, "c01", shard=3000 if thorough else 800)
    ncanon = sum(1 for c in cases if c["cls"] == "canon")
    noncanon = sum(1 for r, f in flagged if "noncanon" in f)
    chk.cov["traces_validated_against_impl"] = n
    chk.cov["evaluations"] = n
    chk.cov["distinct_nontrivial"] = ncanon
    chk.cov["random_records"] = len(rnd)
    chk.cov["noncanonical_skipped"] = noncanon
    chk.cov["rule"] = ("spec -> impl: every field x every boundary value (others minimal / typical) of all 55 types, reference-encoded by TLC, decoded, "
                       "re-encoded and decoded again by the real code; impl -> spec: seeded structure-aware random bodies decoded and re-encoded by "
                       "the real code; TLC decides canonicity (fixed point of the reference codec) and compares. distinct_nontrivial = canonical "
                       "generated values (distinct generator states)")
    chk.sample({"ty": cases[777]["ty"], "bytes": cc.hexs(cases[777]["in"])})
    chk.sample({"ty": rnd[5]["ty"], "random": True, "bytes": cc.hexs(rnd[5]["in"])})
    for r, flags in flagged:
        if cc.report_common(chk, r, flags, claim_total=False):
            continue
        cls = r.get("cls")
        bad = set()
        if cls == "canon":
            bad |= flags & {"value", "rt", "ref-ok-impl-err"}
        else:
            # a value the real decoder produced: if it is canonical it must survive the round trip
            bad |= flags & {"rt"}
        if "reenc" in flags and r.get("ost") == "panic":
            bad.add("reenc-panic")
        for f in sorted(bad):
            chk.violation("%s:%s" % (r["ty"], f), "%s (%s): %s; bytes %s" % (r["ty"], cls, WHAT[f], cc.hexs(r["in"])), cc.short(r))
        if not bad and flags & cc.DRIFT_FLAGS:
            chk.drift("L1-codec", "%s %s %s" % (r["ty"], cls, sorted(flags)), cc.short(r, 24))
    chk.assumptions += ["canonical domain = DESIGN.md 5.1, decided per value by the reference codec (Canonical in ZvtCodec.tla)",
                        "values reach the real encoder through the real decoder (Debug is the observation point); the reference bytes come from the spec"]
