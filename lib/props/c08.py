"""C08 - commit releases exactly the unused part of the pre-authorisation."""
import vlib
import client_common as cl

WHAT = {"P08-reservation": "a reservation was not requested for the configured amount and currency with the token as reference",
        "P08-release-amount": "commit did not release exactly max(pre-authorised - final, 0)",
        "P08-release-wiring": "the release does not carry the configured currency / the reservation's receipt number / the token",
        "P08-summary": "the summary does not reproduce the amount, trace number, date, time and terminal id the terminal reported"}


def refused_then_again():
    """Two reservations are open; the terminal refuses the release of one - with a plain abort, or with one that names the receipt
    number of the other - and the caller commits (and cancels) again: every release that carries a token carries that token's receipt."""
    okp = {"o": "ok", "status": {"amount": [1]}}
    out = []
    for r0 in (17, 9998):
        for code in (184, 180, 5):
            for named in (None, r0, r0 + 1, 65535):
                ab = {"o": "abort", "code": code}
                if named is not None:
                    ab["abort_receipt"] = named
                for closing in ("commit", "cancel"):
                    calls = [{"op": "begin", "token": [65], "amount": []}, {"op": "begin", "token": [66], "amount": []},
                             {"op": "commit", "token": [66], "amount": [1]}, {"op": "commit", "token": [66], "amount": [1]},
                             {"op": closing, "token": [65], "amount": [2]}, {"op": "begin", "token": [66], "amount": []},
                             {"op": "commit", "token": [66], "amount": [3]}]
                    out.append({"config": {"max": 2}, "term": {"next_receipt": r0}, "calls": calls,
                                "plan": {"exchanges": [okp, okp, ab], "default": okp}})
    return out


def card_first():
    """What the card presented just before says about itself (limits, application, names) does not change what is reserved or released:
    read_card answered with a status information carrying every TLV element the library decodes, then begin and commit."""
    def ber(tag, body):
        t = [tag >> 8, tag & 255] if tag > 255 else [tag]
        return t + [len(body)] + list(body)
    def bcd(n, nbytes):
        d = "%0*d" % (2 * nbytes, n)
        return [int(d[i]) * 16 + int(d[i + 1]) for i in range(0, len(d), 2)]
    uid = ber(0x4c, [0x04, 0xa1, 0xb2, 0xc3])
    app = ber(0x60, ber(0x43, [0xa0, 0, 0, 0, 4, 0x10, 0x10]))
    out = []
    k = 0
    for limit in (0, 1, 99, 2499, 2500, 2501, 10 ** 6, 10 ** 12 - 1):
        for nb in (6, 3):
            for around in (uid, uid + app, app):
                for pre in (2500, 100):
                    body = ber(0x1f0b, bcd(limit % (100 ** nb), nb)) + around
                    bmp06 = [0x06, len(body)] + body
                    fb = [0x27, 0x00] + bmp06
                    frame = [0x04, 0x0f, len(fb)] + fb
                    k += 1
                    calls = [{"op": "read_card"}, {"op": "begin", "token": [97], "amount": []},
                             {"op": "commit", "token": [97], "amount": [[], [1], [2, 5, 0, 0], [9, 9, 9, 9, 9]][k % 4]}]
                    if k % 3 == 0:
                        calls = calls[:2] + [{"op": "read_card"}, {"op": "begin", "token": [98], "amount": []}] + calls[2:]
                    out.append({"config": {"pre": [int(c) for c in str(pre)], "max": 2}, "calls": calls,
                                "plan": {"exchanges": [], "scripts": {"ReadCard": [{"script": [frame]}]},
                                         "default": {"o": "ok", "status": {"amount": [1]}, "uid": [1, 2, 3, 4]}}})
    return out


def two_statuses():
    """The release answered by two status informations: the summary reproduces what the terminal reported last - a field the last one does
    not carry is not filled in from an earlier one."""
    full = {"amount": [1, 2, 3], "trace": [9, 7, 6], "date": [4, 0, 6], "time": [1, 0, 1, 5, 0, 0], "terminal_id": [5, 2, 5, 0, 0, 0, 4, 1]}
    other = {"amount": [7], "trace": [1], "date": [1, 2, 3, 1], "time": [2, 3, 5, 9, 5, 9], "terminal_id": [1]}
    out = []
    variants = [{}] + [{k: v for k, v in full.items() if k != drop} for drop in full] + [{k: full[k]} for k in full] + [other, dict(other, amount=None)]
    for first in (full, other, {}):
        for second in variants:
            second = {k: v for k, v in second.items() if v is not None}
            out.append({"config": {"max": 1}, "calls": [{"op": "begin", "token": [97], "amount": []}, {"op": "commit", "token": [97], "amount": [1]}],
                        "plan": {"exchanges": [{"o": "ok", "status": {"amount": [1]}}, {"o": "ok", "status": first, "status2": second}],
                                 "default": {"o": "ok", "status": {"amount": [1]}}}})
    return out


def named_currencies():
    """The configuration as an application writes it: the currency by its ISO 4217 name. Whatever names the library accepts, the
    reservation and the release go out in the currency the name stands for."""
    out = []
    for name in list(cl.ISO_4217) + ["sek", "Eur", "gbp", "XXX", ""]:
        out.append({"config": {"currency_name": name, "max": 1},
                    "calls": [{"op": "begin", "token": [97], "amount": []}, {"op": "commit", "token": [97], "amount": [1]}],
                    "plan": {"exchanges": [], "default": {"o": "ok", "status": {"amount": [1]}}}})
    return out


def run(chk):
    wd = vlib.workdir("C08")
    thorough = chk.tier == "thorough"
    binary = vlib.harness_build()
    cl.model_check(chk, 3, big=False)      # small amounts 0..3 inside the history model
    sc = cl.gen_scenarios(chk, "C08", thorough)
    walks = cl.random_walks(chk.seed + 8, 3000 if thorough else 300, 6)
    again = refused_then_again()
    scripts = cl.script_walks(chk, binary, wd, chk.seed + 8, 2000 if thorough else 150)
    cards = card_first() + two_statuses() + named_currencies()
    out = cl.run_scenarios(binary, sc + again + walks + scripts + cards, wd, "c08")
    outs, ifl, pfl = cl.validate(chk, out, wd, "c08", shard=600)
    cl.report(chk, outs, ifl, pfl, {"P08", "abnormal"}, WHAT)
    chk.cov["traces_validated_against_impl"] = len(outs)
    chk.cov["reply_script_walks"] = len(scripts)
    chk.cov["evaluations"] = len(outs)
    chk.cov["distinct_nontrivial"] = len(sc)
    chk.cov["refused_release_histories"] = len(again)
    chk.cov["card_first_histories"] = len(cards)
    chk.cov["rule"] = ("TLC generates the boundary grid: pre-authorised amounts {0, 1, 9, 10, 2500, 10^6-1, 10^6, 10^11, 10^12-1%s} x final amounts "
                       "{0, pre-1, pre, pre+1, 2^32-1, 2^32, 2^63, u64::MAX, ..} x currencies {752, 826, 978} x receipt numbers 1..9999 x tokens over "
                       "the CP437 alphabet x status-field shapes; begin + commit run against the real client; TLC decodes the requests with the "
                       "reference codec and compares amount (decimal SatSub), currency, receipt, reference and the summary. Plus random walks with "
                       "random amounts" % (", every digit count" if thorough else ""))
    chk.sample({"config": sc[len(sc) // 2]["config"], "calls": sc[len(sc) // 2]["calls"]})
    chk.assumptions += ["amounts above 10^12-1 cannot be carried by the 6-byte BCD field and are outside the property's domain"]
