"""C08 - commit releases exactly the unused part of the pre-authorisation."""
import vlib
import client_common as cl

WHAT = {"P08-reservation": "a reservation was not requested for the configured amount and currency with the token as reference",
        "P08-release-amount": "commit did not release exactly max(pre-authorised - final, 0)",
        "P08-release-wiring": "the release does not carry the configured currency / the reservation's receipt number / the token",
        "P08-summary": "the summary does not reproduce the amount, trace number, date, time and terminal id the terminal reported"}


def refused_then_again():
    """Two reservations are open; the terminal refuses the release of one - with a plain abort, or with one that names the receipt
    number of the other - and the caller commits (and cancels) again: every release that carries a token carries that token's receipt."""
    okp = {"o": "ok", "status": {"amount": [1]}}
    out = []
    for r0 in (17, 9998):
        for code in (184, 180, 5):
            for named in (None, r0, r0 + 1, 65535):
                ab = {"o": "abort", "code": code}
                if named is not None:
                    ab["abort_receipt"] = named
                for closing in ("commit", "cancel"):
                    calls = [{"op": "begin", "token": [65], "amount": []}, {"op": "begin", "token": [66], "amount": []},
                             {"op": "commit", "token": [66], "amount": [1]}, {"op": "commit", "token": [66], "amount": [1]},
                             {"op": closing, "token": [65], "amount": [2]}, {"op": "begin", "token": [66], "amount": []},
                             {"op": "commit", "token": [66], "amount": [3]}]
                    out.append({"config": {"max": 2}, "term": {"next_receipt": r0}, "calls": calls,
                                "plan": {"exchanges": [okp, okp, ab], "default": okp}})
    return out


def run(chk):
    wd = vlib.workdir("C08")
    thorough = chk.tier == "thorough"
    binary = vlib.harness_build()
    cl.model_check(chk, 3, big=False)      # small amounts 0..3 inside the history model
    sc = cl.gen_scenarios(chk, "C08", thorough)
    walks = cl.random_walks(chk.seed + 8, 3000 if thorough else 300, 6)
    again = refused_then_again()
    scripts = cl.script_walks(chk, binary, wd, chk.seed + 8, 2000 if thorough else 150)
    out = cl.run_scenarios(binary, sc + again + walks + scripts, wd, "c08")
    outs, ifl, pfl = cl.validate(chk, out, wd, "c08", shard=600)
    cl.report(chk, outs, ifl, pfl, {"P08", "abnormal"}, WHAT)
    chk.cov["traces_validated_against_impl"] = len(outs)
    chk.cov["reply_script_walks"] = len(scripts)
    chk.cov["evaluations"] = len(outs)
    chk.cov["distinct_nontrivial"] = len(sc)
    chk.cov["refused_release_histories"] = len(again)
    chk.cov["rule"] = ("TLC generates the boundary grid: pre-authorised amounts {0, 1, 9, 10, 2500, 10^6-1, 10^6, 10^11, 10^12-1%s} x final amounts "
                       "{0, pre-1, pre, pre+1, 2^32-1, 2^32, 2^63, u64::MAX, ..} x currencies {752, 826, 978} x receipt numbers 1..9999 x tokens over "
                       "the CP437 alphabet x status-field shapes; begin + commit run against the real client; TLC decodes the requests with the "
                       "reference codec and compares amount (decimal SatSub), currency, receipt, reference and the summary. Plus random walks with "
                       "random amounts" % (", every digit count" if thorough else ""))
    chk.sample({"config": sc[len(sc) // 2]["config"], "calls": sc[len(sc) // 2]["calls"]})
    chk.assumptions += ["amounts above 10^12-1 cannot be carried by the 6-byte BCD field and are outside the property's domain"]
