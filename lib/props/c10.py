"""C10 - no terminal stall or configuration value can hang a client call."""
import vlib
import client_common as cl

WHAT = {"P10-call-does-not-return": "a public call did not return within one virtual day",
        "P10-panic": "a public call panicked",
        "P10-timeout-collapsed": "the terminal answered within the configured card-reading time but the client had already given up (timeout collapsed)",
        "P10-unbounded": "a public call took more than one virtual day"}


def run(chk):
    wd = vlib.workdir("C10")
    thorough = chk.tier == "thorough"
    dbg = vlib.harness_build()
    rel = vlib.harness_build(release=True)
    cl.model_check_stream(chk)
    ppt, rcm = cl.calibrate(chk, dbg)
    sc = cl.gen_scenarios(chk, "C10", thorough, ppt, rcm)
    # configuration extremes
    extremes = []
    for cfg in ({"pre": [9] * 12, "password": 999999, "max": 0}, {"pre": [], "password": 0, "max": 1000000}, {"pre": [1], "max": 3, "currency": 752},
                {"terminal_id": "", "max": 1}, {"terminal_id": "99999999", "max": 1}, {"terminal_id": "1", "max": 1}, {"terminal_id": "0052", "max": 1},
                {"terminal_id": "abc", "max": 1}, {"terminal_id": "00000000", "max": 1}, {"serial": "", "max": 1}, {"read_card_timeout": 255, "max": 1},
                {"read_card_timeout": 0, "max": 1}):
        for calls in ([{"op": "new"}, {"op": "begin", "token": [97]}, {"op": "commit", "token": [97], "amount": [1]}, {"op": "read_card"}],
                      [{"op": "begin", "token": [97]}, {"op": "cancel", "token": [97]}, {"op": "configure"}]):
            extremes.append({"config": cfg, "calls": calls, "plan": {"exchanges": [], "default": {"o": "ok", "status": {"amount": [1]}, "uid": [1, 2, 3, 4]}}})
    # the pending query answered by another packet first (the client gives the exchange up), then whatever follows
    okp = {"o": "ok", "status": {"amount": [1]}, "uid": [1, 2, 3, 4]}
    for kind in ("intermediate", "completion", "status"):
        for calls in ([{"op": "begin", "token": [97]}, {"op": "commit", "token": [97], "amount": [1]}, {"op": "read_card"}],
                      [{"op": "begin", "token": [97]}, {"op": "cancel", "token": [97]}, {"op": "read_card"}], [{"op": "configure"}, {"op": "read_card"}]):
            n = 3 if calls[0]["op"] == "configure" else 2
            extremes.append({"config": {"terminal_id": "11112222"}, "calls": calls,
                             "plan": {"exchanges": [okp] * n + [{"o": "unexpected", "kind": kind}], "default": okp}})
    # a dangling pre-authorisation whose reversal the terminal keeps refusing (it stays pending): the clean-up must give up
    for code in (180, 0, 255, 160):
        for calls in ([{"op": "begin", "token": [97]}, {"op": "commit", "token": [97], "amount": [1]}, {"op": "read_card"}],
                      [{"op": "begin", "token": [97]}, {"op": "cancel", "token": [97]}, {"op": "read_card"}], [{"op": "configure"}, {"op": "read_card"}]):
            n = 3 if calls[0]["op"] == "configure" else 2
            extremes.append({"config": {"terminal_id": "11112222"}, "term": {"dangling": [4711]}, "calls": calls,
                             "plan": {"exchanges": [okp] * n, "default": {"o": "abort", "code": code}}})
    # a terminal that refuses everything with the same code, and one that refuses but tolerates end-of-day with 'receiver not ready':
    # every operation must give up
    def ab(code, n=60):
        return [{"script": [[0x06, 0x1e, 0x01, code]], "repeat": True}]
    for code in (0x6a, 0xa0, 0xb4, 0x6c, 0xfc, 0x00, 0xff, 0x83):
        for calls in ([{"op": "begin", "token": [97]}, {"op": "read_card"}], [{"op": "configure"}], [{"op": "new"}, {"op": "begin", "token": [97]}]):
            extremes.append({"config": {"terminal_id": "11112222"}, "calls": calls, "plan": {"exchanges": [], "default": {"o": "abort", "code": code}}})
            extremes.append({"config": {"terminal_id": "11112222"}, "calls": calls,
                             "plan": {"exchanges": [], "scripts": {"EndOfDay": ab(0xa0), "Reservation": ab(code), "ReadCard": ab(code)}, "default": okp}})
    # five minutes of idle time, then a terminal that answers with an intermediate status and falls silent - in every exchange
    stall2 = dict(okp, inter=1, fault={"pos": 2, "kind": "silence"})
    stall1 = dict(okp, fault={"pos": 1, "kind": "silence"})
    for st in (stall1, stall2):
        for calls in ([{"op": "begin", "token": [97]}, {"op": "commit", "token": [97], "amount": [1], "idle_ms": 400000}],
                      [{"op": "read_card"}, {"op": "read_card", "idle_ms": 301000}], [{"op": "begin", "token": [97]}, {"op": "configure", "idle_ms": 3600000}]):
            extremes.append({"config": {"terminal_id": "11112222"}, "calls": calls, "plan": {"exchanges": [okp], "default": st}})
    # two transactions open, the terminal falls silent in the reversal that closes one of them
    for op in ("commit", "cancel"):
        for pos in (0, 1, 2):
            extremes.append({"config": {"max": 2}, "calls": [{"op": "begin", "token": [97]}, {"op": "begin", "token": [98]},
                                                              {"op": op, "token": [97], "amount": [1]}, {"op": "read_card"}],
                             "plan": {"exchanges": [okp, okp, dict(okp, fault={"pos": pos, "kind": "silence"})],
                                      "default": dict(okp, fault={"pos": pos, "kind": "silence"})}})
    # the largest values the configuration can hold (usize::MAX open transactions, ...) with the terminal silent in each exchange of
    # configure and of the clean-up: no configuration value enters a timeout
    big = 2 ** 64 - 1
    for cfg in ({"max": big}, {"max": 2 ** 32}, {"max": 2 ** 31 - 1, "pre": [9] * 12}, {"max": 65536, "read_card_timeout": 255}):
        for k in range(0, 5):
            for pos in (0, 1):
                sil = dict(okp, fault={"pos": pos, "kind": "silence"})
                extremes.append({"config": cfg, "calls": [{"op": "configure"}], "plan": {"exchanges": [okp] * k, "default": sil}})
                extremes.append({"config": cfg, "calls": [{"op": "begin", "token": [97]}, {"op": "commit", "token": [97], "amount": [1]}],
                                 "plan": {"exchanges": [okp] * (k + 1), "default": sil}})
    # an exchange of configure refused with any abort code, and a terminal that answers nothing (or an acknowledgement and an intermediate
    # status and then nothing) from then on - whatever the client decides to try next
    stall_mid = dict(okp, inter=1, fault={"pos": 2, "kind": "silence"})
    for code in range(256):
        for k in (0, 1, 2):
            if (code + k) % 3 and code not in (0xc2, 0x6a, 0xa0, 0xb4, 0xfc, 0x6c):
                continue
            for st in (stall1, stall_mid, dict(okp, fault={"pos": 0, "kind": "silence"})):
                extremes.append({"config": {"terminal_id": "11112222"}, "calls": [{"op": "configure"}],
                                 "plan": {"exchanges": [okp] * k + [{"o": "abort", "code": code}], "default": st}})
    # card data of every size (UIDs of 4 / 7 / 8 / 10 / 16 / 20 bytes, zero-padded or not): what a card says never keeps read_card busy
    for uid in ([4, 161, 178, 195], [4, 1, 2, 3, 4, 5, 6], [0xe0, 4, 1, 0, 0x12, 0x34, 0x56, 0x78], [0x88, 4, 1, 2, 3, 4, 5, 6, 7, 8],
                [0, 0, 0, 0xe0, 4, 1, 0, 0x12, 0x34, 0x56], list(range(1, 17)), [0xff] * 20, [0] * 12):
        extremes.append({"calls": [{"op": "read_card"}, {"op": "read_card"}], "plan": {"exchanges": [{"o": "status", "uid": uid}], "default": okp}})
    # a terminal that cannot be reached: every connection attempt refused at once (switched off, port closed), from the start or after
    # n attempts that stall; and one that comes back after 1 / 19 / 20 / 21 refusals
    ref = {"connect": "refused"}
    for calls in ([{"op": "read_card"}], [{"op": "begin", "token": [97]}], [{"op": "configure"}], [{"op": "new"}],
                  [{"op": "begin", "token": [97]}, {"op": "commit", "token": [97], "amount": [1]}]):
        extremes.append({"start": "disconnected", "calls": calls, "plan": {"exchanges": [], "handshake": [], "handshake_default": ref, "default": okp}})
        extremes.append({"start": "disconnected", "calls": calls,
                         "plan": {"exchanges": [], "handshake": [{"connect": "stall"}] * 3, "handshake_default": ref, "default": okp}})
        for n in (1, 19, 20, 21):
            extremes.append({"start": "disconnected", "calls": calls, "plan": {"exchanges": [], "handshake": [ref] * n, "default": okp}})
    # a connection lost in the middle of an operation, and nothing but refusals afterwards
    for k in range(0, 4):
        extremes.append({"calls": [{"op": "begin", "token": [97]}, {"op": "commit", "token": [97], "amount": [1]}, {"op": "read_card"}],
                         "plan": {"exchanges": [okp] * k + [dict(okp, fault={"pos": 1, "kind": "close"})], "handshake": [], "handshake_default": ref,
                                  "default": okp}})
    total = 0
    for label, binary in (("debug", dbg), ("release", rel)):
        out = cl.run_scenarios(binary, sc + extremes, wd, "c10" + label)
        outs, pfl = cl.validate_conn(chk, out, wd, "c10" + label, shard=200, ppt=ppt, rcm=rcm)
        cl.report_conn(chk, outs, pfl, {"P10"}, {k: v + " (%s build)" % label for k, v in WHAT.items()})
        if label == "debug":
            cl.validate_stream(chk, out, wd, "c10" + label, ppt=ppt, rcm=rcm)
        total += len(outs)
    chk.cov["traces_validated_against_impl"] = total
    chk.cov["evaluations"] = total
    chk.cov["distinct_nontrivial"] = len(sc)
    chk.cov["rule"] = ("TLC generates: a stall (silence, or half a frame then silence) at every frame of every exchange of {read_card, begin, commit, "
                       "cancel, configure} and of the handshake (connect stall, registration, identity check), read_card_timeout in %s; and for each "
                       "timeout value the terminal answering 'time-out' exactly that many seconds after the acknowledgement (the first attempt must "
                       "receive it); a reply one second before the per-packet timeout (60 s; read_card: t + 2) in every exchange of every operation (received with the shipped 60 s constant; a different constant is reported as MODEL-DRIFT, the property only demands a finite bound) and one second after it (the connection counts as failed: C09's acceptor runs on it). Plus configuration extremes. Every scenario runs in a debug and a release build on tokio's paused clock under a "
                       "one-virtual-day watchdog; TLC runs the P_C10 acceptor (returned, no panic, no collapse)" % (
                           "0..255" if thorough else "{0, 1, 15, 253, 254, 255}"))
    chk.sample({"calls": [c["op"] for c in sc[0]["calls"]], "config": sc[0]["config"], "plan": str(sc[0]["plan"])[:300]})
    chk.assumptions += ["time is tokio's paused clock; 'finite bound' is operationalised as one virtual day",
                        "ResetStream's liveness property Returns is checked under weak fairness with retry budget 3"]
