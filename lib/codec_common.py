"""Shared machinery of the codec-layer checks (C01, C02, C03, C13, C14)."""
import json
import os
import re
import subprocess

import vlib

CASE_RE = re.compile(r'^<<"CASE", (".*")>>$')


def parse_cases(out):
    cases = []
    for line in out.splitlines():
        m = CASE_RE.match(line)
        if m:
            cases.append(json.loads(json.loads(m.group(1))))
    return cases


def gen_values(chk, big=False, workers=1):
    """TLC enumerates the boundary values of every type with their reference bytes."""
    workers = 6   # the per-state work (Canonical) dominates here; the value table itself is cheap
    r = vlib.tlc("codec/Gen_Values.tla", workers=workers, xmx="8g", env={"GEN_BIG": "1" if big else "0"})
    vlib.tlc_must_pass(r, "Gen_Values")
    if r.violated:
        raise vlib.ToolError("Gen_Values violated " + r.violated)
    cases = parse_cases(r.out)
    if len(cases) != r.distinct:
        raise vlib.ToolError("Gen_Values: %d cases printed for %d states" % (len(cases), r.distinct))
    chk.add_tlc("Gen_Values: one state per (type, boundary value); reference bytes computed by the spec", r)
    # packets on both sides of the length switches (BER-TLV 127/128, 255/256, APDU 254/255)
    r2 = vlib.tlc("codec/Gen_Sized.tla", workers=8, xmx="8g", env={"GEN_BIG": "0"})
    vlib.tlc_must_pass(r2, "Gen_Sized")
    sized = parse_cases(r2.out)
    chk.add_tlc("Gen_Sized: every (type, growable leaf, base, leaf length 0..270) a state; %d packets with a body length at a switch printed" % len(sized), r2)
    return cases + sized


def blob_cases():
    """The captured packets shipped with the repository, against every type with that control field."""
    src = open(os.path.join(vlib.SPEC, "codec", "ZvtLayout.tla")).read()
    m = re.search(r"Command == \[(.*?)\]\n", src, re.S)
    cmd = {}
    for name, a, b in re.findall(r"(\w+) \|-> <<(\d+), (\d+)>>", m.group(1)):
        cmd.setdefault((int(a), int(b)), []).append(name)
    d = os.path.join(vlib.REPO, "zvt", "data")
    cases = []
    for f in sorted(os.listdir(d)):
        if f.endswith(".blob"):
            b = open(os.path.join(d, f), "rb").read()
            for t in cmd.get((b[0], b[1]), []):
                cases.append({"ty": t, "cls": "blob", "src": f, "in": list(b)})
    return cases


def run_cases(binary, cases, wd, label, timeout=1800):
    """Real code on every case. Returns the path of the record file (ndjson, same order)."""
    cin = os.path.join(wd, label + ".cases.ndjson")
    cout = os.path.join(wd, label + ".records.ndjson")
    vlib.write_ndjson(cin, cases)
    try:
        vlib.harness_run(binary, ["codec-run", cin, cout], timeout=timeout)
    except vlib.ToolError as e:
        if "timeout" not in str(e):
            raise
        # a hang inside the code under test is data: the first case without a record is the one that hangs
        done = sum(1 for _ in open(cout)) if os.path.exists(cout) else 0
        with open(cout, "a") as f:
            c = dict(cases[done])
            c.update({"st": "hang", "val": {}, "rest": 0, "kind": "", "tags": [], "ost": "none", "out": [], "rt": "none", "peak": 0})
            f.write(json.dumps(c) + "\n")
    return cout


def judge(chk, records_path, wd, label, shard=1500, par=14, xmx="3g"):
    """TLC validates every record against the reference codec. Returns [(record, flags)] for flagged records
    and the total number of records."""
    lines = open(records_path).read().splitlines()
    shards = []
    for k in range(0, len(lines), shard):
        p = os.path.join(wd, "%s.shard%d.ndjson" % (label, k // shard))
        open(p, "w").write("\n".join(lines[k:k + shard]) + "\n")
        shards.append((k, p))

    def one(s):
        k, p = s
        return k, p, vlib.tlc("codec/TraceCodec.tla", workers=1, env={"CODEC_TRACE": p}, xmx=xmx,
                              tag="%s%d" % (label, k), timeout=3000)
    flagged = []
    for k, p, r in vlib.parallel(one, shards, par):
        if not r.ok:
            # TLC could not evaluate a record (e.g. a value of an unexpected shape): find it
            raise vlib.ToolError("TraceCodec failed on %s:\n%s" % (p, (r.error_text or r.out)[-2500:]))
        chk.cov["states"] += r.distinct
        chk.cov["transitions"] += r.generated
        for m in re.finditer(r'^<<"FLAGS", (\d+), (".*")>>$', r.out, re.M):
            i = int(m.group(1))
            flags = set(json.loads(json.loads(m.group(2))))
            flagged.append((json.loads(lines[k + i - 1]), flags))
        os.remove(p)
    return flagged, len(lines)


def short(rec, n=48):
    r = dict(rec)
    for k in ("in", "out", "base"):
        if k in r and isinstance(r[k], list) and len(r[k]) > n:
            r[k] = r[k][:n] + ["... %d bytes" % len(r[k])]
    return r


def hexs(b):
    return " ".join("%02x" % x for x in b[:64]) + (" ..." if len(b) > 64 else "")


def gen_c13(chk, which, thorough=False, workers=1):
    workers = 1   # see gen_values
    r = vlib.tlc("codec/Gen_C13.tla", workers=workers, xmx="10g", timeout=3000,
                 env={"GEN_WHICH": which, "GEN_THOROUGH": "1" if thorough else "0", "GEN_BIG": "0"})
    vlib.tlc_must_pass(r, "Gen_C13 " + which)
    cases = parse_cases(r.out)
    if len(cases) != r.distinct:
        raise vlib.ToolError("Gen_C13: %d cases printed for %d states" % (len(cases), r.distinct))
    chk.add_tlc("Gen_C13(%s): one state per re-assembled case, expected outcome computed by the spec" % which, r)
    return cases


def export_layout(wd):
    p = os.path.join(wd, "layout.json")
    r = vlib.tlc("codec/Gen_Layout.tla", env={"LAYOUT_OUT": p})
    vlib.tlc_must_pass(r, "Gen_Layout")
    return p


def random_cases(binary, layout, seed, count, mode, wd, label, types=()):
    p = os.path.join(wd, label + ".gen.ndjson")
    vlib.harness_run(binary, ["codec-gen", layout, seed, count, mode, p] + list(types))
    return vlib.read_ndjson(p)


DRIFT_FLAGS = {"value", "reenc", "ref-ok-impl-err", "ref-err-impl-ok", "kind", "tags"}


def report_common(chk, rec, flags, claim_total=True):
    """Flags every codec check treats the same way. Returns True when the record was fully handled."""
    if "total" in flags:
        if claim_total:
            chk.violation("%s:decode:%s" % (rec["ty"], rec["st"]),
                          "%s: real decoder %s on %s" % (rec["ty"], rec["st"], hexs(rec["in"])), short(rec))
        return True
    return False
