//! Structure-aware random input generator for the codec layer (impl -> spec direction).
//! An input source, not an oracle: it follows the layout table exported from the specification to
//! produce byte strings that are mostly well-formed, then (optionally) damages them.  Any bytes will
//! do - the real code decodes them and TLC judges the record.
//!
//! codec-gen <layout.json> <seed> <count> <mode: rand|mut|mix> <out.ndjson> [type ...]
use crate::util::*;
use serde_json::{json, Value};
use std::io::Write;

pub struct Layout {
    pub v: Value,
}

impl Layout {
    pub fn load(path: &str) -> anyhow::Result<Self> {
        Ok(Layout { v: serde_json::from_str(&std::fs::read_to_string(path)?)? })
    }
    pub fn types(&self) -> Vec<String> {
        self.v["layout"].as_object().unwrap().keys().cloned().collect()
    }
    pub fn fields(&self, t: &str) -> &Vec<Value> {
        self.v["layout"][t].as_array().unwrap()
    }
    pub fn command(&self, t: &str) -> Option<(u8, u8)> {
        self.v["command"].get(t).map(|c| (c[0].as_u64().unwrap() as u8, c[1].as_u64().unwrap() as u8))
    }
}

pub fn tag_bytes(tag: u64) -> Vec<u8> {
    if tag >> 8 == 0x1f || tag >> 8 == 0xff {
        vec![(tag >> 8) as u8, tag as u8]
    } else {
        vec![tag as u8]
    }
}

fn len_prefix(style: &str, n: usize, fixed: usize, pay: &mut Vec<u8>) -> Vec<u8> {
    match style {
        "Tlv" => {
            if n < 128 {
                vec![n as u8]
            } else if n < 256 {
                vec![0x81, n as u8]
            } else {
                vec![0x82, (n >> 8) as u8, n as u8]
            }
        }
        "Llv" => vec![0xf0 | ((n / 10) % 10) as u8, 0xf0 | (n % 10) as u8],
        "Lllv" => vec![0xf0 | ((n / 100) % 10) as u8, 0xf0 | ((n / 10) % 10) as u8, 0xf0 | (n % 10) as u8],
        "Fixed" => {
            // pad / cut the payload to the field width
            while pay.len() < fixed {
                pay.insert(0, 0);
            }
            pay.truncate(fixed);
            vec![]
        }
        _ => vec![],
    }
}

thread_local! {
    /// When set, BCD numbers are drawn from the edges of their integer type (maximum, maximum + 1, the values whose
    /// last digit / last two digits overflow), in the plain and in the F-padded odd-digit form, with leading zero bytes.
    pub static BCD_EDGE: std::cell::Cell<bool> = std::cell::Cell::new(false);
}

fn bcd_edge(rng: &mut Rng, w: u64) -> Vec<u8> {
    let max: u128 = match w {
        1 => u8::MAX as u128,
        2 => u16::MAX as u128,
        4 => u32::MAX as u128,
        _ => u64::MAX as u128,
    };
    let v: u128 = match rng.below(8) {
        0 => max,
        1 => max + 1,
        2 => max + rng.range(1, 9) as u128,
        3 => (max / 10 + 1) * 10 - 1,                   // same leading digits, last digit 9
        4 => (max / 100) * 100 + 99,                    // same leading digits, last two digits 99
        5 => (max / 100 + 1) * 100,
        6 => max - rng.below(3) as u128,
        _ => max * 10 + rng.below(10) as u128,
    };
    let mut d: Vec<u8> = v.to_string().bytes().map(|c| c - b'0').collect();
    match rng.below(4) {
        0 => {
            // F-padded: an odd number of digits followed by the padding nibble
            if d.len() % 2 == 0 {
                d.insert(0, 0);
            }
            d.push(15);
        }
        1 => {
            if d.len() % 2 == 1 {
                d.insert(0, 0);
            }
            d.insert(0, 0);
            d.insert(0, 0);
        }
        _ => {
            if d.len() % 2 == 1 {
                d.insert(0, 0);
            }
        }
    }
    d.chunks(2).map(|c| c[0] * 16 + c.get(1).copied().unwrap_or(15)).collect()
}

fn rand_digits_bcd(rng: &mut Rng, max_digits: usize, w: u64) -> Vec<u8> {
    if BCD_EDGE.with(|e| e.get()) && rng.chance(2, 3) {
        return bcd_edge(rng, w);
    }
    let cap = match w {
        1 => 3,
        2 => 5,
        4 => 10,
        _ => 20,
    };
    let nd = rng.range(0, max_digits.min(cap) as u64) as usize;
    let mut d: Vec<u8> = (0..nd).map(|_| rng.range(0, 9) as u8).collect();
    if nd == cap && !d.is_empty() {
        d[0] = if w == 8 { 1 } else { rng.range(0, 2) as u8 }; // mostly below the type maximum, sometimes above
    }
    if d.len() % 2 == 1 {
        if rng.chance(1, 6) {
            d.push(15); // F padding at the end
        } else {
            d.insert(0, 0);
        }
    }
    d.chunks(2).map(|c| c[0] * 16 + c[1]).collect()
}

fn rand_len(rng: &mut Rng, style: &str, fixed: usize) -> usize {
    match style {
        "Fixed" => fixed,
        "Llv" => *rng.pick(&[0usize, 1, 2, 5, 10, 19, 50, 98, 99]),
        "Lllv" => *rng.pick(&[0usize, 1, 3, 12, 99, 100, 250, 998, 999]),
        "Tlv" => *rng.pick(&[0usize, 1, 2, 4, 7, 20, 100, 127, 128, 200, 255, 256, 300]),
        "Temperature" => *rng.pick(&[3usize, 4]),
        _ => *rng.pick(&[0usize, 1, 2, 4, 9, 30]),
    }
}

/// Well-formed UTF-8 of exactly n bytes: characters of 1..4 bytes in random order (a byte order mark now and then in front), so
/// that in long texts a character straddles every offset.
fn utf8_text(rng: &mut Rng, n: usize) -> Vec<u8> {
    let mut v: Vec<u8> = vec![];
    if n >= 3 && rng.chance(1, 8) {
        v.extend([0xef, 0xbb, 0xbf]);
    }
    while v.len() < n {
        let room = n - v.len();
        let c: &[u8] = match rng.below(4) {
            0 => b"A",
            1 => &[0xc3, 0xa4],
            2 => &[0xe2, 0x82, 0xac],
            _ => &[0xf0, 0x9f, 0xa6, 0x80],
        };
        if c.len() <= room {
            v.extend(c);
        } else {
            v.push(b'z');
        }
    }
    v
}

pub fn gen_payload(l: &Layout, f: &Value, rng: &mut Rng, depth: usize) -> Vec<u8> {
    let style = f["len"]["s"].as_str().unwrap();
    let fixed = f["len"]["n"].as_u64().unwrap() as usize;
    let w = f["enc"]["w"].as_u64().unwrap();
    match f["kind"].as_str().unwrap() {
        "struct" => gen_struct(l, f["sub"].as_str().unwrap(), rng, depth + 1, false),
        "int" => match f["enc"]["e"].as_str().unwrap() {
            "Bcd" => {
                let maxd = if style == "Fixed" { 2 * fixed } else { 20 };
                rand_digits_bcd(rng, maxd, w)
            }
            "Receipt" => {
                if rng.chance(1, 5) {
                    vec![0xff, 0xff]
                } else {
                    rand_digits_bcd(rng, 4, 8)
                }
            }
            _ => {
                let mut b = rng.bytes(w as usize);
                if rng.chance(1, 3) {
                    for x in b.iter_mut() {
                        *x = *rng.pick(&[0u8, 0xff, 1, 0x80]);
                    }
                }
                b
            }
        },
        "datetime" => {
            let two = |n: u64| -> u8 { ((n / 10) * 16 + n % 10) as u8 };
            let (y, m, d) = (rng.range(0, 9999), rng.range(1, 12), rng.range(1, 28));
            let date = vec![0x1f, 0x0e, 4, two(y / 100), two(y % 100), two(m), two(d)];
            let mut time = vec![0x1f, 0x0f, 3, two(rng.range(0, 23)), two(rng.range(0, 59)), two(rng.range(0, 59))];
            let mut date = date;
            if BCD_EDGE.with(|e| e.get()) && rng.chance(1, 2) {
                // wrap witnesses: the leading component (year / hour) is a valid value plus a multiple of 2^8, 2^16, 2^31, 2^32 or 2^64,
                // the rest of the digits are valid - a decoder that narrows the number without a check reads a valid date or time
                let wraps: [u128; 7] = [1 << 8, 1 << 16, 1 << 31, 1 << 32, 3 << 32, 1 << 63, 1 << 64];
                let lead_ok: u128 = if rng.chance(1, 2) { rng.range(0, 23) as u128 } else { rng.range(1, 9999) as u128 };
                let lead = *rng.pick(&wraps) * rng.range(1, 3) as u128 + lead_ok;
                let tail = format!("{:02}{:02}", rng.range(1, 12), rng.range(1, 28));
                let mut digits = format!("{}{}", lead, tail);
                if digits.len() % 2 == 1 {
                    digits.insert(0, '0');
                }
                let bcd: Vec<u8> = digits.as_bytes().chunks(2).map(|c| (c[0] - b'0') * 16 + (c[1] - b'0')).collect();
                let mut tlv = vec![0x1f, if rng.chance(1, 2) { 0x0e } else { 0x0f }, bcd.len() as u8];
                tlv.extend(bcd);
                if tlv[1] == 0x0e {
                    date = tlv;
                } else {
                    time = tlv;
                }
            }
            if BCD_EDGE.with(|e| e.get()) && rng.chance(1, 3) {
                // calendar boundaries: the first / last day and second chrono can represent and their neighbours, leap days, the
                // 24th hour and the 60th minute / second - alone and in combination
                let dates: [(u64, u64, u64); 12] = [(0, 1, 1), (9999, 12, 31), (10000, 1, 1), (262143, 12, 31), (262144, 1, 1), (2024, 2, 29),
                                                    (2023, 2, 29), (2023, 12, 32), (2023, 13, 1), (2023, 0, 10), (2023, 10, 0), (1900, 2, 29)];
                let times: [(u64, u64, u64); 8] = [(0, 0, 0), (23, 59, 59), (24, 0, 0), (23, 59, 60), (23, 60, 0), (24, 59, 59), (12, 0, 0), (99, 99, 99)];
                let bcd = |digits: String| -> Vec<u8> {
                    let mut d = digits;
                    if d.len() % 2 == 1 {
                        d.insert(0, '0');
                    }
                    d.as_bytes().chunks(2).map(|c| (c[0] - b'0') * 16 + (c[1] - b'0')).collect()
                };
                if rng.chance(2, 3) {
                    let (y, m, d) = *rng.pick(&dates);
                    let b = bcd(format!("{:04}{:02}{:02}", y, m, d));
                    date = [vec![0x1f, 0x0e, b.len() as u8], b].concat();
                }
                if rng.chance(2, 3) {
                    let (h, m, sec) = *rng.pick(&times);
                    let b = bcd(format!("{:02}{:02}{:02}", h, m, sec));
                    time = [vec![0x1f, 0x0f, b.len() as u8], b].concat();
                }
            }
            if rng.chance(1, 4) {
                [time, date].concat()
            } else {
                [date, time].concat()
            }
        }
        "utf8" => {
            let n = rand_len(rng, style, fixed);
            match rng.below(3) {
                0 => (0..n).map(|_| rng.range(32, 126) as u8).collect(),
                1 => utf8_text(rng, n),
                _ => {
                    // ... or almost: one byte of it replaced
                    let mut v = utf8_text(rng, n);
                    if !v.is_empty() {
                        let k = rng.below(v.len() as u64) as usize;
                        v[k] = rng.next() as u8;
                    }
                    v
                }
            }
        }
        _ => {
            // text, hex, raw
            let n = rand_len(rng, style, fixed);
            let mut b: Vec<u8> = match rng.below(3) {
                0 => (0..n).map(|_| rng.range(32, 126) as u8).collect(),
                1 => rng.bytes(n),
                _ => utf8_text(rng, n),
            };
            if let Some(last) = b.last_mut() {
                if *last == 0 && rng.chance(3, 4) {
                    *last = 0x41;
                }
            }
            b
        }
    }
}

pub fn gen_one(l: &Layout, f: &Value, rng: &mut Rng, depth: usize) -> Vec<u8> {
    let style = f["len"]["s"].as_str().unwrap();
    let fixed = f["len"]["n"].as_u64().unwrap() as usize;
    let mut pay = gen_payload(l, f, rng, depth);
    let mut out = vec![];
    let tag = f["tag"].as_u64().unwrap();
    if tag != 99999 {
        out.extend(tag_bytes(tag));
    }
    let mut pre = len_prefix(style, pay.len(), fixed, &mut pay);
    // a BER length now and then in a form the library does not write: the long form for a short length, more length bytes than
    // needed (leading zeros), and so many that the number no longer fits a machine word (it must not wrap to the small value)
    if style == "Tlv" && rng.chance(1, 14) {
        let n = pay.len();
        let k = *rng.pick(&[1usize, 2, 3, 4, 8, 9, 10, 16]);
        let mut v = vec![0x80 | k as u8];
        let be = (n as u64).to_be_bytes();
        for i in 0..k {
            let from_end = k - i; // 1 = least significant byte
            v.push(if from_end <= 8 { be[8 - from_end] } else if from_end == k { 1 } else { 0 });
        }
        if k < 8 && (n >> (8 * k)) != 0 {
            // does not fit: keep the regular form
        } else {
            pre = v;
        }
    }
    out.extend(pre);
    out.extend(pay);
    out
}

/// One struct body: positional fields in order, tagged groups in declaration or random order.
pub fn gen_struct(l: &Layout, t: &str, rng: &mut Rng, depth: usize, top: bool) -> Vec<u8> {
    let fields = l.fields(t);
    let mut out = vec![];
    let mut groups: Vec<Vec<u8>> = vec![];
    let p_present = if depth > 2 { 3 } else { 6 };
    for f in fields {
        let card = f["card"].as_str().unwrap();
        let tagged = f["tag"].as_u64().unwrap() != 99999;
        let mut g = vec![];
        match card {
            "req" => g = gen_one(l, f, rng, depth),
            "opt" => {
                if rng.chance(p_present, 10) {
                    g = gen_one(l, f, rng, depth);
                }
            }
            _ => {
                let n = *rng.pick(&[0u64, 0, 1, 1, 2, 3]);
                for _ in 0..n {
                    g.extend(gen_one(l, f, rng, depth));
                }
            }
        }
        if tagged {
            if !g.is_empty() {
                groups.push(g);
            }
        } else {
            out.extend(g);
        }
    }
    if rng.chance(1, 3) {
        // tagged fields may arrive in any order
        for i in (1..groups.len()).rev() {
            let j = rng.below(i as u64 + 1) as usize;
            groups.swap(i, j);
        }
    }
    for g in groups {
        out.extend(g);
    }
    let _ = top;
    out
}

pub fn frame(l: &Layout, t: &str, body: Vec<u8>) -> Vec<u8> {
    match l.command(t) {
        None => body,
        Some((c, i)) => {
            let mut out = vec![c, i];
            if body.len() < 255 {
                out.push(body.len() as u8);
            } else {
                out.push(0xff);
                out.push(body.len() as u8);
                out.push((body.len() >> 8) as u8);
            }
            out.extend(body);
            out
        }
    }
}

/// Damage a byte string: the structure-aware mutations named in C02's quantifier.
pub fn mutate(l: &Layout, t: &str, mut b: Vec<u8>, rng: &mut Rng) -> (Vec<u8>, &'static str) {
    if b.is_empty() {
        return (vec![rng.next() as u8], "byte");
    }
    match rng.below(9) {
        0 => {
            let k = rng.below(b.len() as u64) as usize;
            b[k] = rng.next() as u8;
            (b, "byte")
        }
        1 => {
            let k = rng.below(b.len() as u64) as usize;
            b.truncate(k);
            (b, "truncate")
        }
        2 => {
            // length-prefix edit: set some byte to a length-looking value
            let k = rng.below(b.len() as u64) as usize;
            b[k] = *rng.pick(&[0u8, 1, 0x7f, 0x80, 0x81, 0x82, 0x83, 0xf0, 0xf9, 0xff, 0xfe]);
            (b, "length")
        }
        3 => {
            // tag splice: insert a tag of this type (or a foreign one) with a short body
            let fields = l.fields(t);
            let k = rng.below(b.len() as u64 + 1) as usize;
            let mut ins = if !fields.is_empty() && rng.chance(2, 3) {
                let f = rng.pick(fields);
                let tag = f["tag"].as_u64().unwrap();
                if tag != 99999 { tag_bytes(tag) } else { vec![0x06] }
            } else {
                vec![*rng.pick(&[0x1fu8, 0xff, 0x06, 0x99, 0x00])]
            };
            let n = rng.range(0, 3) as usize;
            ins.push(n as u8);
            ins.extend(rng.bytes(n));
            b.splice(k..k, ins);
            (b, "splice")
        }
        4 => {
            // digit overflow: a run of 0x99 / 0xff
            let k = rng.below(b.len() as u64) as usize;
            let n = rng.range(1, 12) as usize;
            let v = *rng.pick(&[0x99u8, 0xff, 0x9a]);
            for i in k..(k + n).min(b.len()) {
                b[i] = v;
            }
            (b, "overflow")
        }
        5 => {
            // calendar values: look for 1F 0E / 1F 0F and scribble the digits
            if let Some(p) = b.windows(2).position(|w| w == [0x1f, 0x0e] || w == [0x1f, 0x0f]) {
                for i in (p + 3)..(p + 7).min(b.len()) {
                    b[i] = *rng.pick(&[0x00u8, 0x12, 0x13, 0x29, 0x30, 0x31, 0x32, 0x60, 0x99, 0x24]);
                }
            } else {
                let k = rng.below(b.len() as u64) as usize;
                b[k] ^= 1 << rng.below(8);
            }
            (b, "calendar")
        }
        6 => {
            let k = rng.below(b.len() as u64 + 1) as usize;
            let n = rng.range(1, 4) as usize;
            let ins = rng.bytes(n);
            b.splice(k..k, ins);
            (b, "insert")
        }
        7 => {
            let k = rng.below(b.len() as u64) as usize;
            let n = (rng.range(1, 4) as usize).min(b.len() - k);
            b.drain(k..k + n);
            (b, "delete")
        }
        _ => {
            // duplicate a slice (often a whole tagged group)
            let k = rng.below(b.len() as u64) as usize;
            let n = (rng.range(1, 12) as usize).min(b.len() - k);
            let s = b[k..k + n].to_vec();
            b.splice(k..k, s);
            (b, "repeat")
        }
    }
}

pub fn codec_gen(args: &[String]) -> anyhow::Result<()> {
    let l = Layout::load(&args[0])?;
    let seed: u64 = args[1].parse()?;
    let count: usize = args[2].parse()?;
    let mode = args[3].as_str();
    let mut w = out_file(&args[4])?;
    let mut types: Vec<String> = args[5..].to_vec();
    if types.is_empty() {
        types = l.types();
    }
    let mut rng = Rng::new(seed);
    for k in 0..count {
        let t = &types[k % types.len()];
        let body = gen_struct(&l, t, &mut rng, 0, true);
        let mut bytes = frame(&l, t, body);
        let mut cls = "rand";
        let mut how = "";
        let damage = match mode {
            "mut" => true,
            "mix" => rng.chance(1, 2),
            _ => false,
        };
        if damage {
            let n = rng.range(1, 2);
            for _ in 0..n {
                let (b, h) = mutate(&l, t, bytes, &mut rng);
                bytes = b;
                how = h;
            }
            cls = "mut";
        }
        writeln!(w, "{}", json!({"ty": t, "cls": cls, "how": how, "in": bytes}))?;
    }
    w.flush()?;
    Ok(())
}
