//! Parser for the derived `Debug` output of packet values -> a neutral JSON tree.
//!
//! struct -> object keyed by field name; `Some(x)` -> [x]; `None` -> []; a list -> array;
//! a number -> array of decimal digits (most significant first, [] for 0); a string -> array of
//! Unicode code points; a date-time -> [Y, M, D, h, m, s].  The parser knows nothing about packet
//! layouts: it cannot be wrong in a layout-correlated way.
use serde_json::{json, Map, Value};

pub struct P<'a> {
    s: &'a [u8],
    i: usize,
}

pub fn parse_debug(s: &str) -> Result<Value, String> {
    let mut p = P { s: s.as_bytes(), i: 0 };
    let v = p.value()?;
    p.ws();
    if p.i != p.s.len() {
        return Err(format!("trailing input at {}", p.i));
    }
    Ok(v)
}

impl<'a> P<'a> {
    fn ws(&mut self) {
        while self.i < self.s.len() && (self.s[self.i] as char).is_whitespace() {
            self.i += 1;
        }
    }
    fn peek(&self) -> Option<u8> {
        self.s.get(self.i).copied()
    }
    fn expect(&mut self, c: u8) -> Result<(), String> {
        self.ws();
        if self.peek() == Some(c) {
            self.i += 1;
            Ok(())
        } else {
            Err(format!("expected {:?} at {}", c as char, self.i))
        }
    }
    fn ident(&mut self) -> String {
        let st = self.i;
        while self.i < self.s.len() && (self.s[self.i].is_ascii_alphanumeric() || self.s[self.i] == b'_') {
            self.i += 1;
        }
        String::from_utf8_lossy(&self.s[st..self.i]).into_owned()
    }
    fn value(&mut self) -> Result<Value, String> {
        self.ws();
        match self.peek() {
            None => Err("eof".into()),
            Some(b'[') => {
                self.i += 1;
                let mut out = vec![];
                loop {
                    self.ws();
                    if self.peek() == Some(b']') {
                        self.i += 1;
                        break;
                    }
                    out.push(self.value()?);
                    self.ws();
                    if self.peek() == Some(b',') {
                        self.i += 1;
                    }
                }
                Ok(Value::Array(out))
            }
            Some(b'"') => self.string(),
            Some(c) if c.is_ascii_digit() || c == b'+' || c == b'-' => self.number_or_date(),
            Some(c) if c.is_ascii_alphabetic() || c == b'_' => {
                let id = self.ident();
                self.ws();
                match (id.as_str(), self.peek()) {
                    ("None", _) => Ok(json!([])),
                    ("Some", Some(b'(')) => {
                        self.i += 1;
                        let v = self.value()?;
                        self.expect(b')')?;
                        Ok(json!([v]))
                    }
                    (_, Some(b'{')) => {
                        self.i += 1;
                        let mut m = Map::new();
                        loop {
                            self.ws();
                            if self.peek() == Some(b'}') {
                                self.i += 1;
                                break;
                            }
                            let k = self.ident();
                            if k.is_empty() {
                                return Err(format!("field name expected at {}", self.i));
                            }
                            self.expect(b':')?;
                            let v = self.value()?;
                            m.insert(k, v);
                            self.ws();
                            if self.peek() == Some(b',') {
                                self.i += 1;
                            }
                        }
                        Ok(Value::Object(m))
                    }
                    (_, Some(b'(')) => {
                        // tuple struct / enum variant with one payload: {"<Name>": value}
                        self.i += 1;
                        let v = self.value()?;
                        self.expect(b')')?;
                        Ok(json!({ id: v }))
                    }
                    _ => Ok(Value::Object(Map::new())), // a struct without fields
                }
            }
            Some(c) => Err(format!("unexpected {:?} at {}", c as char, self.i)),
        }
    }
    fn number_or_date(&mut self) -> Result<Value, String> {
        let st = self.i;
        while self.i < self.s.len() && (self.s[self.i].is_ascii_digit() || b"+-T:.".contains(&self.s[self.i])) {
            self.i += 1;
        }
        let tok = std::str::from_utf8(&self.s[st..self.i]).unwrap();
        if tok.contains('T') {
            // [+-]YYYY-MM-DDThh:mm:ss[.fff]
            let (date, time) = tok.split_once('T').unwrap();
            let neg = date.starts_with('-');
            let date = date.trim_start_matches(['+', '-']);
            let d: Vec<&str> = date.split('-').collect();
            let t: Vec<&str> = time.split('.').next().unwrap().split(':').collect();
            if d.len() != 3 || t.len() != 3 {
                return Err(format!("bad date-time {tok}"));
            }
            let n = |x: &str| x.parse::<i64>().map_err(|e| e.to_string());
            let y = n(d[0])? * if neg { -1 } else { 1 };
            Ok(json!([y, n(d[1])?, n(d[2])?, n(t[0])?, n(t[1])?, n(t[2])?]))
        } else {
            let digits: Vec<Value> = tok.trim_start_matches('+').bytes().filter(|c| c.is_ascii_digit()).map(|c| json!((c - b'0') as u32)).collect();
            if tok.bytes().all(|c| c == b'0') {
                return Ok(json!([]));
            }
            let first = digits.iter().position(|d| d != &json!(0)).unwrap_or(digits.len());
            Ok(Value::Array(digits[first..].to_vec()))
        }
    }
    fn string(&mut self) -> Result<Value, String> {
        self.i += 1; // opening quote
        let text = std::str::from_utf8(&self.s[self.i..]).map_err(|e| e.to_string())?;
        let mut out: Vec<Value> = vec![];
        let mut it = text.char_indices();
        while let Some((off, c)) = it.next() {
            match c {
                '"' => {
                    self.i += off + 1;
                    return Ok(Value::Array(out));
                }
                '\\' => {
                    let (_, e) = it.next().ok_or("bad escape")?;
                    match e {
                        'n' => out.push(json!(10)),
                        'r' => out.push(json!(13)),
                        't' => out.push(json!(9)),
                        '0' => out.push(json!(0)),
                        '\\' => out.push(json!(92)),
                        '"' => out.push(json!(34)),
                        '\'' => out.push(json!(39)),
                        'u' => {
                            let mut hex = String::new();
                            let (_, b) = it.next().ok_or("bad \\u")?;
                            if b != '{' {
                                return Err("bad \\u".into());
                            }
                            for (_, h) in it.by_ref() {
                                if h == '}' {
                                    break;
                                }
                                hex.push(h);
                            }
                            out.push(json!(u32::from_str_radix(&hex, 16).map_err(|e| e.to_string())?));
                        }
                        other => return Err(format!("unknown escape \\{other}")),
                    }
                }
                c => out.push(json!(c as u32)),
            }
        }
        Err("unterminated string".into())
    }
}
