//! L1 conformance: runs the real decoders / encoders on cases and logs what they did.
//!
//! codec-run <cases.ndjson> <out.ndjson>
//!   case:   {"ty": type name, "in": [bytes], ...anything else is passed through...}
//!   record: case fields + {"st":"ok"|"err"|"panic"|"overalloc", "val": tree, "rest": n, "kind": k, "tags": [..],
//!                          "ost":"ok"|"panic"|"none", "out":[bytes], "rt":"ok"|"bad"|"none", "peak": bytes}
use crate::alloc;
use crate::debugparse::parse_debug;
use crate::tables::err_kind;
use crate::util::*;
use serde_json::{json, Value};
use std::io::{BufRead, Write};
use zvt::{ZVTError, ZvtSerializer};

pub struct Rec {
    pub st: &'static str,
    pub val: Value,
    pub rest: usize,
    pub kind: &'static str,
    pub tags: Vec<u16>,
    pub ost: &'static str,
    pub out: Vec<u8>,
    pub rt: &'static str,
    pub peak: usize,
}

fn err_tags(e: &ZVTError) -> Vec<u16> {
    match e {
        ZVTError::MissingRequiredTags(t) => t.iter().map(|t| t.0).collect(),
        ZVTError::WrongTag(t) | ZVTError::DuplicateTag(t) => vec![t.0],
        _ => vec![],
    }
}

pub fn run_one<T>(input: &[u8]) -> Rec
where
    T: ZvtSerializer + std::fmt::Debug + PartialEq,
    zvt::encoding::Default: zvt::encoding::Encoding<T>,
{
    let mut rec = Rec { st: "ok", val: json!({}), rest: 0, kind: "", tags: vec![], ost: "none", out: vec![], rt: "none", peak: 0 };
    let base = alloc::mark();
    let r = guarded(|| T::zvt_deserialize(input));
    rec.peak = alloc::peak_since(base);
    match r {
        Err(_) => rec.st = "panic",
        Ok(Err(e)) => {
            rec.st = "err";
            rec.kind = err_kind(&e);
            rec.tags = err_tags(&e);
        }
        Ok(Ok((v, rest))) => {
            match suffix_offset(input, rest) {
                Some(_) => rec.rest = rest.len(),
                None => {
                    rec.st = "badrest";
                    return rec;
                }
            }
            let dbg = format!("{:?}", v);
            match parse_debug(&dbg) {
                Ok(t) => rec.val = t,
                Err(e) => {
                    rec.st = "harness-error";
                    rec.val = json!({ "debug": dbg, "error": e });
                    return rec;
                }
            }
            // re-encode what was decoded, and decode that again
            match guarded(|| v.zvt_serialize()) {
                Err(_) => rec.ost = "panic",
                Ok(b) => {
                    rec.ost = "ok";
                    match guarded(|| T::zvt_deserialize(&b).map(|(w, r)| (w == v, r.len()))) {
                        Ok(Ok((true, 0))) => rec.rt = "ok",
                        _ => rec.rt = "bad",
                    }
                    rec.out = b;
                }
            }
        }
    }
    if rec.st == "ok" || rec.st == "err" {
        if rec.peak > 65536 + 64 * input.len() {
            rec.st = "overalloc";
        }
    }
    rec
}

/// Decode only: outcome, error, remainder length, Debug rendering, peak allocation (no re-encode, no tree).
pub fn run_light<T>(input: &[u8]) -> (&'static str, &'static str, Vec<u16>, usize, String, usize)
where
    T: ZvtSerializer + std::fmt::Debug + PartialEq,
    zvt::encoding::Default: zvt::encoding::Encoding<T>,
{
    let base = alloc::mark();
    let r = guarded(|| T::zvt_deserialize(input).map(|(v, rest)| (format!("{:?}", v), suffix_offset(input, rest).is_some(), rest.len())));
    let peak = alloc::peak_since(base);
    let over = peak > 65536 + 64 * input.len() + 8 * 1024 * 0;
    match r {
        Err(_) => ("panic", "", vec![], 0, String::new(), peak),
        Ok(Err(e)) => (if over { "overalloc" } else { "err" }, err_kind(&e), err_tags(&e), 0, String::new(), peak),
        Ok(Ok((d, is_tail, n))) => {
            // the Debug string itself is allocated inside the measured region: allow for it
            let over = peak > 65536 + 64 * input.len() + 4 * d.len();
            (if !is_tail { "badrest" } else if over { "overalloc" } else { "ok" }, "", vec![], n, d, peak)
        }
    }
}

type Runner = fn(&[u8]) -> Rec;
pub type LightRunner = fn(&[u8]) -> (&'static str, &'static str, Vec<u16>, usize, String, usize);

macro_rules! registry {
    ($( $name:literal => $ty:ty ),* $(,)?) => {
        pub fn runner(name: &str) -> Option<Runner> {
            match name {
                $( $name => Some(run_one::<$ty> as Runner), )*
                _ => None,
            }
        }
        pub fn light_runner(name: &str) -> Option<LightRunner> {
            match name {
                $( $name => Some(run_light::<$ty> as LightRunner), )*
                _ => None,
            }
        }
        pub const TYPE_NAMES: &[&str] = &[ $( $name ),* ];
    };
}

use zvt::feig::packets as fp;
use zvt::feig::packets::tlv as ft;
use zvt::packets as p;
use zvt::packets::tlv as t;

registry! {
    "SetTimeAndDate" => p::SetTimeAndDate, "NumAndTotal" => p::NumAndTotal, "SingleAmounts" => p::SingleAmounts,
    "StatusInformation" => p::StatusInformation, "IntermediateStatusInformation" => p::IntermediateStatusInformation,
    "StatusEnquiry" => p::StatusEnquiry, "Registration" => p::Registration, "CompletionData" => p::CompletionData,
    "ReceiptPrintoutCompletion" => p::ReceiptPrintoutCompletion, "ResetTerminal" => p::ResetTerminal,
    "PrintSystemConfiguration" => p::PrintSystemConfiguration, "SetTerminalId" => p::SetTerminalId, "Abort" => p::Abort,
    "ReservationAbort" => p::ReservationAbort, "PartialReversalAbort" => p::PartialReversalAbort,
    "Authorization" => p::Authorization, "Reservation" => p::Reservation, "PartialReversal" => p::PartialReversal,
    "PreAuthReversal" => p::PreAuthReversal, "EndOfDay" => p::EndOfDay, "Diagnosis" => p::Diagnosis,
    "Initialization" => p::Initialization, "ReadCard" => p::ReadCard, "PrintLine" => p::PrintLine,
    "PrintTextBlock" => p::PrintTextBlock, "SelectLanguage" => p::SelectLanguage, "Ack" => p::Ack,
    "Subs" => t::Subs, "SubsOnCard" => t::SubsOnCard, "tlv_StatusInformation" => t::StatusInformation,
    "tlv_StatusEnquiry" => t::StatusEnquiry, "DeviceInformation" => t::DeviceInformation,
    "tlv_ReceiptPrintoutCompletion" => t::ReceiptPrintoutCompletion, "tlv_ReservationAbort" => t::ReservationAbort,
    "Bmp60" => t::Bmp60, "tlv_AuthData" => t::AuthData, "tlv_PreAuthData" => t::PreAuthData, "tlv_Diagnosis" => t::Diagnosis,
    "tlv_ReadCard" => t::ReadCard, "ZvtString" => t::ZvtString, "TextLines" => t::TextLines,
    "tlv_PrintTextBlock" => t::PrintTextBlock, "tlv_Registration" => t::Registration,
    "feig_RequestForData" => fp::RequestForData,
    "feig_CVendFunctionsEnhancedSystemInformationCompletion" => fp::CVendFunctionsEnhancedSystemInformationCompletion,
    "feig_WriteFile" => fp::WriteFile, "feig_ChangeConfiguration" => fp::ChangeConfiguration,
    "feig_CVendFunctions" => fp::CVendFunctions, "feig_WriteData" => fp::WriteData,
    "feig_tlv_File" => ft::File, "feig_tlv_WriteData" => ft::WriteData, "feig_tlv_WriteFile" => ft::WriteFile,
    "feig_tlv_HostConfigurationData" => ft::HostConfigurationData, "feig_tlv_SystemInformation" => ft::SystemInformation,
    "feig_tlv_ChangeConfiguration" => ft::ChangeConfiguration,
}

pub fn rec_json(case: &Value, input: &[u8], r: &Rec) -> String {
    let mut m = case.as_object().cloned().unwrap_or_default();
    m.insert("in".into(), json!(input));
    m.insert("st".into(), json!(r.st));
    m.insert("val".into(), r.val.clone());
    m.insert("rest".into(), json!(r.rest));
    m.insert("kind".into(), json!(r.kind));
    m.insert("tags".into(), json!(r.tags));
    m.insert("ost".into(), json!(r.ost));
    m.insert("out".into(), json!(r.out));
    m.insert("rt".into(), json!(r.rt));
    m.insert("peak".into(), json!(r.peak));
    Value::Object(m).to_string()
}

pub fn case_bytes(case: &Value) -> Vec<u8> {
    case["in"].as_array().map(|a| a.iter().map(|x| x.as_u64().unwrap_or(0) as u8).collect()).unwrap_or_default()
}

/// codec-run <cases.ndjson> <out.ndjson>
pub fn codec_run(args: &[String]) -> anyhow::Result<()> {
    let f = std::io::BufReader::new(std::fs::File::open(&args[0])?);
    let mut w = out_file(&args[1])?;
    let mut n = 0u64;
    for line in f.lines() {
        let line = line?;
        if line.trim().is_empty() {
            continue;
        }
        let case: Value = serde_json::from_str(&line)?;
        let ty = case["ty"].as_str().unwrap_or("");
        let run = runner(ty).ok_or_else(|| anyhow::anyhow!("unknown type {ty}"))?;
        let input = case_bytes(&case);
        // progress marker for the driver's watchdog: which case is running
        let r = run(&input);
        wl(&mut w, &rec_json(&case, &input, &r))?;
        n += 1;
        if n % 4096 == 0 {
            w.flush()?;
        }
    }
    w.flush()?;
    println!("{n}");
    Ok(())
}

/// type-names: the registry, for cross-checking against the layout table of the specification
pub fn type_names(_: &[String]) -> anyhow::Result<()> {
    println!("{}", json!(TYPE_NAMES));
    Ok(())
}
