//! C02: the real decoders and reply parsers on large enumerated input families.
//!
//! codec-sweep <layout.json> <corpus.ndjson> <mode> <seed> <sample_every> <records.ndjson> <summary.json>
//!   mode small : every type x every body of length 0..2 over all byte values (APDU-framed for commands)
//!        alpha : every type x every body of length 3..L over the type's own alphabet (its tag bytes + length/nibble bytes)
//!        subst : every corpus entry x every truncation and every single-byte substitution (256 values at each offset)
//!        mut   : seeded structure-aware mutations of generated packets (count = sample_every * 200)
//! Every decode runs under catch_unwind, the counting allocator and a watchdog.  Full records are written for every
//! anomaly (panic / hang / overalloc / badrest) and for every sample_every-th case; per type the counts by outcome and
//! a hash of all outcomes (for debug/release parity) go to the summary.
use crate::codec::{self, rec_json, Rec};
use crate::enums;
use crate::gen::{self, Layout};
use crate::util::*;
use serde_json::{json, Value};
use std::collections::BTreeMap;
use std::io::{BufRead, Write};
use std::sync::atomic::{AtomicU64, Ordering};
use std::sync::{Arc, Mutex};

static PROGRESS: AtomicU64 = AtomicU64::new(0);

struct Sink {
    w: std::io::BufWriter<std::fs::File>,
    wenum: std::io::BufWriter<std::fs::File>,
    every: u64,
    n: u64,
    summary: BTreeMap<String, BTreeMap<String, u64>>,
    hashes: BTreeMap<String, u64>,
    current: Arc<Mutex<(String, Vec<u8>)>>,
}

fn fnv(h: &mut u64, bytes: &[u8]) {
    for b in bytes {
        *h ^= *b as u64;
        *h = h.wrapping_mul(0x100000001b3);
    }
}

impl Sink {
    fn run(&mut self, ty: &str, mode: &str, input: &[u8], extra: &Value) {
        {
            let mut c = self.current.lock().unwrap();
            c.0.clear();
            c.0.push_str(ty);
            c.1.clear();
            c.1.extend_from_slice(input);
        }
        PROGRESS.fetch_add(1, Ordering::Relaxed);
        let mut is_enum = false;
        let (st, kind, tags, rest, dbg): (&str, &str, Vec<u16>, usize, String);
        if let Some(run) = codec::light_runner(ty) {
            let r = run(input);
            st = r.0; kind = r.1; tags = r.2; rest = r.3; dbg = r.4;
        } else {
            is_enum = true;
            let o = enums::parser(ty).unwrap()(input);
            st = o.st; kind = o.kind; tags = o.tags; rest = 0; dbg = o.debug;
        }
        self.n += 1;
        *self.summary.entry(ty.to_string()).or_default().entry(format!("{}:{}", st, kind)).or_default() += 1;
        let h = self.hashes.entry(ty.to_string()).or_insert(0xcbf29ce484222325);
        fnv(h, input);
        fnv(h, st.as_bytes());
        fnv(h, kind.as_bytes());
        fnv(h, &rest.to_le_bytes());
        for t in &tags {
            fnv(h, &t.to_le_bytes());
        }
        fnv(h, dbg.as_bytes());
        let anomaly = !(st == "ok" || st == "err");
        if !(anomaly || self.n % self.every == 0) {
            return;
        }
        // sampled or anomalous: the full record
        let rec: Rec = if !is_enum {
            let mut r = codec::runner(ty).unwrap()(input);
            if anomaly && (r.st == "ok" || r.st == "err") {
                r.st = if st == "overalloc" { "overalloc" } else { "badrest" };
            }
            r
        } else {
            let o = enums::parser(ty).unwrap()(input);
            Rec { st: o.st, val: json!({"variant": o.variant, "val": o.val}), rest: 0, kind: o.kind, tags: o.tags, ost: "none", out: vec![], rt: "none", peak: 0 }
        };
        {
            let mut case = json!({"ty": ty, "cls": "sweep", "mode": mode});
            if let Some(m) = extra.as_object() {
                for (k, v) in m {
                    case[k] = v.clone();
                }
            }
            if is_enum {
                let line = json!({"enum": ty, "cls": "sweep", "mode": mode, "in": input, "st": rec.st, "variant": rec.val["variant"],
                                  "val": rec.val["val"], "kind": rec.kind, "tags": rec.tags});
                let _ = writeln!(self.wenum, "{}", line);
            } else {
                let _ = writeln!(self.w, "{}", rec_json(&case, input, &rec));
            }
            if anomaly {
                let _ = self.w.flush();
                let _ = self.wenum.flush();
            }
        }
    }
}

fn frame_if_command(l: &Layout, t: &str, body: &[u8]) -> Vec<u8> {
    gen::frame(l, t, body.to_vec())
}

fn alphabet(l: &Layout, t: &str) -> Vec<u8> {
    let mut a: Vec<u8> = vec![0x00, 0x01, 0x02, 0x7f, 0x80, 0x81, 0x82, 0x83, 0xf0, 0xf9, 0xff, 0x99];
    for f in l.fields(t) {
        let tag = f["tag"].as_u64().unwrap();
        if tag != 99999 {
            a.extend(gen::tag_bytes(tag));
        }
        if f["kind"] == "struct" {
            for g in l.fields(f["sub"].as_str().unwrap()) {
                let tag = g["tag"].as_u64().unwrap();
                if tag != 99999 {
                    a.extend(gen::tag_bytes(tag));
                }
            }
        }
    }
    a.sort();
    a.dedup();
    a.truncate(20);
    a
}

fn has_bcd(l: &Layout, t: &str, depth: usize) -> bool {
    depth < 4 && l.fields(t).iter().any(|f| f["enc"]["e"] == "Bcd" || f["enc"]["e"] == "Receipt" || (f["kind"] == "struct" && has_bcd(l, f["sub"].as_str().unwrap(), depth + 1)))
}

pub fn codec_sweep(args: &[String]) -> anyhow::Result<()> {
    let l = Layout::load(&args[0])?;
    let corpus_path = &args[1];
    let mode = args[2].as_str();
    let seed: u64 = args[3].parse()?;
    let every: u64 = args[4].parse()?;
    let current = Arc::new(Mutex::new((String::new(), Vec::new())));
    let mut sink = Sink { w: out_file(&args[5])?, wenum: out_file(&(args[5].clone() + ".enum"))?, every: every.max(1), n: 0, summary: Default::default(), hashes: Default::default(), current: current.clone() };
    // watchdog: a decode that makes no progress for 20 s is a hang; it is recorded and the process ends
    {
        let cur = current.clone();
        let path = args[5].clone() + ".hang";
        std::thread::spawn(move || {
            let mut last = 0u64;
            let mut stuck = 0;
            loop {
                std::thread::sleep(std::time::Duration::from_secs(2));
                let p = PROGRESS.load(Ordering::Relaxed);
                if p == last && p > 0 {
                    stuck += 1;
                } else {
                    stuck = 0;
                }
                last = p;
                if stuck >= 10 {
                    let c = cur.lock().unwrap();
                    let _ = std::fs::write(&path, json!({"ty": c.0, "cls": "sweep", "in": c.1, "st": "hang", "val": {}, "rest": 0, "kind": "", "tags": [], "ost": "none", "out": [], "rt": "none", "peak": 0}).to_string());
                    std::process::exit(3);
                }
            }
        });
    }
    let types = l.types();
    let parsers: Vec<&str> = enums::ENUMS.iter().map(|(n, _)| *n).collect();
    match mode {
        "small" => {
            for t in &types {
                let no = json!({});
                sink.run(t, mode, &frame_if_command(&l, t, &[]), &no);
                for a in 0..=255u8 {
                    sink.run(t, mode, &frame_if_command(&l, t, &[a]), &no);
                }
                for a in 0..=255u8 {
                    for b in 0..=255u8 {
                        sink.run(t, mode, &frame_if_command(&l, t, &[a, b]), &no);
                    }
                }
                // unframed short inputs for commands: fewer bytes than a header
                if l.command(t).is_some() {
                    let (c, i) = l.command(t).unwrap();
                    for inp in [vec![], vec![c], vec![c, i], vec![c, i, 0xff], vec![c, i, 0xff, 1], vec![c, i, 5, 1], vec![i, c, 0]] {
                        sink.run(t, mode, &inp, &no);
                    }
                }
            }
            // reply parsers: every body of length 0..2 behind each control field of a packet type, and short inputs
            let mut cfs: Vec<(u8, u8)> = types.iter().filter_map(|t| l.command(t)).collect();
            cfs.sort();
            cfs.dedup();
            for p in &parsers {
                let no = json!({"enum": p});
                for (c, i) in &cfs {
                    sink.run(p, mode, &[*c, *i, 0], &no);
                    for a in 0..=255u8 {
                        sink.run(p, mode, &[*c, *i, 1, a], &no);
                    }
                    if every < 50 || true {
                        for a in 0..=255u8 {
                            for b in (0..=255u8).step_by(3) {
                                sink.run(p, mode, &[*c, *i, 2, a, b], &no);
                            }
                        }
                    }
                }
                for a in 0..=255u8 {
                    sink.run(p, mode, &[a], &no);
                }
                sink.run(p, mode, &[], &no);
            }
        }
        "alpha" => {
            let maxlen: usize = std::env::var("SWEEP_ALPHA_LEN").ok().and_then(|s| s.parse().ok()).unwrap_or(4);
            for t in &types {
                let a = alphabet(&l, t);
                let no = json!({});
                for len in 3..=maxlen {
                    let mut idx = vec![0usize; len];
                    loop {
                        let body: Vec<u8> = idx.iter().map(|i| a[*i]).collect();
                        sink.run(t, mode, &frame_if_command(&l, t, &body), &no);
                        let mut k = 0;
                        while k < len {
                            idx[k] += 1;
                            if idx[k] < a.len() {
                                break;
                            }
                            idx[k] = 0;
                            k += 1;
                        }
                        if k == len {
                            break;
                        }
                    }
                }
            }
        }
        "subst" => {
            let f = std::io::BufReader::new(std::fs::File::open(corpus_path)?);
            for line in f.lines() {
                let case: Value = serde_json::from_str(&line?)?;
                let t = case["ty"].as_str().unwrap().to_string();
                let base = codec::case_bytes(&case);
                let no = json!({"src": case.get("src").cloned().unwrap_or(json!(""))});
                for k in 0..base.len() {
                    sink.run(&t, mode, &base[..k], &no);
                }
                let mut b = base.clone();
                let all_offsets = std::env::var("SWEEP_ALL_OFFSETS").is_ok();
                for k in 0..base.len() {
                    if !all_offsets && base.len() > 400 && !(k < 200 || k + 60 >= base.len() || k % 23 == 0) {
                        continue;
                    }
                    let orig = b[k];
                    for v in 0..=255u8 {
                        if v != orig {
                            b[k] = v;
                            sink.run(&t, mode, &b, &no);
                        }
                    }
                    b[k] = orig;
                }
                // the reply parsers on the same packet, substituted in the header and the first bytes of the body
                if l.command(&t).is_some() {
                    for p in &parsers {
                        let mut b = base.clone();
                        for k in 0..base.len().min(8) {
                            let orig = b[k];
                            for v in (0..=255u8).step_by(5) {
                                b[k] = v;
                                sink.run(p, mode, &b, &json!({"enum": p}));
                            }
                            b[k] = orig;
                        }
                    }
                }
            }
        }
        "bcd" => {
            // every type, well-formed bodies whose BCD numbers sit at the edges of their integer types
            gen::BCD_EDGE.with(|e| e.set(true));
            let mut rng = Rng::new(seed ^ 0xbcd);
            let count: u64 = std::env::var("SWEEP_COUNT").ok().and_then(|s| s.parse().ok()).unwrap_or(20000);
            let with_bcd: Vec<&String> = types.iter().filter(|t| has_bcd(&l, t, 0)).collect();
            for k in 0..count {
                let t = with_bcd[(k as usize) % with_bcd.len()];
                let body = gen::gen_struct(&l, t, &mut rng, 0, true);
                let bytes = gen::frame(&l, t, body);
                sink.run(t, mode, &bytes, &json!({}));
                if k % 5 == 0 && l.command(t).is_some() {
                    let p = rng.pick(&parsers);
                    sink.run(p, mode, &bytes, &json!({"enum": p}));
                }
            }
            gen::BCD_EDGE.with(|e| e.set(false));
        }
        "mut" => {
            let mut rng = Rng::new(seed);
            let count: u64 = std::env::var("SWEEP_COUNT").ok().and_then(|s| s.parse().ok()).unwrap_or(20000);
            for k in 0..count {
                let t = &types[(k as usize) % types.len()];
                let body = gen::gen_struct(&l, t, &mut rng, 0, true);
                let mut bytes = gen::frame(&l, t, body);
                let mut how = "";
                for _ in 0..rng.range(1, 3) {
                    let (b, h) = gen::mutate(&l, t, bytes, &mut rng);
                    bytes = b;
                    how = h;
                }
                sink.run(t, mode, &bytes, &json!({"how": how}));
                if k % 7 == 0 && l.command(t).is_some() {
                    let p = rng.pick(&parsers);
                    sink.run(p, mode, &bytes, &json!({"enum": p, "how": how}));
                }
            }
        }
        other => anyhow::bail!("unknown sweep mode {other}"),
    }
    sink.w.flush()?;
    sink.wenum.flush()?;
    let summary = json!({"mode": mode, "cases": sink.n, "by_type": sink.summary,
                         "hash": sink.hashes.iter().map(|(k, v)| (k.clone(), format!("{:016x}", v))).collect::<BTreeMap<_, _>>()});
    std::fs::write(&args[6], summary.to_string())?;
    Ok(())
}
