//! C15 / C02: the reply parsers on every control field, and on explicit cases.
use crate::codec::case_bytes;
use crate::enums::{self, ParseOut};
use crate::gen::{self, Layout};
use crate::util::*;
use serde_json::{json, Value};
use std::io::{BufRead, Write};

fn out_json(o: &ParseOut) -> Value {
    json!({"st": o.st, "variant": o.variant, "val": o.val, "kind": o.kind, "tags": o.tags})
}

/// parse-run <cases.ndjson> <out.ndjson>: case {"enum": name, "in": [bytes], ...}
pub fn parse_run(args: &[String]) -> anyhow::Result<()> {
    let f = std::io::BufReader::new(std::fs::File::open(&args[0])?);
    let mut w = out_file(&args[1])?;
    for line in f.lines() {
        let line = line?;
        if line.trim().is_empty() {
            continue;
        }
        let case: Value = serde_json::from_str(&line)?;
        let name = case["enum"].as_str().unwrap_or("");
        let p = enums::parser(name).ok_or_else(|| anyhow::anyhow!("unknown enum {name}"))?;
        let input = case_bytes(&case);
        let o = p(&input);
        let mut m = case.as_object().cloned().unwrap_or_default();
        for (k, v) in out_json(&o).as_object().unwrap() {
            m.insert(k.clone(), v.clone());
        }
        writeln!(w, "{}", Value::Object(m))?;
    }
    w.flush()?;
    Ok(())
}

fn framed(cf: u16, body: &[u8]) -> Vec<u8> {
    let mut v = vec![(cf >> 8) as u8, cf as u8];
    if body.len() < 255 {
        v.push(body.len() as u8);
    } else {
        v.push(0xff);
        v.push(body.len() as u8);
        v.push((body.len() >> 8) as u8);
    }
    v.extend_from_slice(body);
    v
}

/// parse-sweep <layout.json> <seed> <out.ndjson>: every reply parser x every control field 0..65535 x four bodies
/// (empty / valid for the packet type that owns the control field / valid for another packet type / random),
/// and every input shorter than two bytes.  One line per parser.
pub fn parse_sweep(args: &[String]) -> anyhow::Result<()> {
    let l = Layout::load(&args[0])?;
    let seed: u64 = args[1].parse()?;
    let mut w = out_file(&args[2])?;
    // control field -> packet types owning it, from the specification's table
    let mut owners: std::collections::HashMap<u16, Vec<String>> = Default::default();
    for t in l.types() {
        if let Some((c, i)) = l.command(&t) {
            owners.entry((c as u16) << 8 | i as u16).or_default().push(t);
        }
    }
    let all_cmd: Vec<String> = l.types().into_iter().filter(|t| l.command(t).is_some()).collect();
    for (name, p) in enums::ENUMS {
        let mut rng = Rng::new(seed ^ 0x5151);
        let mut calls = 0u64;
        let mut by_cf: Vec<Value> = vec![];
        let mut wrongtag0 = 0u64;
        let mut ok_cfs = std::collections::BTreeSet::new();
        let mut per_cf: std::collections::HashMap<u16, u64> = Default::default();
        // first pass: find the control fields for which anything but WrongTag(0) happens
        for cf in 0..=65535u16 {
            let own = owners.get(&cf);
            let b_own: Vec<u8> = match own {
                Some(ts) => gen::gen_struct(&l, &ts[rng.below(ts.len() as u64) as usize], &mut rng, 0, true),
                None => vec![0x27, 0x00],
            };
            let other_t = loop {
                let t = rng.pick(&all_cmd);
                if l.command(t).map(|(c, i)| (c as u16) << 8 | i as u16) != Some(cf) {
                    break t.clone();
                }
            };
            let b_other = gen::gen_struct(&l, &other_t, &mut rng, 0, true);
            let nrand = rng.range(0, 12) as usize;
            let b_rand = rng.bytes(nrand);
            let mut bodies: Vec<(&str, Vec<u8>)> = vec![("empty", vec![]), ("own", b_own), ("other", b_other), ("random", b_rand)];
            // a control field that several packet types share (06 0F: completion, receipt printout completion, system information;
            // 06 1E: the three aborts; ...): bodies of EVERY one of them, several each - whichever of them the parser lists, what it
            // returns is that type's own reading of the body
            if let Some(ts) = own {
                for t in ts {
                    for _ in 0..4 {
                        bodies.push(("own", gen::gen_struct(&l, t, &mut rng, 0, true)));
                    }
                }
            }
            for (bk, body) in bodies.iter() {
                let input = framed(cf, body);
                let o = p(&input);
                calls += 1;
                *per_cf.entry(cf).or_default() += 1;
                if o.st == "err" && o.kind == "WrongTag" && o.tags == vec![0] {
                    wrongtag0 += 1;
                } else {
                    ok_cfs.insert(cf);
                    let mut j = out_json(&o);
                    j["cf"] = json!(cf);
                    j["body"] = json!(bk);
                    j["in"] = json!(input);
                    by_cf.push(j);
                }
            }
        }
        // every control field seen in a non-WrongTag(0) outcome: record all four bodies (also the WrongTag(0) ones)
        let mut short = vec![];
        let o = p(&[]);
        short.push(json!({"in": [], "st": o.st, "kind": o.kind}));
        for x in 0..=255u8 {
            let o = p(&[x]);
            short.push(json!({"in": [x], "st": o.st, "kind": o.kind}));
        }
        // the calls made on the control fields for which anything but WrongTag(0) happened
        let inset: u64 = ok_cfs.iter().map(|cf| per_cf.get(cf).copied().unwrap_or(0)).sum();
        writeln!(w, "{}", json!({"enum": name, "calls": calls, "wrongtag0": wrongtag0, "inset_calls": inset, "noted": by_cf,
                                  "noted_cfs": ok_cfs.iter().collect::<Vec<_>>(), "short": short}))?;
    }
    w.flush()?;
    Ok(())
}
