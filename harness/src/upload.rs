//! C11: the real firmware upload (feig::sequences::WriteFile) against seeded random payload directories and request scripts.
//!
//! upload-run <seed> <count> <max file size> <work dir> <out.ndjson>
use crate::seqs::{ev, make_peer, run_case};
use crate::util::*;
use serde_json::{json, Value};
use std::io::Write;
use zvt::feig::packets as fp;
use zvt::feig::packets::tlv as ft;
use zvt::{packets, ZvtSerializer};

pub const PATHS: &[(&str, u8)] = &[
    ("firmware/kernel.gz", 0x10), ("firmware/rootfs.gz", 0x11), ("firmware/components.tar.gz", 0x12), ("firmware/update.spec", 0x13),
    ("firmware/update_extended.spec", 0x14), ("app0/update.spec", 0x20), ("app0/update.tar.gz", 0x21), ("app1/update.spec", 0x22),
    ("app1/update.tar.gz", 0x23), ("app2/update.spec", 0x24), ("app2/update.tar.gz", 0x25), ("app3/update.spec", 0x26),
    ("app3/update.tar.gz", 0x27), ("app4/update.spec", 0x28), ("app4/update.tar.gz", 0x29), ("app5/update.spec", 0x30),
    ("app5/update.tar.gz", 0x31), ("app6/update.spec", 0x32), ("app6/update.tar.gz", 0x33), ("app7/update.spec", 0x34),
    ("app7/update.tar.gz", 0x35),
];
const UNRELATED: &[&str] = &["README.txt", "firmware/kernel.gz.bak", "app8/update.spec", "app1/update.tar", "firmware/rootfs", "update.spec"];

fn request(id: Option<u8>, off: Option<u32>, with_file: bool, with_tlv: bool) -> Vec<u8> {
    request_sized(id, off, None, with_file, with_tlv)
}

/// ... optionally with the size object (1F00), which a request may carry and which changes nothing about what is asked for
fn request_sized(id: Option<u8>, off: Option<u32>, size: Option<u32>, with_file: bool, with_tlv: bool) -> Vec<u8> {
    fp::RequestForData {
        tlv: if with_tlv {
            Some(ft::WriteData { file: if with_file { Some(ft::File { file_id: id, file_offset: off, file_size: size, ..ft::File::default() }) } else { None } })
        } else {
            None
        },
    }
    .zvt_serialize()
}

pub fn upload_run(args: &[String]) -> anyhow::Result<()> {
    let seed: u64 = args[0].parse()?;
    let count: usize = args[1].parse()?;
    let max_size: u64 = args[2].parse()?;
    let root = std::path::PathBuf::from(&args[3]);
    let mut w = out_file(&args[4])?;
    let rt = crate::transport::rt();
    let mut rng = Rng::new(seed);
    for k in 0..count {
        let dir = root.join(format!("d{k}"));
        let _ = std::fs::remove_dir_all(&dir);
        std::fs::create_dir_all(&dir)?;
        // payload directory: a random subset of the recognised paths plus unrelated files
        let mut files: Vec<(String, u8, Vec<u8>)> = vec![];
        let nfiles = *rng.pick(&[1usize, 1, 2, 3, 5, 8, 21]);
        let mut idx: Vec<usize> = (0..PATHS.len()).collect();
        for i in (1..idx.len()).rev() {
            let j = rng.below(i as u64 + 1) as usize;
            idx.swap(i, j);
        }
        for &i in idx.iter().take(nfiles) {
            let size = match rng.below(8) {
                0 => 0,
                1 => 1,
                2 | 3 => rng.range(2, 64),
                4 | 5 => rng.range(65, 4096),
                _ => rng.range(0, max_size),
            } as usize;
            let content = rng.bytes(size);
            let p = dir.join(PATHS[i].0);
            std::fs::create_dir_all(p.parent().unwrap())?;
            if rng.chance(1, 6) {
                // the recognised path is a symbolic link to the artefact kept elsewhere
                let store = dir.join("store");
                std::fs::create_dir_all(&store)?;
                let target = store.join(format!("artefact-{}.bin", i));
                std::fs::write(&target, &content)?;
                let _ = std::fs::remove_file(&p);
                std::os::unix::fs::symlink(&target, &p)?;
            } else {
                std::fs::write(&p, &content)?;
            }
            files.push((PATHS[i].0.to_string(), PATHS[i].1, content));
        }
        let mut unrelated = vec![];
        for _ in 0..rng.range(0, 3) {
            let u = *rng.pick(UNRELATED);
            let p = dir.join(u);
            std::fs::create_dir_all(p.parent().unwrap())?;
            let n = rng.range(0, 50) as usize;
            std::fs::write(&p, rng.bytes(n))?;
            unrelated.push(u.to_string());
        }
        // ... and files whose names are near misses of recognised ones (another case, a backup suffix, one directory deeper):
        // they are not the artefacts, whether or not the artefact itself is there
        for _ in 0..rng.range(0, 2) {
            let (path, _) = PATHS[rng.below(PATHS.len() as u64) as usize];
            let (d, b) = path.split_once('/').unwrap();
            let u = match rng.below(6) {
                0 => format!("{}/{}", d, b.to_uppercase()),
                1 => format!("{}/{}", d.to_uppercase(), b),
                2 => format!("{}/{}{}", d, &b[..1].to_uppercase(), &b[1..]),
                3 => format!("{}/{}~", d, b),
                4 => format!("old/{}/{}", d, b),
                _ => format!("{}/{}.orig", d, b),
            };
            let p = dir.join(&u);
            if p.exists() {
                continue;
            }
            std::fs::create_dir_all(p.parent().unwrap())?;
            let n = rng.range(1, 80) as usize;
            std::fs::write(&p, rng.bytes(n))?;
            unrelated.push(u);
        }
        // one upload in five sits at the length switches: answers whose payload makes the body 254 / 255 / 256 bytes long or a
        // TLV length 127 / 128, 255 / 256 (block size or last block of 100..135 / 225..265 bytes)
        // (the lengths right at the switches - 113..131 and 226..262, so that the payload, the file object around it (+11), the
        // container around that (+2) and the APDU body (+18 in all) each pass 127 / 128 and 254 / 255 / 256 - are walked through one
        // by one, whatever the seed)
        let walking = k % 3 == 0;
        let at_switch = walking || rng.chance(1, 8);
        let walk = (k / 3) + (seed as usize % 1000) * 10;
        let switch_len = move |rng: &mut Rng| -> u32 {
            if walking {
                let list: Vec<u32> = (113..=131).chain(226..=262).collect();
                list[walk % list.len()]
            } else if rng.chance(1, 2) { rng.range(100, 135) as u32 } else { rng.range(225, 265) as u32 }
        };
        let block: u32 = if at_switch && rng.chance(1, 2) { switch_len(&mut rng) } else { match rng.below(6) {
            0 => 1,
            1 => rng.range(2, 16) as u32,
            2 => rng.range(17, 1024) as u32,
            3 => 1024,
            4 => rng.range(1025, 32768) as u32,
            _ => 32768,
        } };
        if at_switch {
            // a file whose last block has such a length
            let tail = switch_len(&mut rng) as usize;
            let k = rng.range(0, 3) as usize;
            let size = k * block as usize + tail.min(block as usize);
            let content = rng.bytes(size);
            let (path, _, _) = files[0].clone();
            std::fs::write(dir.join(&path), &content)?;
            files[0].2 = content;
        }
        // the PT's script: acknowledgement, data requests (good and bad), then completion or abort
        let mut frames: Vec<Value> = vec![json!({"bytes": [0x80, 0x00, 0x00], "trunc": false})];
        let nreq = rng.range(0, 12);
        let mut seq_off: std::collections::HashMap<u8, u32> = Default::default();
        for _ in 0..nreq {
            let (_, id, content) = &files[if at_switch { 0 } else { rng.below(files.len() as u64) as usize }];
            let size = content.len() as u32;
            let b = match if at_switch { 11 + rng.below(5) } else { rng.below(16) } {
                0 => {
                    // an id that was not announced
                    let other = PATHS.iter().map(|p| p.1).find(|i| !files.iter().any(|f| f.1 == *i)).unwrap_or(0x77);
                    request(Some(other), Some(0), true, true)
                }
                1 => request(Some(0x7f), Some(0), true, true),
                2 => request(None, Some(0), true, true),
                3 => request(Some(*id), None, true, true),
                4 => request(None, None, false, true),
                5 => request(None, None, false, false),
                6 => request(Some(*id), Some(size), true, true),                       // at the end of the file
                7 => request(Some(*id), Some(size.saturating_add(rng.range(1, 100000) as u32)), true, true), // beyond it
                8 => request(Some(*id), Some(u32::MAX), true, true),
                9 => request(Some(*id), Some(rng.below(size as u64 + 1) as u32), true, true), // anywhere, overlapping
                10 => {
                    let sz = *rng.pick(&[0u32, 1, 16, block.saturating_sub(1), block, block.saturating_add(1), size, u32::MAX]);
                    request_sized(Some(*id), Some(rng.below(size as u64 + 1) as u32), Some(sz), true, true)
                }
                _ => {
                    // sequential download
                    let o = seq_off.entry(*id).or_insert(0);
                    let b = request(Some(*id), Some(*o), true, true);
                    *o = o.saturating_add(block);
                    b
                }
            };
            frames.push(json!({"bytes": b, "trunc": false}));
        }
        match rng.below(8) {
            0 => {}
            1 => frames.push(json!({"bytes": packets::Abort { error: rng.next() as u8 }.zvt_serialize(), "trunc": false})),
            2 => frames.push(json!({"bytes": [0x04, 0x0d, 0x00], "trunc": false})),
            _ => frames.push(json!({"bytes": packets::CompletionData::default().zvt_serialize(), "trunc": false})),
        }
        if rng.chance(1, 3) {
            frames.push(json!({"bytes": request(Some(files[0].1), Some(0), true, true), "trunc": false}));
        }
        // the connection takes everything at once, or only so many bytes per write
        let wchunk = *rng.pick(&[0u64, 0, 0, 1, 100, 1500, 16384]);
        // one upload in four: somewhere in the PT's script the bytes stop for a while (in the middle of a frame, or between two)
        // (inside one of the first three frames behind the acknowledgement, so that the exchange is still running)
        let lens: Vec<usize> = frames.iter().map(|f| f["bytes"].as_array().map(|a| a.len()).unwrap_or(0)).collect();
        let (pause_at, pause_ms) = if rng.chance(1, 4) && lens.len() >= 2 {
            let j = (rng.range(1, 3) as usize).min(lens.len() - 1);
            let start: usize = lens[..j].iter().sum();
            let inside = if lens[j] > 1 && rng.chance(4, 5) { rng.range(1, lens[j] as u64 - 1) as usize } else { 0 };
            ((start + inside) as u64, *rng.pick(&[2500u64, 11000, 31000, 61000]))
        } else { (0, 0) };
        let case = json!({"cmd": "WriteFile", "req": [0x08, 0x14, 0x00], "frames": frames, "dir": dir.to_str().unwrap(), "block": block,
                          "password": 123456, "wchunk": wchunk, "pause_at": pause_at, "pause_ms": pause_ms});
        let mut out = run_case(&rt, &case);
        // the frames the code wrote: the announcement and the data blocks
        let written = out["written"].as_array().cloned().unwrap_or_default();
        let mut announce = json!([]);
        let mut blocks: Vec<Value> = vec![];
        for f in written {
            let bytes: Vec<u8> = f["bytes"].as_array().unwrap().iter().map(|x| x.as_u64().unwrap() as u8).collect();
            if f["kind"] == "cmd" {
                announce = json!(bytes);
            } else if {
                // the block goes into the trace as bytes when the file it belongs to does (content up to 4 KiB); the id is
                // read from the frame only to make that choice
                let d = fp::WriteData::zvt_deserialize(&bytes).ok().map(|x| x.0);
                let id = d.and_then(|d| d.tlv).and_then(|t| t.file).and_then(|f| f.file_id);
                bytes.len() <= 4300 && id.map(|i| files.iter().any(|f| f.1 == i && f.2.len() <= 4096)).unwrap_or(true)
            } {
                blocks.push(json!({"bytes": bytes, "id": 0, "off": [], "len": 0, "same": true}));
            } else {
                // large block: decode the header with the real decoder and compare the payload with our own copy of the file
                let d = fp::WriteData::zvt_deserialize(&bytes).ok().map(|x| x.0);
                let file = d.and_then(|d| d.tlv).and_then(|t| t.file);
                match file {
                    Some(f) => {
                        let id = f.file_id.unwrap_or(0);
                        let off = f.file_offset.unwrap_or(0);
                        let payload = f.payload.unwrap_or_default();
                        let mine = files.iter().find(|x| x.1 == id).map(|x| &x.2);
                        // bit-identical to our own copy of the file from the offset on (nothing when the offset is at or behind the end)
                        let same = mine.map(|m| {
                            let o = (off as usize).min(m.len());
                            o + payload.len() <= m.len() && m[o..o + payload.len()] == payload[..]
                        }).unwrap_or(false) && f.file_size.is_none();
                        blocks.push(json!({"bytes": [], "id": id, "off": crate::scalars::digits_of(off as u128).parse::<Value>().unwrap_or(json!([])), "len": payload.len(), "same": same}));
                    }
                    None => blocks.push(json!({"bytes": [], "id": 0, "off": [], "len": 0, "same": false})),
                }
            }
        }
        let m = out.as_object_mut().unwrap();
        m.remove("written");
        m.insert("announce".into(), announce);
        m.insert("blocks".into(), json!(blocks));
        m.insert("files".into(), json!(files.iter().map(|(p, id, c)| json!({"path": p, "id": id, "size": c.len(),
            "content": if c.len() <= 4096 { json!(c) } else { json!([]) }})).collect::<Vec<_>>()));
        m.insert("unrelated".into(), json!(unrelated));
        writeln!(w, "{}", out)?;
        let _ = std::fs::remove_dir_all(&dir);
        let _ = (ev("", "", "", 0), make_peer);
    }
    w.flush()?;
    Ok(())
}
