//! Tables of the scalar / text / tag encodings of the real code (C17).
//! Row: [encoding, type, op, input, outcome]; outcome of dec = ["ok", value, rest_len] | ["err", kind] | ["panic"],
//! outcome of enc = [bytes] | ["panic"].  Integers are arrays of decimal digits, strings arrays of code points.
use crate::tables::err_kind;
use crate::util::*;
use std::io::Write;
use zvt::encoding::{self, Encoding};
use zvt::{Tag, ZVTResult};

pub fn digits_of(n: u128) -> String {
    if n == 0 {
        return "[]".into();
    }
    let s = n.to_string();
    let v: Vec<String> = s.bytes().map(|c| ((c - b'0') as u32).to_string()).collect();
    format!("[{}]", v.join(","))
}

pub fn points_of(s: &str) -> String {
    let v: Vec<String> = s.chars().map(|c| (c as u32).to_string()).collect();
    format!("[{}]", v.join(","))
}

struct Out {
    dir: String,
    files: std::collections::BTreeMap<String, (std::io::BufWriter<std::fs::File>, u64)>,
    pub rows: u64,
}
impl Out {
    /// One table file per (encoding, type): <dir>/sc_<enc>_<ty>.json
    fn row(&mut self, enc: &str, ty: &str, op: &str, input: &str, outcome: &str) {
        let key = format!("{enc}_{ty}");
        if !self.files.contains_key(&key) {
            let mut w = out_file(&format!("{}/sc_{}.json", self.dir, key)).unwrap();
            w.write_all(b"{\"rows\":[\n").unwrap();
            self.files.insert(key.clone(), (w, 0));
        }
        let e = self.files.get_mut(&key).unwrap();
        if e.1 > 0 {
            e.0.write_all(b",\n").unwrap();
        }
        e.1 += 1;
        self.rows += 1;
        write!(e.0, "{{\"enc\":\"{enc}\",\"ty\":\"{ty}\",\"op\":\"{op}\",\"in\":{input},{outcome}}}").unwrap();
    }
    fn finish(&mut self) {
        for (_, (w, _)) in self.files.iter_mut() {
            w.write_all(b"\n]}").unwrap();
            w.flush().unwrap();
        }
    }
}

const PANIC: &str = "\"st\":\"panic\",\"out\":[],\"rest\":0,\"kind\":\"\"";

fn enc_outcome(r: Result<Vec<u8>, String>) -> String {
    match r {
        Ok(b) => format!("\"st\":\"ok\",\"out\":{},\"rest\":0,\"kind\":\"\"", bytes_json(&b)),
        Err(_) => PANIC.into(),
    }
}

fn dec_outcome<T>(input: &[u8], r: Result<ZVTResult<(T, &[u8])>, String>, show: impl Fn(&T) -> String) -> String {
    match r {
        Err(_) => PANIC.into(),
        Ok(Err(e)) => format!("\"st\":\"err\",\"out\":[],\"rest\":0,\"kind\":\"{}\"", err_kind(&e)),
        Ok(Ok((v, rest))) => {
            if suffix_offset(input, rest).is_some() || rest.is_empty() {
                format!("\"st\":\"ok\",\"out\":{},\"rest\":{},\"kind\":\"\"", show(&v), rest.len())
            } else {
                "\"st\":\"badrest\",\"out\":[],\"rest\":0,\"kind\":\"\"".into()
            }
        }
    }
}

macro_rules! int_rows {
    ($out:expr, $encname:literal, $E:ty, $ty:ty, $tyname:literal, $vals:expr, $inputs:expr) => {{
        for v in $vals.iter() {
            let v: u128 = *v;
            if v > <$ty>::MAX as u128 {
                continue;
            }
            let x = v as $ty;
            let o = enc_outcome(guarded(|| <$E as Encoding<$ty>>::encode(&x)));
            $out.row($encname, $tyname, "enc", &digits_of(v), &o);
        }
        for i in $inputs.iter() {
            let i: &Vec<u8> = i;
            let r = guarded(|| <$E as Encoding<$ty>>::decode(i));
            let o = dec_outcome(i, r, |v: &$ty| digits_of(*v as u128));
            $out.row($encname, $tyname, "dec", &bytes_json(i), &o);
        }
    }};
}

fn boundary_values(rng: &mut Rng, n_random: usize) -> Vec<u128> {
    let mut v: Vec<u128> = vec![];
    let mut p: u128 = 1;
    for _ in 0..=20 {
        v.push(p);
        v.push(p - 1);
        v.push(p + 1);
        p *= 10;
    }
    for j in 0..=8u32 {
        let q: u128 = 1u128 << (8 * j);
        v.push(q);
        v.push(q - 1);
        if q > 1 {
            v.push(q + 1);
        }
    }
    for _ in 0..n_random {
        let bits = rng.range(1, 64);
        v.push((rng.next() as u128) & ((1u128 << bits) - 1));
    }
    v.sort();
    v.dedup();
    v
}

fn bcd_of(mut v: u128) -> Vec<u8> {
    let mut d = vec![];
    while v > 0 {
        d.push((v % 10) as u8);
        v /= 10;
    }
    if d.len() % 2 == 1 {
        d.push(0);
    }
    d.reverse();
    d.chunks(2).map(|c| c[0] * 16 + c[1]).collect()
}

/// scalar-table <out dir> <seed> <quick|thorough>
pub fn scalar_table(args: &[String]) -> anyhow::Result<()> {
    let seed: u64 = args[1].parse()?;
    let thorough = args[2] == "thorough";
    let mut rng = Rng::new(seed);
    std::fs::create_dir_all(&args[0])?;
    let mut out = Out { dir: args[0].clone(), files: Default::default(), rows: 0 };

    // ---- integers
    let all8: Vec<u128> = (0..=255u128).collect();
    let all16: Vec<u128> = (0..=65535u128).collect();
    let wide = boundary_values(&mut rng, if thorough { 200_000 } else { 3_000 });
    let mut in1: Vec<Vec<u8>> = vec![vec![]];
    for a in 0..=255u8 {
        in1.push(vec![a]);
        in1.push(vec![a, 0x5a]);
    }
    let mut in2: Vec<Vec<u8>> = in1.clone();
    for a in 0..=255u8 {
        for b in 0..=255u8 {
            in2.push(vec![a, b]);
        }
    }
    let mut inw: Vec<Vec<u8>> = vec![];
    for n in 0..=10usize {
        for _ in 0..(if thorough { 4000 } else { 150 }) {
            let mut b = rng.bytes(n);
            if rng.chance(1, 3) {
                for x in b.iter_mut() {
                    if rng.chance(1, 2) {
                        *x = *rng.pick(&[0u8, 0xff, 0x80, 0x7f, 1]);
                    }
                }
            }
            inw.push(b);
        }
    }
    int_rows!(out, "Le", encoding::Default, u8, "u8", all8, in1);
    int_rows!(out, "Be", encoding::BigEndian, u8, "u8", all8, in1);
    int_rows!(out, "Le", encoding::Default, u16, "u16", all16, in2);
    int_rows!(out, "Be", encoding::BigEndian, u16, "u16", all16, in2);
    int_rows!(out, "Le", encoding::Default, u32, "u32", wide, inw);
    int_rows!(out, "Be", encoding::BigEndian, u32, "u32", wide, inw);
    int_rows!(out, "Le", encoding::Default, u64, "u64", wide, inw);
    int_rows!(out, "Be", encoding::BigEndian, u64, "u64", wide, inw);
    int_rows!(out, "Le", encoding::Default, usize, "usize", wide, inw);
    int_rows!(out, "Be", encoding::BigEndian, usize, "usize", wide, inw);

    // ---- BCD: nibble classes {0,9,A,F} exhaustively for short inputs, structured for lengths up to 11
    let nib: Vec<u8> = [0u8, 9, 10, 15].iter().flat_map(|h| [0u8, 9, 10, 15].iter().map(move |l| h * 16 + l)).collect();
    let mut bcd_in: Vec<Vec<u8>> = vec![vec![]];
    let maxlen = if thorough { 4 } else { 3 };
    let mut level: Vec<Vec<u8>> = vec![vec![]];
    for _ in 0..maxlen {
        let mut next = vec![];
        for p in &level {
            for x in &nib {
                let mut q = p.clone();
                q.push(*x);
                next.push(q);
            }
        }
        bcd_in.extend(next.iter().cloned());
        level = next;
    }
    for len in (maxlen + 1)..=11 {
        for mid in (if thorough { vec![0x00u8, 0x99, 0x12] } else { vec![0x99u8] }) {
            for a in &nib {
                for b in &nib {
                    for z in &nib {
                        let mut q = vec![*a, *b];
                        q.extend(std::iter::repeat(mid).take(len - 3));
                        q.push(*z);
                        bcd_in.push(q);
                    }
                }
            }
        }
    }
    // digit strings around every maximum, with and without F padding, and random digit strings
    for v in wide.iter() {
        bcd_in.push(bcd_of(*v));
        let s = v.to_string();
        if s.len() % 2 == 1 {
            // odd digit count, F-padded at the end
            let mut d: Vec<u8> = s.bytes().map(|c| c - b'0').collect();
            d.push(15);
            bcd_in.push(d.chunks(2).map(|c| c[0] * 16 + c[1]).collect());
        }
    }
    for a in 0..=255u8 {
        bcd_in.push(vec![a]);
        bcd_in.push(vec![a, 0x99]);
        bcd_in.push(vec![0x01, a]);
    }
    for _ in 0..(if thorough { 100_000 } else { 2_000 }) {
        let n = rng.range(0, 11) as usize;
        let b: Vec<u8> = (0..n)
            .map(|_| {
                let h = if rng.chance(1, 12) { rng.range(10, 15) } else { rng.range(0, 9) } as u8;
                let l = if rng.chance(1, 12) { rng.range(10, 15) } else { rng.range(0, 9) } as u8;
                h * 16 + l
            })
            .collect();
        bcd_in.push(b);
    }
    bcd_in.sort();
    bcd_in.dedup();
    int_rows!(out, "Bcd", encoding::Bcd, u8, "u8", all8, bcd_in);
    int_rows!(out, "Bcd", encoding::Bcd, u16, "u16", all16, bcd_in);
    int_rows!(out, "Bcd", encoding::Bcd, u32, "u32", wide, bcd_in);
    int_rows!(out, "Bcd", encoding::Bcd, u64, "u64", wide, bcd_in);
    int_rows!(out, "Bcd", encoding::Bcd, usize, "usize", wide, bcd_in);

    // ---- tags: all 65,536 values in both encodings; all 0-2 byte strings through both parsers
    for t in 0..=65535u32 {
        let tag = Tag(t as u16);
        let o = enc_outcome(guarded(|| <encoding::Default as Encoding<Tag>>::encode(&tag)));
        out.row("TagDef", "tag", "enc", &t.to_string(), &o);
        let o = enc_outcome(guarded(|| <encoding::BigEndian as Encoding<Tag>>::encode(&tag)));
        out.row("TagBe", "tag", "enc", &t.to_string(), &o);
    }
    let mut tag_in = in2.clone();
    for a in [0u8, 0x1e, 0x1f, 0x20, 0xfe, 0xff] {
        for b in [0u8, 0x0e, 0xff] {
            tag_in.push(vec![a, b, 0x77]);
        }
    }
    for i in tag_in.iter() {
        let r = guarded(|| <encoding::Default as Encoding<Tag>>::decode(i));
        out.row("TagDef", "tag", "dec", &bytes_json(i), &dec_outcome(i, r, |t: &Tag| t.0.to_string()));
        let r = guarded(|| <encoding::BigEndian as Encoding<Tag>>::decode(i));
        out.row("TagBe", "tag", "dec", &bytes_json(i), &dec_outcome(i, r, |t: &Tag| t.0.to_string()));
    }

    // ---- CP437 text: every byte in every position of strings up to length 2 (all of them), length 3 position-wise
    let mut text_in: Vec<Vec<u8>> = in2.clone();
    for a in 0..=255u8 {
        text_in.push(vec![a, 0x41, 0x42]);
        text_in.push(vec![0x41, a, 0x42]);
        text_in.push(vec![0x41, 0x42, a]);
        text_in.push(vec![a, 0, 0]);
        text_in.push(vec![0, a, 0]);
    }
    for _ in 0..(if thorough { 20_000 } else { 500 }) {
        let n = rng.range(0, 64) as usize;
        text_in.push(rng.bytes(n));
    }
    for i in text_in.iter() {
        let r = guarded(|| <encoding::Default as Encoding<String>>::decode(i));
        out.row("Text", "string", "dec", &bytes_json(i), &dec_outcome(i, r, |s: &String| points_of(s)));
        // the encoder, on the string the decoder produced without trimming (so every byte value is exercised)
        let s: String = yore_free_cp437(i);
        let o = enc_outcome(guarded(|| <encoding::Default as Encoding<String>>::encode(&s)));
        out.row("Text", "string", "enc", &points_of(&s), &o);
    }

    // ---- hex strings up to 64 bytes
    let mut hex_in: Vec<Vec<u8>> = in1.clone();
    for _ in 0..(if thorough { 50_000 } else { 2_000 }) {
        let n = rng.range(0, 64) as usize;
        hex_in.push(rng.bytes(n));
    }
    for i in hex_in.iter() {
        let r = guarded(|| <encoding::Hex as Encoding<String>>::decode(i));
        out.row("Hex", "string", "dec", &bytes_json(i), &dec_outcome(i, r, |s: &String| points_of(s)));
        let s: String = i.iter().map(|b| format!("{:02x}", b)).collect();
        let o = enc_outcome(guarded(|| <encoding::Hex as Encoding<String>>::encode(&s)));
        out.row("Hex", "string", "enc", &points_of(&s), &o);
    }

    // ---- UTF-8 (software version field)
    let mut u_in: Vec<Vec<u8>> = in2.clone();
    for s in ["GER-APP-v2.0.9", "\u{20ac}uro", "\u{1f980}", "a\u{0}b", "\u{7ff}\u{800}\u{ffff}\u{10000}\u{10ffff}"] {
        u_in.push(s.as_bytes().to_vec());
        let mut b = s.as_bytes().to_vec();
        b.pop();
        u_in.push(b);
    }
    for bad in [vec![0xe0u8, 0x80, 0x80], vec![0xed, 0xa0, 0x80], vec![0xf4, 0x90, 0x80, 0x80], vec![0xf0, 0x8f, 0xbf, 0xbf], vec![0xc0, 0xaf], vec![0xf5, 0x80, 0x80, 0x80]] {
        u_in.push(bad);
    }
    for _ in 0..(if thorough { 20_000 } else { 500 }) {
        let n = rng.range(0, 12) as usize;
        u_in.push(rng.bytes(n));
    }
    for i in u_in.iter() {
        let r = guarded(|| <encoding::Utf8 as Encoding<String>>::decode(i));
        out.row("Utf8", "string", "dec", &bytes_json(i), &dec_outcome(i, r, |s: &String| points_of(s)));
        if let Ok(s) = String::from_utf8(i.clone()) {
            let o = enc_outcome(guarded(|| <encoding::Utf8 as Encoding<String>>::encode(&s)));
            out.row("Utf8", "string", "enc", &points_of(&s), &o);
        }
    }

    // ---- receipt number with the FFFF sentinel
    for v in (0..=9999u128).chain([65535u128]) {
        let x = v as usize;
        let o = enc_outcome(guarded(|| <zvt::packets::PartialReversalReceiptNo as Encoding<usize>>::encode(&x)));
        out.row("Receipt", "usize", "enc", &digits_of(v), &o);
    }
    for i in tag_in.iter() {
        let r = guarded(|| <zvt::packets::PartialReversalReceiptNo as Encoding<usize>>::decode(i));
        out.row("Receipt", "usize", "dec", &bytes_json(i), &dec_outcome(i, r, |v: &usize| digits_of(*v as u128)));
    }

    // ---- date and time (TLV 1F0E / 1F0F)
    let mut dts: Vec<[u32; 6]> = vec![[2023, 11, 5, 12, 34, 56], [2023, 12, 31, 23, 59, 59], [2024, 2, 29, 0, 0, 0], [0, 1, 1, 0, 0, 0],
                                      [9999, 12, 31, 23, 59, 59], [2023, 1, 5, 1, 2, 3], [2000, 10, 10, 10, 10, 10], [1999, 9, 9, 9, 9, 9]];
    for _ in 0..(if thorough { 20_000 } else { 800 }) {
        dts.push([rng.range(0, 9999) as u32, rng.range(1, 12) as u32, rng.range(1, 28) as u32, rng.range(0, 23) as u32, rng.range(0, 59) as u32, rng.range(0, 59) as u32]);
    }
    let two = |n: u32| -> u8 { ((n / 10) * 16 + n % 10) as u8 };
    let mut dt_in: Vec<Vec<u8>> = vec![vec![], vec![0x1f], vec![0x1f, 0x0e], vec![0x1f, 0x0e, 0x04]];
    for d in dts.iter() {
        let date = vec![0x1f, 0x0e, 4, two(d[0] / 100), two(d[0] % 100), two(d[1]), two(d[2])];
        let time = vec![0x1f, 0x0f, 3, two(d[3]), two(d[4]), two(d[5])];
        dt_in.push([date.clone(), time.clone()].concat());
        if rng.chance(1, 4) {
            dt_in.push([time.clone(), date.clone()].concat());
            dt_in.push([date.clone(), time.clone(), vec![0x09, 0x01]].concat());
            dt_in.push(date.clone());
            dt_in.push([date.clone(), date.clone(), time.clone()].concat());
            let mut t = [date.clone(), time.clone()].concat();
            let k = rng.below(t.len() as u64) as usize;
            t[k] = rng.next() as u8;
            dt_in.push(t);
            let mut t = [date.clone(), time.clone()].concat();
            t.truncate(rng.below(t.len() as u64) as usize);
            dt_in.push(t);
        }
        let x = chrono::NaiveDate::from_ymd_opt(d[0] as i32, d[1], d[2]).unwrap().and_hms_opt(d[3], d[4], d[5]).unwrap();
        let o = enc_outcome(guarded(|| <encoding::Default as Encoding<chrono::NaiveDateTime>>::encode(&x)));
        out.row("DateTime", "datetime", "enc", &format!("[{},{},{},{},{},{}]", d[0], d[1], d[2], d[3], d[4], d[5]), &o);
    }
    // calendar edge values: every month / day 0..32 in two years, hours / minutes / seconds at the limits, long dates
    for (y, m, d) in (0..=13u32).flat_map(|m| (0..=32u32).map(move |d| (2023u32, m, d))).chain((28..=30u32).map(|d| (2024, 2, d))).chain((28..=30u32).map(|d| (1900, 2, d))) {
        dt_in.push(vec![0x1f, 0x0e, 4, two(y / 100), two(y % 100), two(m), two(d), 0x1f, 0x0f, 3, 0x12, 0x00, 0x00]);
    }
    for (h, m, s) in [(24u32, 0u32, 0u32), (23, 60, 0), (23, 59, 60), (99, 99, 99), (0, 0, 0)] {
        dt_in.push(vec![0x1f, 0x0e, 4, 0x20, 0x23, 0x06, 0x15, 0x1f, 0x0f, 3, two(h), two(m), two(s)]);
    }
    dt_in.push(vec![0x1f, 0x0e, 6, 0x42, 0x94, 0x98, 0x74, 0x10, 0x01, 0x1f, 0x0f, 3, 0x12, 0, 0]); // date beyond 32 bit
    dt_in.push(vec![0x1f, 0x0e, 5, 0x01, 0x20, 0x23, 0x06, 0x15, 0x1f, 0x0f, 3, 0x12, 0, 0]); // five-digit year
    dt_in.push(vec![0x1f, 0x0e, 4, 0x20, 0x23, 0x06, 0x15, 0x1f, 0x0f, 5, 0x42, 0x94, 0x96, 0x72, 0x96]); // time = 2^32
    dt_in.push(vec![0x1f, 0x0e, 0x82, 0x00]);
    dt_in.push(vec![0x1f, 0x0e, 0x09, 0x01]);
    for i in dt_in.iter() {
        let r = guarded(|| <encoding::Default as Encoding<chrono::NaiveDateTime>>::decode(i));
        out.row("DateTime", "datetime", "dec", &bytes_json(i), &dec_outcome(i, r, |v: &chrono::NaiveDateTime| {
            use chrono::{Datelike, Timelike};
            format!("[{},{},{},{},{},{}]", v.year(), v.month(), v.day(), v.hour(), v.minute(), v.second())
        }));
    }
    out.finish();
    for (k, (_, n)) in out.files.iter() {
        println!("{k} {n}");
    }
    Ok(())
}

/// CP437 bytes to a Rust string by way of the code's own decoder but without trimming: used only to
/// obtain *inputs* for the text encoder; the expected bytes come from the specification's table.
fn yore_free_cp437(b: &[u8]) -> String {
    // decode byte by byte so that trailing NULs survive
    b.iter()
        .map(|x| {
            if *x == 0 {
                "\0".to_string()
            } else {
                <encoding::Default as Encoding<String>>::decode(&[*x]).map(|r| r.0).unwrap_or_default()
            }
        })
        .collect()
}
