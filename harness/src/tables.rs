//! Exhaustive tables of the length-prefix styles and scalar encodings of the real code.
use crate::util::*;
use zvt::length::{self, Length};
use zvt::ZVTError;

type Ser = fn(usize) -> Vec<u8>;
type De = for<'a> fn(&'a [u8]) -> zvt::ZVTResult<(usize, &'a [u8])>;

fn style(name: &str) -> Option<(Ser, De, usize)> {
    macro_rules! fixed {
        ($($n:literal),*) => {
            match name {
                $( concat!("Fixed", stringify!($n)) => return Some((
                    <length::Fixed<$n> as Length>::serialize as Ser,
                    <length::Fixed<$n> as Length>::deserialize as De, $n)), )*
                _ => {}
            }
        };
    }
    fixed!(1, 2, 3, 4, 5, 6, 7, 8, 9, 10, 11, 12, 13, 14, 15, 16, 17);
    match name {
        "Empty" => Some((<length::Empty as Length>::serialize, <length::Empty as Length>::deserialize, 65535)),
        "Llv" => Some((<length::Llv as Length>::serialize, <length::Llv as Length>::deserialize, 99)),
        "Lllv" => Some((<length::Lllv as Length>::serialize, <length::Lllv as Length>::deserialize, 999)),
        "Tlv" => Some((<length::Tlv as Length>::serialize, <length::Tlv as Length>::deserialize, 65535)),
        "Adpu" => Some((<length::Adpu as Length>::serialize, <length::Adpu as Length>::deserialize, 65535)),
        _ => None,
    }
}

pub const STYLES: &[&str] = &[
    "Empty", "Llv", "Lllv", "Tlv", "Adpu", "Fixed1", "Fixed2", "Fixed3", "Fixed4", "Fixed5", "Fixed6",
    "Fixed7", "Fixed8", "Fixed9", "Fixed10", "Fixed11", "Fixed12", "Fixed13", "Fixed14", "Fixed15",
    "Fixed16", "Fixed17",
];

pub fn err_kind(e: &ZVTError) -> &'static str {
    match e {
        ZVTError::IncompleteData => "Incomplete",
        ZVTError::MissingRequiredTags(_) => "MissingRequiredTags",
        ZVTError::NonImplemented => "NonImplemented",
        ZVTError::WrongTag(_) => "WrongTag",
        ZVTError::DuplicateTag(_) => "DuplicateTag",
        ZVTError::Aborted(_) => "Aborted",
    }
}

/// Outcome code of a length parser: len * 8 + consumed, or -1 Incomplete, -2 NonImplemented,
/// -3 other error, -4 panic, -5 the returned remainder is not the tail of the input.
fn de_code(de: De, input: &[u8]) -> i64 {
    match guarded(|| de(input).map(|(n, r)| (n, suffix_offset(input, r)))) {
        Err(_) => -4,
        Ok(Err(ZVTError::IncompleteData)) => -1,
        Ok(Err(ZVTError::NonImplemented)) => -2,
        Ok(Err(_)) => -3,
        Ok(Ok((_, None))) => -5,
        Ok(Ok((n, Some(off)))) => (n as i64) * 8 + off as i64,
    }
}

/// len-ser <out.json>: for every style every representable length -> the emitted prefix.
/// One JSON object: {"rows":[[style, n, [bytes] | [-4] for a panic], ...]}
pub fn len_ser(args: &[String]) -> anyhow::Result<()> {
    let mut w = out_file(&args[0])?;
    let mut first = true;
    use std::io::Write;
    write!(w, "{{\"rows\":[")?;
    for st in STYLES {
        let (ser, _, max) = style(st).unwrap();
        for n in 0..=max {
            let cell = match guarded(|| ser(n)) {
                Ok(b) => bytes_json(&b),
                Err(_) => "[-4]".to_string(),   // a panic: a cell no prefix can equal
            };
            if !first {
                write!(w, ",")?;
            }
            first = false;
            write!(w, "[\"{st}\",{n},{cell}]")?;
        }
    }
    write!(w, "]}}")?;
    Ok(())
}

/// len-de <out.json> <grid: comma separated byte values>: every string of length 0..2 over all
/// bytes, and every 3-byte string b0 b1 b2 with b0 in 0..255 and b1, b2 in the grid, plus for
/// every style and a sample of lengths the emitted prefix followed by trailing data.
/// {"rows":[[style,[bytes],code],...]}
pub fn len_de(args: &[String]) -> anyhow::Result<()> {
    use std::io::Write;
    let mut w = out_file(&args[0])?;
    let grid: Vec<u8> = args[1].split(',').map(|s| s.parse().unwrap()).collect();
    write!(w, "{{\"rows\":[")?;
    let mut first = true;
    let mut emit = |w: &mut std::io::BufWriter<std::fs::File>, st: &str, input: &[u8], code: i64| -> anyhow::Result<()> {
        if !first {
            write!(w, ",")?;
        }
        first = false;
        write!(w, "[\"{st}\",{},{code}]", bytes_json(input))?;
        Ok(())
    };
    for st in STYLES {
        let (ser, de, max) = style(st).unwrap();
        emit(&mut w, st, &[], de_code(de, &[]))?;
        for b0 in 0..=255u8 {
            emit(&mut w, st, &[b0], de_code(de, &[b0]))?;
        }
        if !st.starts_with("Fixed") || *st == "Fixed1" || *st == "Fixed2" || *st == "Fixed3" {
            for b0 in 0..=255u8 {
                for b1 in 0..=255u8 {
                    emit(&mut w, st, &[b0, b1], de_code(de, &[b0, b1]))?;
                }
            }
            for b0 in 0..=255u8 {
                for b1 in &grid {
                    for b2 in &grid {
                        let i = [b0, *b1, *b2];
                        emit(&mut w, st, &i, de_code(de, &i))?;
                    }
                }
            }
        }
        // prefix followed by trailing data
        let trailers: [&[u8]; 5] = [&[], &[0], &[255], &[129, 1], &[1, 2, 3, 4, 5, 6, 7]];
        let mut n = 0usize;
        while n <= max {
            if let Ok(p) = guarded(|| ser(n)) {
                for t in trailers.iter() {
                    let mut i = p.clone();
                    if st.starts_with("Fixed") {
                        // the payload itself completes the fixed width
                        i.extend(std::iter::repeat(7u8).take(n));
                    }
                    i.extend_from_slice(t);
                    emit(&mut w, st, &i, de_code(de, &i))?;
                }
            }
            n += if max > 1000 { 1 + n / 37 } else { 1 };
        }
    }
    write!(w, "]}}")?;
    Ok(())
}

/// len-de3 <style> <b0 lo> <b0 hi> <out.json>: all 3-byte strings with lo <= b0 <= hi.
/// {"style":..,"lo":..,"codes":[[[code x256] x256] x (hi-lo+1)]}
pub fn len_de3(args: &[String]) -> anyhow::Result<()> {
    use std::io::Write;
    let st = &args[0];
    let lo: usize = args[1].parse()?;
    let hi: usize = args[2].parse()?;
    let (_, de, _) = style(st).ok_or(anyhow::anyhow!("style"))?;
    let mut w = out_file(&args[3])?;
    write!(w, "{{\"style\":\"{st}\",\"lo\":{lo},\"codes\":[")?;
    for b0 in lo..=hi {
        if b0 > lo {
            write!(w, ",")?;
        }
        write!(w, "[")?;
        for b1 in 0..=255usize {
            if b1 > 0 {
                write!(w, ",")?;
            }
            write!(w, "[")?;
            for b2 in 0..=255usize {
                if b2 > 0 {
                    write!(w, ",")?;
                }
                write!(w, "{}", de_code(de, &[b0 as u8, b1 as u8, b2 as u8]))?;
            }
            write!(w, "]")?;
        }
        write!(w, "]")?;
    }
    write!(w, "]}}")?;
    Ok(())
}
