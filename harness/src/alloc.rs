//! Counting global allocator: peak bytes allocated since the last reset (for C02's allocation bound).
use std::alloc::{GlobalAlloc, Layout, System};
use std::sync::atomic::{AtomicUsize, Ordering};

pub struct Counting;
static CUR: AtomicUsize = AtomicUsize::new(0);
static PEAK: AtomicUsize = AtomicUsize::new(0);

unsafe impl GlobalAlloc for Counting {
    unsafe fn alloc(&self, l: Layout) -> *mut u8 {
        let p = System.alloc(l);
        if !p.is_null() {
            let c = CUR.fetch_add(l.size(), Ordering::Relaxed) + l.size();
            PEAK.fetch_max(c, Ordering::Relaxed);
        }
        p
    }
    unsafe fn dealloc(&self, p: *mut u8, l: Layout) {
        CUR.fetch_sub(l.size(), Ordering::Relaxed);
        System.dealloc(p, l)
    }
    unsafe fn realloc(&self, p: *mut u8, l: Layout, new: usize) -> *mut u8 {
        let q = System.realloc(p, l, new);
        if !q.is_null() {
            if new >= l.size() {
                let c = CUR.fetch_add(new - l.size(), Ordering::Relaxed) + (new - l.size());
                PEAK.fetch_max(c, Ordering::Relaxed);
            } else {
                CUR.fetch_sub(l.size() - new, Ordering::Relaxed);
            }
        }
        q
    }
}

/// Start a measurement: returns the baseline.
pub fn mark() -> usize {
    let c = CUR.load(Ordering::Relaxed);
    PEAK.store(c, Ordering::Relaxed);
    c
}
/// Peak above the baseline since `mark`.
pub fn peak_since(base: usize) -> usize {
    PEAK.load(Ordering::Relaxed).saturating_sub(base)
}
