use std::io::Write;
use std::panic::{catch_unwind, AssertUnwindSafe};

/// Deterministic PRNG (splitmix64) - the same stream for a seed on every toolchain.
pub struct Rng(pub u64);
impl Rng {
    pub fn new(seed: u64) -> Self {
        Rng(seed.wrapping_mul(0x9E3779B97F4A7C15).wrapping_add(0x1234_5678_9ABC_DEF1))
    }
    pub fn next(&mut self) -> u64 {
        self.0 = self.0.wrapping_add(0x9E3779B97F4A7C15);
        let mut z = self.0;
        z = (z ^ (z >> 30)).wrapping_mul(0xBF58476D1CE4E5B9);
        z = (z ^ (z >> 27)).wrapping_mul(0x94D049BB133111EB);
        z ^ (z >> 31)
    }
    pub fn below(&mut self, n: u64) -> u64 {
        if n == 0 { 0 } else { self.next() % n }
    }
    pub fn range(&mut self, lo: u64, hi: u64) -> u64 {
        lo + self.below(hi - lo + 1)
    }
    pub fn chance(&mut self, num: u64, den: u64) -> bool {
        self.below(den) < num
    }
    pub fn pick<'a, T>(&mut self, v: &'a [T]) -> &'a T {
        &v[self.below(v.len() as u64) as usize]
    }
    pub fn bytes(&mut self, n: usize) -> Vec<u8> {
        (0..n).map(|_| self.next() as u8).collect()
    }
}

/// Runs `f`, turning a panic into `Err(message)`.
pub fn guarded<T>(f: impl FnOnce() -> T) -> Result<T, String> {
    catch_unwind(AssertUnwindSafe(f)).map_err(|e| {
        if let Some(s) = e.downcast_ref::<&str>() {
            s.to_string()
        } else if let Some(s) = e.downcast_ref::<String>() {
            s.clone()
        } else {
            "panic".to_string()
        }
    })
}

pub fn out_file(path: &str) -> anyhow::Result<std::io::BufWriter<std::fs::File>> {
    Ok(std::io::BufWriter::with_capacity(1 << 20, std::fs::File::create(path)?))
}

pub fn bytes_json(b: &[u8]) -> String {
    let mut s = String::with_capacity(b.len() * 4 + 2);
    s.push('[');
    for (i, x) in b.iter().enumerate() {
        if i > 0 {
            s.push(',');
        }
        s.push_str(&x.to_string());
    }
    s.push(']');
    s
}

pub fn json_str(s: &str) -> String {
    serde_json::to_string(s).unwrap()
}

pub fn wl(w: &mut impl Write, s: &str) -> anyhow::Result<()> {
    w.write_all(s.as_bytes())?;
    w.write_all(b"\n")?;
    Ok(())
}

/// Offset of `rest` inside `whole` if it is a true suffix slice of it.
pub fn suffix_offset(whole: &[u8], rest: &[u8]) -> Option<usize> {
    if rest.len() > whole.len() {
        return None;
    }
    let off = whole.len() - rest.len();
    if &whole[off..] == rest {
        Some(off)
    } else {
        None
    }
}
