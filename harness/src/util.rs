use std::io::Write;
use std::panic::{catch_unwind, AssertUnwindSafe};

/// Deterministic PRNG (splitmix64) - the same stream for a seed on every toolchain.
pub struct Rng(pub u64);
impl Rng {
    pub fn new(seed: u64) -> Self {
        Rng(seed.wrapping_mul(0x9E3779B97F4A7C15).wrapping_add(0x1234_5678_9ABC_DEF1))
    }
    pub fn next(&mut self) -> u64 {
        self.0 = self.0.wrapping_add(0x9E3779B97F4A7C15);
        let mut z = self.0;
        z = (z ^ (z >> 30)).wrapping_mul(0xBF58476D1CE4E5B9);
        z = (z ^ (z >> 27)).wrapping_mul(0x94D049BB133111EB);
        z ^ (z >> 31)
    }
    pub fn below(&mut self, n: u64) -> u64 {
        if n == 0 { 0 } else { self.next() % n }
    }
    pub fn range(&mut self, lo: u64, hi: u64) -> u64 {
        lo + self.below(hi - lo + 1)
    }
    pub fn chance(&mut self, num: u64, den: u64) -> bool {
        self.below(den) < num
    }
    pub fn pick<'a, T>(&mut self, v: &'a [T]) -> &'a T {
        &v[self.below(v.len() as u64) as usize]
    }
    pub fn bytes(&mut self, n: usize) -> Vec<u8> {
        (0..n).map(|_| self.next() as u8).collect()
    }
}

/// Runs `f`, turning a panic into `Err(message)`.
pub fn guarded<T>(f: impl FnOnce() -> T) -> Result<T, String> {
    catch_unwind(AssertUnwindSafe(f)).map_err(|e| {
        if let Some(s) = e.downcast_ref::<&str>() {
            s.to_string()
        } else if let Some(s) = e.downcast_ref::<String>() {
            s.clone()
        } else {
            "panic".to_string()
        }
    })
}

pub fn out_file(path: &str) -> anyhow::Result<std::io::BufWriter<std::fs::File>> {
    Ok(std::io::BufWriter::with_capacity(1 << 20, std::fs::File::create(path)?))
}

pub fn bytes_json(b: &[u8]) -> String {
    let mut s = String::with_capacity(b.len() * 4 + 2);
    s.push('[');
    for (i, x) in b.iter().enumerate() {
        if i > 0 {
            s.push(',');
        }
        s.push_str(&x.to_string());
    }
    s.push(']');
    s
}

pub fn json_str(s: &str) -> String {
    serde_json::to_string(s).unwrap()
}

pub fn wl(w: &mut impl Write, s: &str) -> anyhow::Result<()> {
    w.write_all(s.as_bytes())?;
    w.write_all(b"\n")?;
    Ok(())
}

/// Offset of `rest` inside `whole` if it is a true suffix slice of it.
pub fn suffix_offset(whole: &[u8], rest: &[u8]) -> Option<usize> {
    if rest.len() > whole.len() {
        return None;
    }
    let off = whole.len() - rest.len();
    if &whole[off..] == rest {
        Some(off)
    } else {
        None
    }
}


/// A logger that evaluates and formats every record it is given (and throws the text away): code under test logs through the
/// `log` facade, and the arguments of a log statement are only evaluated when a logger is enabled at that level - as they are in
/// an application.  Level from ZVTH_LOG (error | warn | info | debug | trace | off), default error.
struct FormattingLogger;
struct NullWriter(usize);
impl std::fmt::Write for NullWriter {
    fn write_str(&mut self, s: &str) -> std::fmt::Result {
        self.0 += s.len();
        Ok(())
    }
}
impl log::Log for FormattingLogger {
    fn enabled(&self, _: &log::Metadata) -> bool {
        true
    }
    fn log(&self, record: &log::Record) {
        use std::fmt::Write;
        let mut w = NullWriter(0);
        let _ = write!(w, "{} {}", record.target(), record.args());
    }
    fn flush(&self) {}
}
static LOGGER: FormattingLogger = FormattingLogger;
pub fn install_logger() {
    let level = match std::env::var("ZVTH_LOG").unwrap_or_else(|_| "error".into()).as_str() {
        "off" => log::LevelFilter::Off,
        "warn" => log::LevelFilter::Warn,
        "info" => log::LevelFilter::Info,
        "debug" => log::LevelFilter::Debug,
        "trace" => log::LevelFilter::Trace,
        _ => log::LevelFilter::Error,
    };
    if log::set_logger(&LOGGER).is_ok() {
        log::set_max_level(level);
    }
}
