//! Registry of the reply parsers (ZvtParser enums) of the real code.
use crate::debugparse::parse_debug;
use crate::tables::err_kind;
use crate::util::*;
use serde_json::{json, Value};
use zvt::{ZVTError, ZvtParser};

pub struct ParseOut {
    pub st: &'static str, // ok | err | panic
    pub variant: String,
    pub val: Value,
    pub kind: &'static str,
    pub tags: Vec<u16>,
    pub debug: String,
}

fn finish(r: Result<Result<String, ZVTError>, String>) -> ParseOut {
    let mut o = ParseOut { st: "ok", variant: String::new(), val: json!({}), kind: "", tags: vec![], debug: String::new() };
    match r {
        Err(_) => o.st = "panic",
        Ok(Err(e)) => {
            o.st = "err";
            o.kind = err_kind(&e);
            o.tags = match &e {
                ZVTError::MissingRequiredTags(t) => t.iter().map(|t| t.0).collect(),
                ZVTError::WrongTag(t) | ZVTError::DuplicateTag(t) => vec![t.0],
                _ => vec![],
            };
        }
        Ok(Ok(dbg)) => {
            // `Variant(Content { .. })`
            match parse_debug(&dbg) {
                Ok(Value::Object(m)) if m.len() == 1 => {
                    let (k, v) = m.into_iter().next().unwrap();
                    o.variant = k;
                    o.val = v;
                }
                _ => o.st = "harness-error",
            }
            o.debug = dbg;
        }
    }
    o
}

fn parse_with<E: ZvtParser + std::fmt::Debug>(b: &[u8]) -> ParseOut {
    finish(guarded(|| E::zvt_parse(b).map(|v| format!("{:?}", v))))
}

fn parse_ack(b: &[u8]) -> ParseOut {
    // io::Ack does not derive Debug
    finish(guarded(|| {
        zvt::io::Ack::zvt_parse(b).map(|v| match v {
            zvt::io::Ack::Ack(p) => format!("Ack({:?})", p),
            // a variant this harness does not know (the enum grew): still a variant returned for a control field
            #[allow(unreachable_patterns)]
            _ => "Other(Unknown)".to_string(),
        })
    }))
}

pub type Parser = fn(&[u8]) -> ParseOut;

use zvt::feig::sequences as fs;
use zvt::sequences as s;

pub const ENUMS: &[(&str, Parser)] = &[
    ("Ack", parse_ack),
    ("RegistrationResponse", parse_with::<s::RegistrationResponse>),
    ("ReadCardResponse", parse_with::<s::ReadCardResponse>),
    ("InitializationResponse", parse_with::<s::InitializationResponse>),
    ("SetTerminalIdResponse", parse_with::<s::SetTerminalIdResponse>),
    ("ResetTerminalResponse", parse_with::<s::ResetTerminalResponse>),
    ("DiagnosisResponse", parse_with::<s::DiagnosisResponse>),
    ("EndOfDayResponse", parse_with::<s::EndOfDayResponse>),
    ("AuthorizationResponse", parse_with::<s::AuthorizationResponse>),
    ("PartialReversalResponse", parse_with::<s::PartialReversalResponse>),
    ("PrintSystemConfigurationResponse", parse_with::<s::PrintSystemConfigurationResponse>),
    ("SelectLanguageResponse", parse_with::<s::SelectLanguageResponse>),
    ("StatusEnquiryResponse", parse_with::<s::StatusEnquiryResponse>),
    ("GetSystemInfoResponse", parse_with::<fs::GetSystemInfoResponse>),
    ("WriteFileResponse", parse_with::<fs::WriteFileResponse>),
    ("FactoryResetResponse", parse_with::<fs::FactoryResetResponse>),
    ("ChangeHostConfigurationResponse", parse_with::<fs::ChangeHostConfigurationResponse>),
];

pub fn parser(name: &str) -> Option<Parser> {
    ENUMS.iter().find(|(n, _)| *n == name).map(|(_, p)| *p)
}
