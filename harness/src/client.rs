//! L4 conformance: the real `Feig` client against a simulated payment terminal, on tokio's paused clock.
//!
//! client-run <scenarios.ndjson> <out.ndjson>
//!   scenario: {"config": {...}, "term": {...}, "calls": [...], "plan": {"exchanges": [...], "handshake": [...]} , ...passed through}
//!   out:      scenario fields + {"trace": [events]}
//! The terminal runs inline in the connection's poll_write (no second task, no scheduling nondeterminism); silence is
//! "nothing enqueued", so only the client's own timers can fire and the paused clock jumps to them.  Every public call
//! runs under a one-virtual-day watchdog.  Events carry `t` = virtual milliseconds since the scenario started.
use crate::util::*;
use serde_json::{json, Value};
use std::collections::VecDeque;
use std::io::{BufRead, Write};
use std::pin::Pin;
use std::sync::{Arc, Mutex};
use std::task::{Context, Poll, Waker};
use tokio::io::{AsyncRead, AsyncWrite, ReadBuf};

use zvt::packets as p;
use zvt::packets::tlv as t;
use zvt::ZvtSerializer;
use zvt_feig_terminal::config::{Config, FeigConfig};
use zvt_feig_terminal::feig::{CardInfo, Feig};
use zvt_feig_terminal::verif_hook::{set_connector, ConnectFuture, Connector, Duplex};

fn now_ms(start: tokio::time::Instant) -> u64 {
    (tokio::time::Instant::now() - start).as_millis() as u64
}

fn digits(n: u128) -> Value {
    if n == 0 {
        return json!([]);
    }
    json!(n.to_string().bytes().map(|c| (c - b'0') as u32).collect::<Vec<_>>())
}

fn from_digits(v: &Value) -> u128 {
    v.as_array().map(|a| a.iter().fold(0u128, |acc, d| acc * 10 + d.as_u64().unwrap_or(0) as u128)).unwrap_or(0)
}

fn bytes_of(v: &Value) -> Vec<u8> {
    v.as_array().map(|a| a.iter().map(|x| x.as_u64().unwrap_or(0) as u8).collect()).unwrap_or_default()
}

/// Per-connection state.
#[derive(Default)]
struct ConnState {
    id: u64,
    rbuf: VecDeque<u8>, // bytes the client may read
    wbuf: Vec<u8>,      // bytes written by the client, not yet a whole frame
    closed: bool,       // the terminal closed the connection: EOF after rbuf
    dropped: bool,      // the client dropped it
    waker: Option<Waker>,
    // the exchange in progress on this connection
    pending: VecDeque<Vec<u8>>, // reply frames still to send, one per acknowledgement
    ex: u64,
    pos: u64, // frames sent in this exchange so far
    fault: Option<(u64, String)>,
    delay_ms: u64,
    split: bool, // the delayed reply arrives in two halves: one at once, one after the delay
    delays: Vec<u64>, // delay of the reply frame at position 1, 2, ... (overrides delay_ms)
    hs_stage: u64,
    unacked: bool, // a reply frame was handed to the client and not acknowledged yet
    // frame boundaries inside rbuf: (bytes still unread, exchange, position, a planned well-formed frame?)
    marks: VecDeque<(usize, u64, u64, bool)>,
    frames: VecDeque<Vec<u8>>, // the bytes of the planned frames behind `marks` (same order, planned ones only)
}

/// Queue bytes for the client and remember where the frame ends, so that the moment the client has consumed it can be logged.
fn push_frame(c: &mut ConnState, bytes: &[u8], ex: u64, pos: u64, planned: bool) {
    if bytes.is_empty() {
        return;
    }
    c.rbuf.extend(bytes.iter().copied());
    c.marks.push_back((bytes.len(), ex, pos, planned));
    if planned {
        c.frames.push_back(bytes.to_vec());
    }
}

/// Events one public call may produce before it counts as running away (a fault-free call needs a few dozen, 20 failed attempts
/// a few hundred).
const EVENT_BUDGET: usize = 40_000;

pub struct Term {
    // at most this many bytes per read of the client (0 = everything that is there): replies arrive in segments
    chunk: usize,
    // at most this many bytes accepted per write of the client (0 = all): partial writes
    wchunk: usize,
    // reply scripts per command kind (plan.scripts): the next command of that kind is answered by the next script of its queue
    scripts: std::collections::HashMap<String, VecDeque<Value>>,
    call_mark: usize,
    runaway: bool,
    start: tokio::time::Instant,
    events: Vec<Value>,
    conns: Vec<Arc<Mutex<ConnState>>>,
    next_conn: u64,
    next_ex: u64,
    plan: VecDeque<Value>,
    handshake: VecDeque<Value>,
    handshake_default: Value,   // what a (re)connect meets once the queue is used up ({} = a sound terminal)
    default_plan: Value,
    serial: String,
    terminal_id: String,
    // ledger of open pre-authorisations: receipt -> (amount digits, token bytes)
    ledger: Vec<(u64, u128, Vec<u8>)>,
    next_receipt: u64,
    booked: u128,
}

type Shared = Arc<Mutex<Term>>;

impl Term {
    fn log(&mut self, mut e: Value) {
        e["t"] = json!(now_ms(self.start));
        self.events.push(e);
        if self.events.len() > self.call_mark + EVENT_BUDGET {
            // a call that keeps talking without ever returning: from here on the terminal is silent for good, so that only the
            // one-virtual-day watchdog is left (the call is reported as hanging instead of filling the memory)
            self.runaway = true;
        }
    }
    fn ledger_event(&mut self) {
        let open: Vec<Value> = self.ledger.iter().map(|(r, a, tok)| json!([r, digits(*a), tok])).collect();
        let b = digits(self.booked);
        self.log(json!({"e": "ledger", "open": open, "booked": b}));
    }
}

fn completion() -> Vec<u8> {
    p::CompletionData::default().zvt_serialize()
}
// (the terminal's frames are assembled byte by byte where the packet has no Default: the simulated terminal does not depend on the
// field list of the library's structs)
fn abort(code: u8) -> Vec<u8> {
    vec![0x06, 0x1e, 0x01, code]
}
/// 06 1E with the receipt number of 2.10.1: BMP 87, two bytes BCD, FFFF for "none"
fn abort_with_receipt(code: u8, receipt: Option<usize>) -> Vec<u8> {
    match receipt {
        None => abort(code),
        Some(0xffff) => vec![0x06, 0x1e, 0x04, code, 0x87, 0xff, 0xff],
        Some(r) => {
            let r = r % 10000;
            let b = |x: usize| (((x / 10) << 4) | (x % 10)) as u8;
            vec![0x06, 0x1e, 0x04, code, 0x87, b(r / 100), b(r % 100)]
        }
    }
}
fn intermediate_n(k: u64) -> Vec<u8> {
    // the status byte rotates: "please wait", "please watch PIN-pad" (01, 02), "card not admitted" ...
    let status = [0x0au8, 0x01, 0x17, 0x02, 0x00, 0xff][(k % 6) as usize];
    vec![0x04, 0xff, 0x01, status]
}
fn intermediate() -> Vec<u8> {
    intermediate_n(0)
}
const ACK: [u8; 3] = [0x80, 0x00, 0x00];

/// Build the terminal's reply script for a command frame. Returns (frames after the Ack, outcome label, code).
fn script_for(term: &mut Term, frame: &[u8], plan: &Value) -> (Vec<Vec<u8>>, String, Value) {
    let cf = (frame[0], frame[1]);
    if let Some(script) = plan.get("script").and_then(|x| x.as_array()) {
        // an explicit reply script: the frames as given, one per acknowledgement; the ledger is not touched
        return (script.iter().map(bytes_of).collect(), "script".to_string(), Value::Null);
    }
    let o = plan["o"].as_str().unwrap_or("ok").to_string();
    let code = plan.get("code").and_then(|c| c.as_u64()).unwrap_or(0) as u8;
    let mut frames: Vec<Vec<u8>> = vec![];
    // intermediate statuses in front of the answer - not for the pending query, whose regular answer is a single 06 1E packet
    let is_query = cf == (0x06, 0x23) && frame.windows(3).any(|w| w == [0x87, 0xff, 0xff]);
    // one-shot exchanges (registration, system information, set terminal id) have no intermediate packets in their reply set; card
    // reading has no print lines
    let one_shot = matches!(cf, (0x06, 0x00) | (0x0f, 0xa1) | (0x06, 0x1b));
    for k in 0..plan.get("inter").and_then(|c| c.as_u64()).filter(|_| !is_query && !one_shot).unwrap_or(0) {
        // (the plan may name the status byte; otherwise it rotates)
        match plan.get("inter_status").and_then(|v| v.as_u64()) {
            Some(st) => frames.push(vec![0x04, 0xff, 0x01, st as u8]),
            None => frames.push(intermediate_n(term.next_ex + k)),
        }
    }
    for _ in 0..plan.get("lines").and_then(|c| c.as_u64()).filter(|_| !is_query && !one_shot && cf != (0x06, 0xc0)).unwrap_or(0) {
        frames.push([&[0x06u8, 0xd1, 13, 0][..], &b"receipt line"[..]].concat());
    }
    let status_from = |s: &Value, receipt: Option<usize>| -> p::StatusInformation {
        let g = |k: &str| s.get(k).filter(|v| !v.is_null()).map(|v| from_digits(v) as usize);
        p::StatusInformation {
            // (the host's verdict: 0 unless the plan says the payment was declined)
            result_code: Some(plan.get("status_result").and_then(|v| v.as_u64()).unwrap_or(0) as u8),
            amount: g("amount"),
            trace_number: g("trace"),
            date: g("date"),
            time: g("time"),
            terminal_id: g("terminal_id"),
            currency: g("currency"),
            receipt_no: receipt,
            ..p::StatusInformation::default()
        }
    };
    let empty = json!({});
    // a status information in front of the final packet of the exchange (reservation, reversals, end of day)
    let status_first = plan.get("status_first").and_then(|b| b.as_bool()).unwrap_or(false);
    // an abort that names a receipt number (06 1E 04 cc 87 rr rr) instead of the short form 06 1E 01 cc
    let abort_receipt: Option<usize> = plan.get("abort_receipt").and_then(|r| r.as_u64()).map(|r| r as usize);
    let abort_rn = |code: u8| -> Vec<u8> { abort_with_receipt(code, abort_receipt) };
    match cf {
        (0x06, 0x00) => {
            // Registration: a bare completion, or one that reports status byte, terminal id and currency (2.1.3)
            if o == "abort" {
                frames.push(abort(code))
            } else if plan.get("rich").and_then(|b| b.as_bool()).unwrap_or(false) {
                let tid = plan.get("terminal_id").and_then(|s| s.as_str()).unwrap_or(&term.terminal_id).parse::<usize>().unwrap_or(0);
                frames.push(p::CompletionData { status_byte: Some(0), terminal_id: Some(tid), currency: Some(978), ..p::CompletionData::default() }.zvt_serialize());
            } else {
                frames.push(completion())
            }
        }
        (0x0f, 0xa1) => {
            // Feig system information
            if o == "abort" {
                frames.push(abort(code));
            } else {
                let serial = plan.get("serial").and_then(|s| s.as_str()).unwrap_or(&term.serial).to_string();
                let tid = plan.get("terminal_id").and_then(|s| s.as_str()).unwrap_or(&term.terminal_id).to_string();
                // 06 0F 25: device id (8), software version (17), terminal id (8), temperature (4) - byte by byte, like the other frames
                let fit = |x: &str, n: usize| -> Vec<u8> { format!("{:<w$}", x, w = n).bytes().take(n).collect() };
                let mut f = vec![0x06u8, 0x0f, 37];
                f.extend(fit(&serial, 8));
                f.extend(fit("GER-APP-v2.0.9", 17));
                f.extend(fit(&tid, 8));
                f.extend(b"24.4");
                frames.push(f);
            }
        }
        (0x06, 0x22) => {
            // Reservation
            let req = p::Reservation::zvt_deserialize(frame).ok().map(|x| x.0);
            match o.as_str() {
                "abort" => {
                    if status_first {
                        // a declined payment: a status information that already carries a receipt number, then the abort
                        let r = term.next_receipt;
                        term.next_receipt = if r >= 9999 { 1 } else { r + 1 };
                        frames.push(status_from(&empty, Some(r as usize)).zvt_serialize());
                    }
                    frames.push(abort(code))
                }
                "noreceipt" => {
                    if plan.get("open").and_then(|b| b.as_bool()).unwrap_or(false) {
                        let r = term.next_receipt;
                        term.next_receipt = if r >= 9999 { 1 } else { r + 1 };
                        let amt = req.as_ref().and_then(|r| r.amount).unwrap_or(0) as u128;
                        term.ledger.push((r, amt, vec![]));
                    }
                    frames.push(status_from(plan.get("status").unwrap_or(&empty), None).zvt_serialize());
                    frames.push(completion());
                }
                _ => {
                    let r = plan.get("receipt").and_then(|c| c.as_u64()).unwrap_or(term.next_receipt).clamp(0, 9999);
                    term.next_receipt = if r >= 9999 { 1 } else { r + 1 };
                    let amt = req.as_ref().and_then(|r| r.amount).unwrap_or(0) as u128;
                    let tok = req.as_ref().and_then(|r| r.tlv.as_ref()).and_then(|t| t.bmp_data.as_ref()).map(|b| b.bmp_data.clone().into_bytes()).unwrap_or_default();
                    term.ledger.push((r, amt, tok));
                    // optionally an earlier status information without a receipt number first
                    if plan.get("early_status").and_then(|b| b.as_bool()).unwrap_or(false) {
                        frames.push(status_from(&empty, None).zvt_serialize());
                    }
                    if plan.get("two_receipts").and_then(|b| b.as_bool()).unwrap_or(false) {
                        // a status information with a receipt number that is superseded by the next one: the reservation is booked
                        // under the LAST number
                        let first = if r >= 9999 { 1 } else { r + 1 };
                        frames.push(status_from(&empty, Some(first as usize)).zvt_serialize());
                        term.next_receipt = if first >= 9999 { 1 } else { first + 1 };
                    }
                    frames.push(status_from(plan.get("status").unwrap_or(&empty), Some(r as usize)).zvt_serialize());
                    if plan.get("late_status").and_then(|b| b.as_bool()).unwrap_or(false) {
                        // a further status information that does not repeat the receipt number
                        frames.push(status_from(&empty, None).zvt_serialize());
                    }
                    frames.push(completion());
                }
            }
        }
        (0x06, 0x23) => {
            // Partial reversal: the pending query (receipt FFFF) or the release of the unused amount
            let req = p::PartialReversal::zvt_deserialize(frame).ok().map(|x| x.0);
            let receipt = req.as_ref().and_then(|r| r.receipt_no).unwrap_or(0) as u64;
            if receipt == 0xffff {
                match o.as_str() {
                    "unexpected" => {
                        match plan.get("kind").and_then(|k| k.as_str()).unwrap_or("intermediate") {
                            "completion" => frames.push(completion()),
                            "status" => frames.push(status_from(&empty, None).zvt_serialize()),
                            _ => {
                                frames.push(intermediate());
                                frames.push(abort_with_receipt(0xb8, Some(0xffff)));
                            }
                        }
                    }
                    _ => {
                        // the regular answer: an 06 1E carrying the receipt number of a pending pre-authorisation, or FFFF / nothing
                        let c = if plan.get("code").is_some() { code } else { 0xb8 };
                        let rn = match plan.get("receipt") {
                            Some(Value::Null) => None,
                            Some(v) => Some(v.as_u64().unwrap_or(0xffff) as usize),
                            None => term.ledger.iter().find(|(_, _, tok)| tok.is_empty()).map(|(r, _, _)| *r as usize).or(Some(0xffff)),
                        };
                        frames.push(abort_with_receipt(c, rn));
                    }
                }
            } else {
                match o.as_str() {
                    "abort" => {
                        if status_first {
                            frames.push(status_from(plan.get("status").unwrap_or(&empty), Some(receipt as usize)).zvt_serialize());
                        }
                        frames.push(abort_rn(code))
                    }
                    "ok_nostatus" => {
                        term.ledger.retain(|(r, _, _)| *r != receipt);
                        frames.push(completion());
                    }
                    _ => {
                        if let Some(pos) = term.ledger.iter().position(|(r, _, _)| *r == receipt) {
                            let (_, amt, _) = term.ledger.remove(pos);
                            let released = req.as_ref().and_then(|r| r.amount).unwrap_or(0) as u128;
                            term.booked += amt.saturating_sub(released);
                        }
                        frames.push(status_from(plan.get("status").unwrap_or(&empty), Some(receipt as usize)).zvt_serialize());
                        // optionally a further status information (what it says supersedes the first one as a whole)
                        if let Some(s2) = plan.get("status2") {
                            frames.push(status_from(s2, None).zvt_serialize());
                        }
                        frames.push(completion());
                    }
                }
            }
        }
        (0x06, 0x25) => {
            let req = p::PreAuthReversal::zvt_deserialize(frame).ok().map(|x| x.0);
            let receipt = req.as_ref().and_then(|r| r.receipt_no).unwrap_or(0) as u64;
            if status_first {
                frames.push(status_from(&empty, None).zvt_serialize());
            }
            if o == "abort" {
                frames.push(abort_rn(code));
            } else {
                term.ledger.retain(|(r, _, _)| *r != receipt);
                frames.push(completion());
            }
        }
        (0x06, 0x50) => {
            if status_first {
                frames.push(status_from(&empty, None).zvt_serialize());
            }
            if o == "abort" {
                frames.push(abort_rn(code));
            } else {
                frames.push(completion());
            }
        }
        (0x06, 0xc0) => {
            // Read card
            match o.as_str() {
                "abort" => frames.push(abort(code)),
                _ => {
                    let hexs = |v: &Value| -> String { bytes_of(v).iter().map(|b| format!("{:02x}", b)).collect() };
                    let tlv = if plan.get("notlv").and_then(|b| b.as_bool()).unwrap_or(false) {
                        None
                    } else {
                        let subs: Vec<t::Subs> = plan.get("subs").and_then(|s| s.as_array()).map(|a| {
                            a.iter().map(|s| t::Subs {
                                application_id: s.get("aid").filter(|v| !v.is_null()).map(hexs),
                                card_type: s.get("card_type").filter(|v| !v.is_null()).map(hexs),
                                ..t::Subs::default()
                            }).collect()
                        }).unwrap_or_default();
                        Some(t::StatusInformation {
                            uuid: plan.get("uid").filter(|v| !v.is_null()).map(hexs),
                            subs,
                            ..t::StatusInformation::default()
                        })
                    };
                    frames.push(p::StatusInformation { result_code: Some(0), tlv, ..p::StatusInformation::default() }.zvt_serialize());
                }
            }
        }
        (0x06, 0x1b) => {
            // Set terminal id: from now on the terminal reports the new id
            if o == "abort" {
                frames.push(abort(code))
            } else {
                if let Some(id) = p::SetTerminalId::zvt_deserialize(frame).ok().and_then(|x| x.0.terminal_id) {
                    term.terminal_id = format!("{:08}", id);
                }
                frames.push(completion())
            }
        }
        _ => {
            // Initialization and anything else: completion or abort
            if o == "abort" { frames.push(abort(code)) } else { frames.push(completion()) }
        }
    }
    (frames, o, json!(code))
}

fn cmd_name(cf: (u8, u8), frame: &[u8]) -> &'static str {
    match cf {
        (0x80, 0x00) => "Ack",
        (0x06, 0x00) => "Registration",
        (0x0f, 0xa1) => "SysInfo",
        (0x06, 0x22) => "Reservation",
        (0x06, 0x23) => {
            if frame.windows(3).any(|w| w == [0x87, 0xff, 0xff]) { "PendingQuery" } else { "PartialReversal" }
        }
        (0x06, 0x25) => "PreAuthReversal",
        (0x06, 0x50) => "EndOfDay",
        (0x06, 0xc0) => "ReadCard",
        (0x06, 0x93) => "Initialization",
        (0x06, 0x1b) => "SetTerminalId",
        _ => "Other",
    }
}

struct Conn {
    st: Arc<Mutex<ConnState>>,
    term: Shared,
}

fn wake(c: &mut ConnState) {
    if let Some(w) = c.waker.take() {
        w.wake();
    }
}

/// Send the next frame of the exchange (applying the fault plan). `first` = this is the Ack position (pos 0).
fn send_next(term: &mut Term, c: &mut ConnState, cst: &Arc<Mutex<ConnState>>) {
    let Some(frame) = c.pending.pop_front() else { return };
    let pos = c.pos;
    c.pos += 1;
    if let Some((fp_, kind)) = c.fault.clone() {
        if fp_ == pos && kind != "write_error" {
            term.log(json!({"e": "fault", "conn": c.id, "ex": c.ex, "pos": pos, "kind": kind}));
            c.pending.clear();
            match kind.as_str() {
                "close" => {
                    c.closed = true;
                    wake(c);
                }
                "garbage" => {
                    // a well-formed frame that is no reply to the command: a foreign control field, an acknowledgement where a
                    // reply is due (or a second one), the control field of a command - rotating with the exchange
                    let variants: [&[u8]; 4] = [&[0x04, 0x0d, 0x02, 0xde, 0xad], &[0x80, 0x00, 0x00], &[0x06, 0x01, 0x00], &[0x05, 0x01, 0x00]];
                    let mut g = variants[((c.ex + pos) % 4) as usize];
                    if pos == 0 && g == [0x80, 0x00, 0x00] {
                        g = variants[0];
                    }
                    push_frame(c, g, c.ex, pos, false);
                    wake(c);
                }
                "malformed" => {
                    // the control field of the expected frame with a body its parser rejects
                    let b: Vec<u8> = match (frame[0], frame[1]) {
                        (0x80, 0x00) => vec![0x84, 0x00, 0x00],
                        (0x06, 0x0f) => vec![0x06, 0x0f, 0x02, 0x29, 0x00], // BMP 29 needs four bytes / the device id eight
                        (0x04, 0x0f) => vec![0x04, 0x0f, 0x02, 0x04, 0x00], // BMP 04 needs six bytes
                        (a, b) => vec![a, b, 0x00],                         // a mandatory positional field is missing
                    };
                    push_frame(c, &b, c.ex, pos, false);
                    wake(c);
                }
                "dup_field" => {
                    // completely framed, the expected control field, undecodable for its CONTENT: a field twice (completion: the
                    // status byte, status information / anything else: the amount)
                    let b: Vec<u8> = match (frame[0], frame[1]) {
                        (0x80, 0x00) => vec![0x84, 0x00, 0x00],
                        (0x06, 0x0f) => vec![0x06, 0x0f, 0x04, 0x19, 0x00, 0x19, 0x00],
                        (0x04, 0xff) => vec![0x04, 0x0f, 0x0e, 0x04, 0, 0, 0, 0, 0, 1, 0x04, 0, 0, 0, 0, 0, 2],
                        (0x06, 0x1e) => vec![0x04, 0x0f, 0x0e, 0x04, 0, 0, 0, 0, 0, 1, 0x04, 0, 0, 0, 0, 0, 2],
                        (a, b2) => vec![a, b2, 0x0e, 0x04, 0, 0, 0, 0, 0, 1, 0x04, 0, 0, 0, 0, 0, 2],
                    };
                    push_frame(c, &b, c.ex, pos, false);
                    wake(c);
                }
                "partial" => {
                    let k = (frame.len() / 2).max(1);
                    push_frame(c, &frame[..k], c.ex, pos, false);
                    wake(c);
                }
                "partial_close" => {
                    let k = (frame.len() / 2).max(1);
                    push_frame(c, &frame[..k], c.ex, pos, false);
                    c.closed = true;
                    wake(c);
                }
                "nack" => {
                    // a negative acknowledgement; the code rotates with the exchange
                    let code = [0x9cu8, 0x00, 0x83, 0xff, 0x1e, 0x6c][((c.ex + pos) % 6) as usize];
                    push_frame(c, &[0x84u8, code, 0x00], c.ex, pos, false);
                    wake(c);
                }
                _ => {
                    // silence: nothing is sent, now or later
                }
            }
            return;
        }
    }
    if pos >= 1 {
        c.unacked = true;
    }
    let delay = if let Some(d) = c.delays.get((pos as usize).wrapping_sub(1)) { *d } else if pos == 1 { c.delay_ms } else { 0 };
    let kind = cmd_kind(&frame);
    let code = if frame.len() > 3 && frame[..2] == [0x06, 0x1e] { json!(frame[3]) } else { Value::Null };
    if delay > 0 {
        // reply later in virtual time - whole, or its first half at once and the rest later (split)
        let cst2 = cst.clone();
        let (id, ex) = (c.id, c.ex);
        let start = term.start;
        term.log(json!({"e": "tx", "conn": id, "ex": ex, "pos": pos, "kind": kind, "code": code, "raw": frame, "after_ms": delay}));
        let split = c.split && frame.len() >= 2;
        let head = if split { frame.len() / 2 } else { 0 };
        if split {
            // the frame is one unit for the bookkeeping (delivered when its last byte is consumed); its first half is there already
            c.rbuf.extend(frame[..head].iter().copied());
            c.marks.push_back((frame.len(), ex, pos, true));
            c.frames.push_back(frame.clone());
            wake(c);
        }
        tokio::spawn(async move {
            tokio::time::sleep(std::time::Duration::from_millis(delay)).await;
            let mut c = cst2.lock().unwrap_or_else(|e| e.into_inner());
            if !c.dropped {
                if split {
                    c.rbuf.extend(frame[head..].iter().copied());
                } else {
                    push_frame(&mut c, &frame, ex, pos, true);
                }
                wake(&mut c);
            }
            let _ = start;
        });
    } else {
        term.log(json!({"e": "tx", "conn": c.id, "ex": c.ex, "pos": pos, "kind": kind, "code": code, "raw": frame}));
        let ex = c.ex;
        push_frame(c, &frame, ex, pos, true);
        wake(c);
    }
}

fn cmd_kind(frame: &[u8]) -> &'static str {
    match (frame[0], frame[1]) {
        (0x80, 0x00) => "Ack",
        (0x04, 0x0f) => "Status",
        (0x04, 0xff) => "Intermediate",
        (0x06, 0x0f) => "Completion",
        (0x06, 0x1e) => "Abort",
        (0x06, 0xd1) => "PrintLine",
        _ => "Other",
    }
}

impl AsyncWrite for Conn {
    fn poll_write(self: Pin<&mut Self>, _: &mut Context<'_>, buf: &[u8]) -> Poll<std::io::Result<usize>> {
        let mut term = self.term.lock().unwrap_or_else(|e| e.into_inner());
        if term.runaway {
            return Poll::Pending;
        }
        let mut c = self.st.lock().unwrap_or_else(|e| e.into_inner());
        let buf = if term.wchunk > 0 { &buf[..buf.len().min(term.wchunk)] } else { buf };
        c.wbuf.extend_from_slice(buf);
        loop {
            if c.wbuf.len() < 3 {
                break;
            }
            let (hdr, len) = if c.wbuf[2] == 0xff {
                if c.wbuf.len() < 5 {
                    break;
                }
                (5, c.wbuf[3] as usize + 256 * c.wbuf[4] as usize)
            } else {
                (3, c.wbuf[2] as usize)
            };
            if c.wbuf.len() < hdr + len {
                break;
            }
            let frame: Vec<u8> = c.wbuf.drain(..hdr + len).collect();
            let cf = (frame[0], frame[1]);
            let name = cmd_name(cf, &frame);
            if name == "Ack" && len == 0 {
                if let Some((fp_, kind)) = c.fault.clone() {
                    if kind == "write_error" && fp_ >= 1 && fp_ + 1 == c.pos && c.unacked {
                        // the acknowledgement of reply fp_ is not transmitted: the write fails (once)
                        c.fault = None;
                        c.pending.clear();
                        let (id, ex) = (c.id, c.ex);
                        term.log(json!({"e": "fault", "conn": id, "ex": ex, "pos": fp_, "kind": kind}));
                        return Poll::Ready(Err(std::io::Error::new(std::io::ErrorKind::ConnectionReset, "write failed")));
                    }
                }
                c.unacked = false;
                term.log(json!({"e": "rx", "conn": c.id, "ex": c.ex, "cmd": "Ack", "raw": frame}));
                send_next(&mut term, &mut c, &self.st);
                continue;
            }
            // a command: a new exchange
            let is_hs = name == "Registration" || (name == "SysInfo" && c.hs_stage == 1);
            let plan: Value = if is_hs {
                let hs = term.handshake.front().cloned().unwrap_or(term.handshake_default.clone());
                let key = if name == "Registration" { "registration" } else { "sysinfo" };
                if name == "SysInfo" {
                    term.handshake.pop_front();
                }
                c.hs_stage += 1;
                hs.get(key).cloned().unwrap_or(json!({}))
            } else if let Some(sc) = term.scripts.get_mut(name).and_then(|q| {
                // a queue whose last script says "repeat" answers every further command of its kind with that script
                if q.len() == 1 && q[0].get("repeat").and_then(|b| b.as_bool()).unwrap_or(false) { q.front().cloned() } else { q.pop_front() }
            }) {
                sc
            } else {
                term.plan.pop_front().unwrap_or_else(|| term.default_plan.clone())
            };
            if c.unacked || !c.pending.is_empty() {
                // the client starts a new exchange although the previous one was not finished on this connection
                let id = c.id;
                term.log(json!({"e": "abandoned", "conn": id}));
            }
            c.unacked = false;
            term.next_ex += 1;
            c.ex = term.next_ex;
            c.pos = 0;
            c.pending.clear();
            if plan.get("fault").map(|f| f["kind"] == "write_error" && f["pos"].as_u64().unwrap_or(0) == 0).unwrap_or(false) {
                // the command itself is not transmitted: the write fails (once); the terminal never sees the frame
                let (id, ex) = (c.id, c.ex);
                c.fault = None;
                term.log(json!({"e": "fault", "conn": id, "ex": ex, "pos": 0, "kind": "write_error"}));
                return Poll::Ready(Err(std::io::Error::new(std::io::ErrorKind::ConnectionReset, "write failed")));
            }
            term.log(json!({"e": "rx", "conn": c.id, "ex": c.ex, "cmd": name, "raw": frame, "hs": is_hs}));
            let (frames, outcome, code) = script_for(&mut term, &frame, &plan);
            term.log(json!({"e": "plan", "conn": c.id, "ex": c.ex, "cmd": name, "o": outcome, "code": code, "plan": plan}));
            if matches!(name, "Reservation" | "PartialReversal" | "PreAuthReversal") {
                term.ledger_event();
            }
            c.fault = plan.get("fault").map(|f| (f["pos"].as_u64().unwrap_or(0), f["kind"].as_str().unwrap_or("silence").to_string()));
            c.delay_ms = plan.get("delay_ms").and_then(|d| d.as_u64()).unwrap_or(0);
            c.split = plan.get("split").and_then(|d| d.as_bool()).unwrap_or(false);
            c.delays = plan.get("delays").and_then(|d| d.as_array()).map(|a| a.iter().map(|x| x.as_u64().unwrap_or(0)).collect()).unwrap_or_default();
            c.pending.push_back(ACK.to_vec());
            for f in frames {
                c.pending.push_back(f);
            }
            // the acknowledgement and, without waiting, the first reply
            send_next(&mut term, &mut c, &self.st);
            send_next(&mut term, &mut c, &self.st);
        }
        Poll::Ready(Ok(buf.len()))
    }
    fn poll_flush(self: Pin<&mut Self>, _: &mut Context<'_>) -> Poll<std::io::Result<()>> {
        Poll::Ready(Ok(()))
    }
    fn poll_shutdown(self: Pin<&mut Self>, _: &mut Context<'_>) -> Poll<std::io::Result<()>> {
        Poll::Ready(Ok(()))
    }
}

impl AsyncRead for Conn {
    fn poll_read(self: Pin<&mut Self>, cx: &mut Context<'_>, buf: &mut ReadBuf<'_>) -> Poll<std::io::Result<()>> {
        let mut term = self.term.lock().unwrap_or_else(|e| e.into_inner());
        let mut c = self.st.lock().unwrap_or_else(|e| e.into_inner());
        if c.rbuf.is_empty() {
            if c.closed {
                return Poll::Ready(Ok(())); // EOF
            }
            c.waker = Some(cx.waker().clone());
            return Poll::Pending;
        }
        let mut n = buf.remaining().min(c.rbuf.len());
        if term.chunk > 0 {
            n = n.min(term.chunk);
        }
        for _ in 0..n {
            let b = c.rbuf.pop_front().unwrap();
            buf.put_slice(&[b]);
        }
        // the client has consumed the last byte of a frame: that is the moment the frame is delivered
        let mut left = n;
        while left > 0 {
            let Some(m) = c.marks.front_mut() else { break };
            let k = left.min(m.0);
            m.0 -= k;
            left -= k;
            if m.0 == 0 {
                let (_, ex, pos, planned) = c.marks.pop_front().unwrap();
                let id = c.id;
                if planned {
                    let raw = c.frames.pop_front().unwrap_or_default();
                    let kind = if raw.len() >= 2 { cmd_kind(&raw) } else { "Other" };
                    term.log(json!({"e": "got", "conn": id, "ex": ex, "pos": pos, "planned": true, "kind": kind, "raw": raw}));
                } else {
                    term.log(json!({"e": "got", "conn": id, "ex": ex, "pos": pos, "planned": false}));
                }
            }
        }
        Poll::Ready(Ok(()))
    }
}

impl Drop for Conn {
    fn drop(&mut self) {
        let (id, junk) = {
            let mut c = self.st.lock().unwrap_or_else(|e| e.into_inner());
            c.dropped = true;
            (c.id, c.wbuf.clone())
        };
        let mut t = self.term.lock().unwrap_or_else(|e| e.into_inner());
        if !junk.is_empty() {
            // bytes the client wrote that never became a whole frame: a mutilated request
            let n = junk.len();
            t.log(json!({"e": "junk", "conn": id, "len": n, "head": junk[..n.min(16)].to_vec()}));
        }
        t.log(json!({"e": "close", "conn": id}));
    }
}

struct SimConnector {
    term: Shared,
}

impl Connector for SimConnector {
    fn connect(&self, _addr: std::net::SocketAddr) -> ConnectFuture {
        let term = self.term.clone();
        Box::pin(async move {
            if term.lock().unwrap_or_else(|e| e.into_inner()).runaway {
                futures::future::pending::<()>().await;
            }
            let hs = {
                let t = term.lock().unwrap_or_else(|e| e.into_inner());
                t.handshake.front().cloned().unwrap_or(t.handshake_default.clone())
            };
            match hs.get("connect").and_then(|c| c.as_str()).unwrap_or("ok") {
                "refused" => {
                    let mut t = term.lock().unwrap_or_else(|e| e.into_inner());
                    t.handshake.pop_front();
                    t.log(json!({"e": "connect_refused"}));
                    Err(std::io::Error::new(std::io::ErrorKind::ConnectionRefused, "refused"))
                }
                "stall" => {
                    {
                        let mut t = term.lock().unwrap_or_else(|e| e.into_inner());
                        t.handshake.pop_front();
                        t.log(json!({"e": "connect_stall"}));
                    }
                    futures::future::pending::<()>().await;
                    unreachable!()
                }
                _ => {
                    let mut t = term.lock().unwrap_or_else(|e| e.into_inner());
                    t.next_conn += 1;
                    let id = t.next_conn;
                    let st = Arc::new(Mutex::new(ConnState { id, ..Default::default() }));
                    t.conns.push(st.clone());
                    t.log(json!({"e": "open", "conn": id}));
                    Ok(Box::new(Conn { st, term: term.clone() }) as Box<dyn Duplex>)
                }
            }
        })
    }
}

fn classify_err(e: &anyhow::Error) -> Value {
    use zvt_feig_terminal::feig::Error as FE;
    let text = format!("{}", e);
    if let Some(fe) = e.downcast_ref::<FE>() {
        let class = match fe {
            FE::UnexpectedPacket => "UnexpectedPacket",
            FE::ActiveTransaction(_) => "ActiveTransaction",
            FE::NoCardPresented => "NoCardPresented",
            FE::UnknownToken(_) => "UnknownToken",
            FE::NeedsPinEntry => "NeedsPinEntry",
            #[allow(unreachable_patterns)]
            _ => "Other",
        };
        return json!({"class": class, "code": Value::Null, "text": text});
    }
    if let Some(ze) = e.downcast_ref::<zvt::ZVTError>() {
        return match ze {
            zvt::ZVTError::Aborted(c) => json!({"class": "Aborted", "code": c, "text": text}),
            zvt::ZVTError::IncompleteData => json!({"class": "Incomplete", "code": Value::Null, "text": text}),
            _ => json!({"class": "Other", "code": Value::Null, "text": text}),
        };
    }
    json!({"class": "Other", "code": Value::Null, "text": text})
}

/// The Feig part of the configuration the way an application gets it: deserialised, the currency given by its ISO 4217 name.
/// None when the library rejects it.
fn feig_config_by_name(c: &Value, name: &str) -> Option<FeigConfig> {
    serde_json::from_value::<FeigConfig>(json!({
        "currency": name,
        "pre_authorization_amount": c.get("pre").map(|v| from_digits(v) as u64).unwrap_or(2500),
        "read_card_timeout": c.get("read_card_timeout").and_then(|s| s.as_u64()).unwrap_or(15),
        "password": c.get("password").and_then(|s| s.as_u64()).unwrap_or(123456),
    })).ok()
}

fn make_config(c: &Value) -> Config {
    if let Some(name) = c.get("currency_name").and_then(|s| s.as_str()) {
        if let Some(fc) = feig_config_by_name(c, name) {
            let mut base = make_config(&{
                let mut m = c.clone();
                m.as_object_mut().map(|o| o.remove("currency_name"));
                m
            });
            base.feig_config = fc;
            return base;
        }
    }
    Config {
        terminal_id: c.get("terminal_id").and_then(|s| s.as_str()).unwrap_or("52523535").to_string(),
        feig_serial: c.get("serial").and_then(|s| s.as_str()).unwrap_or("17FD1E3C").to_string(),
        ip_address: std::net::Ipv4Addr::new(10, 0, 0, 1),
        feig_config: FeigConfig {
            currency: c.get("currency").and_then(|s| s.as_u64()).unwrap_or(978) as usize,
            pre_authorization_amount: c.get("pre").map(|v| from_digits(v) as usize).unwrap_or(2500),
            read_card_timeout: c.get("read_card_timeout").and_then(|s| s.as_u64()).unwrap_or(15) as u8,
            password: c.get("password").and_then(|s| s.as_u64()).unwrap_or(123456) as usize,
        },
        transactions_max_num: c.get("max").and_then(|s| s.as_u64()).unwrap_or(1) as usize,
    }
}

async fn guarded_call<T, F: std::future::Future<Output = anyhow::Result<T>>>(term: &Shared, op: &str, f: F, show: impl Fn(&T) -> Value) -> bool {
    use futures::FutureExt;
    let r = tokio::time::timeout(std::time::Duration::from_secs(86400), std::panic::AssertUnwindSafe(f).catch_unwind()).await;
    let mut t = term.lock().unwrap_or_else(|e| e.into_inner());
    if t.runaway {
        // the call kept exchanging packets far beyond anything its retry budget allows; the terminal went silent to end it
        t.log(json!({"e": "hang", "op": op, "why": "runaway"}));
        return false;
    }
    match r {
        Err(_) => {
            t.log(json!({"e": "hang", "op": op}));
            false
        }
        Ok(Err(p)) => {
            let msg = p.downcast_ref::<&str>().map(|s| s.to_string()).or_else(|| p.downcast_ref::<String>().cloned()).unwrap_or_default();
            t.log(json!({"e": "panic", "op": op, "text": msg}));
            false
        }
        Ok(Ok(Ok(v))) => {
            let s = show(&v);
            t.log(json!({"e": "ret", "op": op, "ok": true, "val": s, "err": {"class": "", "code": Value::Null, "text": ""}}));
            true
        }
        Ok(Ok(Err(e))) => {
            let c = classify_err(&e);
            t.log(json!({"e": "ret", "op": op, "ok": false, "val": {}, "err": c}));
            true
        }
    }
}

pub fn run_scenario(sc: &Value) -> Value {
    let rt = tokio::runtime::Builder::new_current_thread().enable_time().start_paused(true).build().unwrap();
    let trace = rt.block_on(async {
        let start = tokio::time::Instant::now();
        let tcfg = sc.get("term").cloned().unwrap_or(json!({}));
        let term: Shared = Arc::new(Mutex::new(Term {
            chunk: tcfg.get("chunk").and_then(|c| c.as_u64()).unwrap_or(0) as usize,
            wchunk: tcfg.get("wchunk").and_then(|c| c.as_u64()).unwrap_or(0) as usize,
            scripts: sc["plan"].get("scripts").and_then(|m| m.as_object()).map(|m| {
                m.iter().map(|(k, v)| (k.clone(), v.as_array().map(|a| a.iter().cloned().collect()).unwrap_or_default())).collect()
            }).unwrap_or_default(),
            call_mark: 0,
            runaway: false,
            start,
            events: vec![],
            conns: vec![],
            next_conn: 0,
            next_ex: 0,
            plan: sc["plan"].get("exchanges").and_then(|a| a.as_array()).map(|a| a.iter().cloned().collect()).unwrap_or_default(),
            handshake: sc["plan"].get("handshake").and_then(|a| a.as_array()).map(|a| a.iter().cloned().collect()).unwrap_or_default(),
            handshake_default: sc["plan"].get("handshake_default").cloned().unwrap_or(json!({})),
            default_plan: sc["plan"].get("default").cloned().unwrap_or(json!({"o": "ok"})),
            serial: tcfg.get("serial").and_then(|s| s.as_str()).unwrap_or("17FD1E3C").to_string(),
            terminal_id: tcfg.get("terminal_id").and_then(|s| s.as_str()).unwrap_or("52523535").to_string(),
            ledger: tcfg.get("dangling").and_then(|a| a.as_array()).map(|a| a.iter().map(|r| (r.as_u64().unwrap_or(0), 2500u128, vec![])).collect()).unwrap_or_default(),
            next_receipt: tcfg.get("next_receipt").and_then(|s| s.as_u64()).unwrap_or(1),
            booked: 0,
        }));
        set_connector(Arc::new(SimConnector { term: term.clone() }));
        if let Ok(mut c) = CURRENT.lock() {
            *c = Some(term.clone());
        }
        let config = make_config(sc.get("config").unwrap_or(&json!({})));
        if let Some(name) = sc.get("config").and_then(|c| c.get("currency_name")).and_then(|s| s.as_str()) {
            // the currency was given by name: say what the library made of it (or that it rejected the name)
            let got = feig_config_by_name(sc.get("config").unwrap(), name).map(|f| f.currency);
            term.lock().unwrap().log(json!({"e": "config_currency", "name": name, "accepted": got.is_some(), "numeric": got.unwrap_or(0)}));
        }
        let empty = vec![];
        let calls = sc.get("calls").and_then(|c| c.as_array()).unwrap_or(&empty);
        // construction: with "new" as the first call the real constructor (which configures) is used, otherwise a client that
        // has not talked to the terminal yet
        let mut feig: Option<Feig> = None;
        for call in calls {
            let op = call["op"].as_str().unwrap_or("");
            // the token is given as CP437 bytes; the string handed to the client is their CP437 decoding
            let token: String = {
                use zvt::encoding::Encoding;
                let b = bytes_of(call.get("token").unwrap_or(&json!([])));
                b.iter().map(|x| if *x == 0 { "\0".to_string() } else {
                    <zvt::encoding::Default as Encoding<String>>::decode(&[*x]).map(|r| r.0).unwrap_or_default() }).collect()
            };
            if let Some(ms) = call.get("idle_ms").and_then(|m| m.as_u64()) {
                // nothing happens for a while before this call
                tokio::time::sleep(std::time::Duration::from_millis(ms)).await;
            }
            {
                let mut t = term.lock().unwrap_or_else(|e| e.into_inner());
                t.call_mark = t.events.len();
                t.log(json!({"e": "call", "op": op, "token": call.get("token").cloned().unwrap_or(json!([])), "amount": call.get("amount").cloned().unwrap_or(json!([]))}));
            }
            if op == "new" {
                use futures::FutureExt;
                let r = tokio::time::timeout(std::time::Duration::from_secs(86400), std::panic::AssertUnwindSafe(Feig::new(config.clone())).catch_unwind()).await;
                let mut t = term.lock().unwrap_or_else(|e| e.into_inner());
                if t.runaway {
                    t.log(json!({"e": "hang", "op": op, "why": "runaway"}));
                    break;
                }
                match r {
                    Err(_) => { t.log(json!({"e": "hang", "op": op})); break; }
                    Ok(Err(_)) => { t.log(json!({"e": "panic", "op": op, "text": ""})); break; }
                    Ok(Ok(Ok(f))) => { feig = Some(f); t.log(json!({"e": "ret", "op": op, "ok": true, "val": {}, "err": {"class": "", "code": Value::Null, "text": ""}})); }
                    Ok(Ok(Err(e))) => { let c = classify_err(&e); t.log(json!({"e": "ret", "op": op, "ok": false, "val": {}, "err": c})); break; }
                }
                continue;
            }
            if feig.is_none() {
                // a client constructed without configuring: Feig::new configures, so emulate construction with a terminal that
                // answers everything positively and whose traffic is not part of the trace
                let mut f = None;
                {
                    let saved: (VecDeque<Value>, VecDeque<Value>, usize) = {
                        let mut t = term.lock().unwrap_or_else(|e| e.into_inner());
                        let s = (std::mem::take(&mut t.plan), std::mem::take(&mut t.handshake), t.events.len());
                        s
                    };
                    let saved_scripts = std::mem::take(&mut term.lock().unwrap_or_else(|e| e.into_inner()).scripts);
                    let saved_hsd = std::mem::replace(&mut term.lock().unwrap_or_else(|e| e.into_inner()).handshake_default, json!({}));
                    // (the terminal's books too: the configure run of the constructor would reverse the dangling pre-authorisations
                    // the scenario wants the client to find)
                    let saved_books = {
                        let mut t = term.lock().unwrap_or_else(|e| e.into_inner());
                        let b = (t.ledger.clone(), t.next_receipt, t.booked);
                        t.ledger.clear();
                        b
                    };
                    if sc.get("start").and_then(|s| s.as_str()) == Some("disconnected") {
                        // the terminal closes every exchange during construction: the client ends up without a connection
                        term.lock().unwrap_or_else(|e| e.into_inner()).default_plan = json!({"o": "ok", "fault": {"pos": 1, "kind": "close"}});
                    }
                    let constructed = {
                        use futures::FutureExt;
                        std::panic::AssertUnwindSafe(Feig::new(config.clone())).catch_unwind().await
                    };
                    let panicked = constructed.is_err();
                    if let Ok(Ok(x)) = constructed {
                        f = Some(x);
                    }
                    term.lock().unwrap_or_else(|e| e.into_inner()).default_plan = sc["plan"].get("default").cloned().unwrap_or(json!({"o": "ok"}));
                    let mut t = term.lock().unwrap_or_else(|e| e.into_inner());
                    t.plan = saved.0;
                    t.handshake = saved.1;
                    t.scripts = saved_scripts;
                    t.handshake_default = saved_hsd;
                    t.ledger = saved_books.0;
                    t.next_receipt = saved_books.1;
                    t.booked = saved_books.2;
                    t.events.truncate(saved.2);
                    // the connection the constructed client holds: the last one opened, if it was not dropped
                    let alive = t.conns.last().map(|c| !c.lock().unwrap_or_else(|e| e.into_inner()).dropped).unwrap_or(false);
                    let nc = if alive { t.next_conn } else { 0 };
                    // what the construction did to the terminal is not part of the scenario
                    t.terminal_id = tcfg.get("terminal_id").and_then(|s| s.as_str()).unwrap_or("52523535").to_string();
                    t.log(json!({"e": "constructed", "conn": nc}));
                    if t.runaway {
                        // the construction (its configure call) ran away: the scenario ends there, as a call that does not return
                        t.log(json!({"e": "hang", "op": "configure", "why": "runaway"}));
                        f = None;
                    } else if panicked {
                        // the construction itself panicked (its configure call): the scenario ends there, as a panicking call
                        t.log(json!({"e": "panic", "op": "configure", "text": "panic while constructing the client"}));
                    } else if f.is_none() && !t.runaway {
                        t.log(json!({"e": "harness-error", "text": "the client could not be constructed"}));
                    }
                }
                if f.is_none() {
                    break;
                }
                feig = f;
            }
            let f = feig.as_mut().unwrap();
            let alive = match op {
                "begin" => guarded_call(&term, op, f.begin_transaction(&token), |_| json!({})).await,
                "commit" => {
                    let amount = from_digits(call.get("amount").unwrap_or(&json!([]))) as u64;
                    guarded_call(&term, op, f.commit_transaction(&token, amount), |s| {
                        json!({"terminal_id": s.terminal_id.as_ref().map(|x| json!([x.chars().map(|c| c as u32).collect::<Vec<_>>()])).unwrap_or(json!([])),
                               "amount": s.amount.map(|a| json!([digits(a as u128)])).unwrap_or(json!([])),
                               "trace_number": s.trace_number.map(|a| json!([digits(a as u128)])).unwrap_or(json!([])),
                               "date": s.date.as_ref().map(|x| json!([x.chars().map(|c| c as u32).collect::<Vec<_>>()])).unwrap_or(json!([])),
                               "time": s.time.as_ref().map(|x| json!([x.chars().map(|c| c as u32).collect::<Vec<_>>()])).unwrap_or(json!([]))})
                    }).await
                }
                "cancel" => guarded_call(&term, op, f.cancel_transaction(&token), |_| json!({})).await,
                "read_card" => guarded_call(&term, op, f.read_card(), |c| match c {
                    CardInfo::Bank => json!({"card": "Bank", "id": []}),
                    CardInfo::MembershipCard(s) => json!({"card": "Membership", "id": s.chars().map(|c| c as u32).collect::<Vec<_>>()}),
                    #[allow(unreachable_patterns)]
                    _ => json!({"card": "Other", "id": []}),
                }).await,
                "configure" => guarded_call(&term, op, f.configure(), |_| json!({})).await,
                other => {
                    term.lock().unwrap_or_else(|e| e.into_inner()).log(json!({"e": "harness-error", "text": format!("unknown op {other}")}));
                    false
                }
            };
            if !alive {
                break;
            }
        }
        drop(feig);
        let t = term.lock().unwrap_or_else(|e| e.into_inner());
        t.events.clone()
    });
    let mut out = sc.as_object().cloned().unwrap_or_default();
    out.insert("trace".into(), Value::Array(trace));
    Value::Object(out)
}

/// The terminal of the scenario that is running: when the code under test spins without ever yielding (no virtual clock can interrupt
/// that), the driver takes the events logged so far from here.
static CURRENT: Mutex<Option<Shared>> = Mutex::new(None);
/// Real seconds a scenario may take (they take milliseconds; a runaway call is ended by its event budget within seconds).
const WALL_LIMIT_S: u64 = 240;

pub fn client_run(args: &[String]) -> anyhow::Result<()> {
    let f = std::io::BufReader::new(std::fs::File::open(&args[0])?);
    let mut w = out_file(&args[1])?;
    let mut stuck = 0usize;
    for line in f.lines() {
        let line = line?;
        if line.trim().is_empty() {
            continue;
        }
        let sc: Value = serde_json::from_str(&line)?;
        if stuck >= 3 {
            // three calls are already spinning in their threads: the rest of the batch is not run (reported as harness errors)
            let mut out = sc.as_object().cloned().unwrap_or_default();
            out.insert("trace".into(), json!([{"e": "harness-error", "text": "not run: three earlier scenarios never returned control"}]));
            writeln!(w, "{}", Value::Object(out))?;
            continue;
        }
        let (tx, rx) = std::sync::mpsc::channel();
        let sc2 = sc.clone();
        std::thread::spawn(move || {
            let out = run_scenario(&sc2);
            let _ = tx.send(out);
        });
        match rx.recv_timeout(std::time::Duration::from_secs(WALL_LIMIT_S)) {
            Ok(out) => writeln!(w, "{}", out)?,
            Err(_) => {
                // the call never gave control back: not to the runtime (its one-virtual-day limit never fired), not to anybody
                stuck += 1;
                let mut events = CURRENT.lock().ok().and_then(|c| c.clone()).and_then(|t| t.lock().ok().map(|t| t.events.clone())).unwrap_or_default();
                let op = events.iter().rev().find(|e| e["e"] == "call").and_then(|e| e["op"].as_str()).unwrap_or("").to_string();
                let t = events.last().and_then(|e| e["t"].as_u64()).unwrap_or(0);
                events.push(json!({"e": "hang", "op": op, "why": "spinning: no control returned for minutes of real time", "t": t}));
                let mut out = sc.as_object().cloned().unwrap_or_default();
                out.insert("trace".into(), Value::Array(events));
                writeln!(w, "{}", Value::Object(out))?;
            }
        }
    }
    w.flush()?;
    let _ = guarded(|| 0);
    if stuck > 0 {
        drop(w);
        std::process::exit(0);
    }
    Ok(())
}
