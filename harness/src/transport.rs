//! L2 conformance: the real PacketTransport::read_packet / write_packet over an instrumented in-memory source.
use crate::util::*;
use serde_json::{json, Value};
use std::io::{BufRead, Write};
use std::pin::Pin;
use std::sync::{Arc, Mutex};
use std::task::{Context, Poll};
use tokio::io::{AsyncRead, AsyncWrite, ReadBuf};
use zvt::io::PacketTransport;
use zvt::{packets, ZVTResult, ZvtParser};

/// A reply parser that keeps the raw bytes: lets the harness see exactly what read_packet framed.
pub struct RawPacket(pub Vec<u8>);
impl ZvtParser for RawPacket {
    fn zvt_parse(bytes: &[u8]) -> ZVTResult<Self> {
        Ok(RawPacket(bytes.to_vec()))
    }
}

/// plan entries from here on are pauses: PAUSE + n = no byte for n milliseconds (virtual time)
pub const PAUSE: usize = 1 << 40;

#[derive(Default)]
pub struct SourceState {
    pub data: Vec<u8>,        // bytes the reader may still get
    pub pos: usize,
    pub plan: Vec<usize>,     // bytes to hand over per poll_read (0 = answer Pending once); exhausted => as much as wanted
    pub plan_pos: usize,
    pub written: Vec<u8>,     // everything the code under test wrote
    pub events: Vec<Value>,
    pub log_bytes_upto: usize,
    pub wchunk: usize,        // bytes accepted per poll_write (0 = all): a sink that takes writes in parts
    pub resume_at: Option<tokio::time::Instant>,
}

#[derive(Clone, Default)]
pub struct ScriptSource(pub Arc<Mutex<SourceState>>);

impl AsyncRead for ScriptSource {
    fn poll_read(self: Pin<&mut Self>, cx: &mut Context<'_>, buf: &mut ReadBuf<'_>) -> Poll<std::io::Result<()>> {
        let mut s = self.0.lock().unwrap();
        let want = buf.remaining();
        let k = if s.plan_pos < s.plan.len() {
            let k = s.plan[s.plan_pos];
            s.plan_pos += 1;
            k
        } else {
            want
        };
        if k == 0 {
            s.events.push(json!({"e": "pending", "want": want}));
            cx.waker().wake_by_ref();
            return Poll::Pending;
        }
        if k >= PAUSE {
            // nothing arrives for (k - PAUSE) milliseconds of virtual time, however often the reader asks meanwhile
            let now = tokio::time::Instant::now();
            let t = *s.resume_at.get_or_insert(now + std::time::Duration::from_millis((k - PAUSE) as u64));
            s.events.push(json!({"e": "pending", "want": want}));
            if now < t {
                s.plan_pos -= 1; // the pause is still the current plan entry
                let w = cx.waker().clone();
                tokio::spawn(async move {
                    tokio::time::sleep_until(t).await;
                    w.wake();
                });
                return Poll::Pending;
            }
            s.resume_at = None;
            cx.waker().wake_by_ref();
            return Poll::Pending;
        }
        let avail = s.data.len() - s.pos;
        let n = k.min(want).min(avail);
        if n == 0 {
            // end of stream (or a zero-capacity read)
            if want > 0 {
                s.events.push(json!({"e": "eof", "want": want}));
            }
            return Poll::Ready(Ok(()));
        }
        let st = s.pos;
        buf.put_slice(&s.data[st..st + n]);
        s.pos += n;
        let hd: Vec<u8> = if want <= s.log_bytes_upto { s.data[st..st + n].to_vec() } else { vec![] };
        s.events.push(json!({"e": "poll", "want": want, "got": n, "hd": hd}));
        Poll::Ready(Ok(()))
    }
}

impl AsyncWrite for ScriptSource {
    fn poll_write(self: Pin<&mut Self>, _: &mut Context<'_>, buf: &[u8]) -> Poll<std::io::Result<usize>> {
        let mut s = self.0.lock().unwrap();
        let n = if s.wchunk > 0 { buf.len().min(s.wchunk) } else { buf.len() };
        s.written.extend_from_slice(&buf[..n]);
        Poll::Ready(Ok(n))
    }
    fn poll_flush(self: Pin<&mut Self>, _: &mut Context<'_>) -> Poll<std::io::Result<()>> {
        Poll::Ready(Ok(()))
    }
    fn poll_shutdown(self: Pin<&mut Self>, _: &mut Context<'_>) -> Poll<std::io::Result<()>> {
        Poll::Ready(Ok(()))
    }
}

pub fn rt() -> tokio::runtime::Runtime {
    tokio::runtime::Builder::new_current_thread().enable_time().start_paused(true).build().unwrap()
}

/// The real writer on a packet with a body of exactly n bytes.
pub async fn write_len(pt: &mut PacketTransport<ScriptSource>, j: usize, n: usize) -> anyhow::Result<()> {
    if n == 0 {
        pt.write_packet(&packets::Ack {}).await
    } else {
        let text: String = (0..n - 1).map(|i| (b'a' + ((i + j) % 26) as u8) as char).collect();
        pt.write_packet(&packets::PrintLine { attribute: (j % 251) as u8, text }).await
    }
}

/// Reads packets until an error; logs events into the source's event list. Returns (delivered lens, same flags).
async fn read_all(pt: &mut PacketTransport<ScriptSource>, written: &[Vec<u8>], max_reads: usize) {
    let mut k = 0usize;
    loop {
        if k >= max_reads {
            break;
        }
        pt.source.0.lock().unwrap().events.push(json!({"e": "start"}));
        let r = guarded_async(pt.read_packet::<RawPacket>()).await;
        let mut s = pt.source.0.lock().unwrap();
        match r {
            Err(_) => {
                s.events.push(json!({"e": "panic"}));
                break;
            }
            Ok(Err(_)) => {
                s.events.push(json!({"e": "error"}));
                break;
            }
            Ok(Ok(p)) => {
                let same = written.get(k).map(|w| *w == p.0).unwrap_or(false);
                let hdr = if p.0.len() >= 3 && p.0[2] == 0xff { 5 } else { 3 };
                s.events.push(json!({"e": "packet", "len": p.0.len().saturating_sub(hdr), "hdr": hdr, "same": same}));
                k += 1;
            }
        }
    }
}

async fn guarded_async<F: std::future::Future>(f: F) -> Result<F::Output, String> {
    use futures::FutureExt;
    std::panic::AssertUnwindSafe(f).catch_unwind().await.map_err(|_| "panic".to_string())
}

/// Serialise packets with the real writer; returns each packet's bytes.
fn write_packets(lens: &[usize]) -> Vec<Vec<u8>> {
    let rt = rt();
    let mut out = vec![];
    for (j, n) in lens.iter().enumerate() {
        let src = ScriptSource::default();
        // every other packet goes into a sink that accepts 1, 2 or 7 bytes per write
        src.0.lock().unwrap().wchunk = [0usize, 1, 0, 2, 0, 7][j % 6];
        let mut pt = PacketTransport { source: src.clone() };
        let r = rt.block_on(guarded_async(write_len(&mut pt, j + 1, *n)));
        let _ = r;
        out.push(src.0.lock().unwrap().written.clone());
    }
    out
}

/// transport-replay <behaviours.ndjson> <out.ndjson>
/// behaviour: {"lens":[..],"cut":c,"reads":[[want,got],..],"delivered":[..]} from the model; the same packet lengths are written
/// with the real writer, cut, and served to the real reader with exactly the model's chunk sizes.
pub fn transport_replay(args: &[String]) -> anyhow::Result<()> {
    let f = std::io::BufReader::new(std::fs::File::open(&args[0])?);
    let mut w = out_file(&args[1])?;
    let rt = rt();
    for line in f.lines() {
        let b: Value = serde_json::from_str(&line?)?;
        let lens: Vec<usize> = b["lens"].as_array().unwrap().iter().map(|x| x.as_u64().unwrap() as usize).collect();
        let cut = b["cut"].as_u64().unwrap() as usize;
        let plan: Vec<usize> = b["reads"].as_array().unwrap().iter().map(|r| r[1].as_u64().unwrap() as usize).filter(|k| *k > 0).collect();
        let mut written = write_packets(&lens);
        // a peer may announce any length in the extended form: packets flagged in "ext" get the five-byte header
        if let Some(ext) = b.get("ext").and_then(|e| e.as_array()) {
            for (j, w) in written.iter_mut().enumerate() {
                if ext.get(j).and_then(|x| x.as_u64()).unwrap_or(0) == 1 && w.len() >= 3 && w[2] != 0xff {
                    let n = w[2] as usize;
                    let mut v = vec![w[0], w[1], 0xff, n as u8, 0];
                    v.extend_from_slice(&w[3..]);
                    *w = v;
                }
            }
        }
        let mut stream: Vec<u8> = written.concat();
        let full = stream.len();
        stream.truncate(cut);
        let src = ScriptSource::default();
        {
            let mut s = src.0.lock().unwrap();
            s.data = stream;
            s.plan = plan;
            s.log_bytes_upto = 5;
        }
        let mut pt = PacketTransport { source: src.clone() };
        // "ack_first": the first packet is taken as the answer to a command (write_packet_with_ack) - whatever it is, acknowledgement or
        // not, it is one packet, and the reader goes on behind it; "read_with_ack": every packet is read and acknowledged
        let ack_first = b.get("ack_first").and_then(|x| x.as_bool()).unwrap_or(false);
        let mut skip = 0usize;
        if ack_first {
            let r = rt.block_on(guarded_async(pt.write_packet_with_ack(&packets::Ack {})));
            let mut s = src.0.lock().unwrap();
            match r {
                Err(_) => s.events.push(json!({"e": "panic"})),
                Ok(_) => {}
            }
            skip = 1;
        }
        rt.block_on(read_all(&mut pt, &written[skip.min(written.len())..], lens.len() + 2));
        let s = src.0.lock().unwrap();
        let reads: Vec<Value> = s.events.iter().filter_map(|e| match e["e"].as_str().unwrap() {
            "poll" => Some(json!([e["want"], e["got"]])),
            "eof" => Some(json!([e["want"], 0])),
            _ => None,
        }).collect();
        let delivered: Vec<Value> = s.events.iter().filter(|e| e["e"] == "packet").map(|e| e["len"].clone()).collect();
        let all_same = s.events.iter().filter(|e| e["e"] == "packet").all(|e| e["same"] == true);
        let panicked = s.events.iter().any(|e| e["e"] == "panic");
        writeln!(w, "{}", json!({"lens": lens, "cut": cut, "full": full, "reads": reads, "delivered": delivered, "same": all_same, "panic": panicked,
                                  "errored": s.events.iter().any(|e| e["e"] == "error")}))?;
    }
    w.flush()?;
    Ok(())
}

/// transport-trace <seed> <lens spec> <out.ndjson>: writes packets of the given body lengths with the real writer, groups them into
/// connections, reads them back through the real reader under seeded random chunkings (with Pending wake-ups and, for some
/// connections, an early end of stream), and logs the event trace.  lens spec: "a-b" ranges and single values, comma separated.
pub fn transport_trace(args: &[String]) -> anyhow::Result<()> {
    let seed: u64 = args[0].parse()?;
    let mut lens: Vec<usize> = vec![];
    for part in args[1].split(',') {
        if let Some((a, b)) = part.split_once('-') {
            let (a, b): (usize, usize) = (a.parse()?, b.parse()?);
            lens.extend(a..=b);
        } else if let Some((a, step)) = part.split_once('%') {
            // every step-th length up to a
            let (a, step): (usize, usize) = (a.parse()?, step.parse()?);
            lens.extend((0..=a).step_by(step));
        } else {
            lens.push(part.parse()?);
        }
    }
    let mut w = out_file(&args[2])?;
    let mut rng = Rng::new(seed);
    let rt = rt();
    let mut i = 0;
    while i < lens.len() {
        let k = (rng.range(1, 6) as usize).min(lens.len() - i);
        let group = &lens[i..i + k];
        i += k;
        let mut written = write_packets(group);
        // one short packet in eight is announced in the extended form (a peer may do that; the reader has to follow the header)
        let mut forced: Vec<u8> = vec![0; written.len()];
        for (j, w) in written.iter_mut().enumerate() {
            if w.len() >= 3 && w[2] != 0xff && rng.chance(1, 8) {
                forced[j] = 1;
                let n = w[2];
                let mut v = vec![w[0], w[1], 0xff, n, 0];
                v.extend_from_slice(&w[3..]);
                *w = v;
            }
        }
        let mut stream: Vec<u8> = written.concat();
        let full = stream.len();
        let cut = if rng.chance(1, 5) { rng.below(full as u64 + 1) as usize } else { full };
        stream.truncate(cut);
        // chunk plan: sizes from a heavy-tailed distribution, 0 = Pending
        let mut plan = vec![];
        let mut covered = 0usize;
        while covered < cut + 8 {
            if rng.chance(1, 25) {
                // nothing arrives for a few seconds
                plan.push(PAUSE + *rng.pick(&[1500usize, 2500, 11000, 61000]));
                continue;
            }
            let c = match rng.below(10) {
                0 => 0,
                1 | 2 | 3 => 1,
                4 | 5 => rng.range(1, 4) as usize,
                6 | 7 => rng.range(1, 300) as usize,
                _ => rng.range(1, 70000) as usize,
            };
            plan.push(c);
            covered += c;
            if plan.len() > 20000 {
                break;
            }
        }
        let src = ScriptSource::default();
        {
            let mut s = src.0.lock().unwrap();
            s.data = stream;
            s.plan = plan;
            s.log_bytes_upto = 5;
        }
        let hdrs: Vec<usize> = written.iter().map(|p| if p.len() >= 3 && p[2] == 0xff { 5 } else { 3 }).collect();
        writeln!(w, "{}", json!({"e": "reset", "lens": group, "hdrs": hdrs, "forced": forced, "cut": cut, "full": full}))?;
        let mut pt = PacketTransport { source: src.clone() };
        rt.block_on(read_all(&mut pt, &written, k + 2));
        for e in src.0.lock().unwrap().events.iter() {
            writeln!(w, "{}", e)?;
        }
    }
    w.flush()?;
    Ok(())
}
