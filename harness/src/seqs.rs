//! L3 conformance: the real Sequence::into_stream implementations against a scripted peer.
//!
//! seq-run <cases.ndjson> <out.ndjson>
//!   case: {"cmd": sequence name, "req": [request bytes], "frames": [{"bytes":[..],"trunc":bool}..], ...passed through...}
//!   out:  case fields + {"obs": [events], "obs_left": bytes not consumed, "note": ..}
//! Events are records {e, a, v, n} in the vocabulary of spec/sequence/ZvtSequence.tla.  The peer queues the whole script
//! up front (eager); it recognises complete frames written by the code under test with the APDU framing only.
use crate::util::*;
use futures::StreamExt;
use serde_json::{json, Value};
use std::io::{BufRead, Write};
use std::pin::Pin;
use std::sync::{Arc, Mutex};
use std::task::{Context, Poll};
use tokio::io::{AsyncRead, AsyncWrite, ReadBuf};
use zvt::io::PacketTransport;
use zvt::sequences::Sequence;
use zvt::ZvtSerializer;

pub fn ev(e: &str, a: &str, v: &str, n: usize) -> Value {
    json!({"e": e, "a": a, "v": v, "n": n})
}

#[derive(Default)]
pub struct PeerState {
    pub data: Vec<u8>,
    pub pos: usize,
    pub bounds: Vec<usize>, // end offset of each frame in data
    pub next_frame: usize,
    pub wbuf: Vec<u8>,
    pub cmd_cf: (u8, u8),
    pub cmd_seen: bool,
    pub events: Vec<Value>,
    pub datas: Vec<Value>, // decoded header of each data frame written (firmware upload): raw bytes
    pub chunk: usize,      // max bytes per poll_read (0 = unlimited)
    pub wchunk: usize,     // max bytes accepted per poll_write (0 = unlimited): partial writes
    pub wfail: usize,      // the wfail-th frame cannot be written: every write fails once wfail - 1 frames are through (0 = never)
    pub nw: usize,         // frames written so far
    pub wfail_logged: bool,
    pub pause_at: usize,   // when the reader has consumed this many bytes, nothing arrives for pause_ms of virtual time (once)
    pub pause_ms: u64,
    pub end_kind: u8,      // how the connection ends behind the script: 0 end of file, 1.. an error of the operating system
    pub paused: bool,
    pub resume_at: Option<tokio::time::Instant>,
}

#[derive(Clone, Default)]
pub struct Peer(pub Arc<Mutex<PeerState>>);

impl AsyncRead for Peer {
    fn poll_read(self: Pin<&mut Self>, cx: &mut Context<'_>, buf: &mut ReadBuf<'_>) -> Poll<std::io::Result<()>> {
        let mut s = self.0.lock().unwrap();
        let want = buf.remaining();
        let avail = s.data.len() - s.pos;
        if s.pause_ms > 0 && s.pos == s.pause_at && avail > 0 {
            // the rest of the frame is late: nothing is handed out before the pause is over, however often the reader asks
            let now = tokio::time::Instant::now();
            if !s.paused {
                s.paused = true;
                s.resume_at = Some(now + std::time::Duration::from_millis(s.pause_ms));
            }
            if let Some(t) = s.resume_at {
                if now < t {
                    let w = cx.waker().clone();
                    tokio::spawn(async move {
                        tokio::time::sleep_until(t).await;
                        w.wake();
                    });
                    return Poll::Pending;
                }
            }
        }
        let mut n = want.min(avail);
        if s.chunk > 0 {
            n = n.min(s.chunk);
        }
        if s.pause_ms > 0 && !s.paused && s.pos < s.pause_at {
            n = n.min(s.pause_at - s.pos);
        }
        if n == 0 {
            if want > 0 {
                s.events.push(ev("r_eof", "", "", 0));
                // the far end does not always close orderly: a reset, an abort, a broken pipe, a time-out end the connection just the same
                let kind = match s.end_kind {
                    1 => Some(std::io::ErrorKind::ConnectionReset),
                    2 => Some(std::io::ErrorKind::ConnectionAborted),
                    3 => Some(std::io::ErrorKind::BrokenPipe),
                    4 => Some(std::io::ErrorKind::TimedOut),
                    5 => Some(std::io::ErrorKind::Other),
                    _ => None,
                };
                if let Some(k) = kind {
                    return Poll::Ready(Err(std::io::Error::new(k, "the connection ended")));
                }
            }
            return Poll::Ready(Ok(()));
        }
        let st = s.pos;
        buf.put_slice(&s.data[st..st + n]);
        s.pos += n;
        while s.next_frame < s.bounds.len() && s.pos >= s.bounds[s.next_frame] {
            s.next_frame += 1;
            let k = s.next_frame;
            s.events.push(ev("r", "", "", k));
        }
        Poll::Ready(Ok(()))
    }
}

impl AsyncWrite for Peer {
    fn poll_write(self: Pin<&mut Self>, _: &mut Context<'_>, buf: &[u8]) -> Poll<std::io::Result<usize>> {
        let mut s = self.0.lock().unwrap();
        if s.wfail > 0 && s.nw + 1 >= s.wfail {
            if !s.wfail_logged {
                s.wfail_logged = true;
                s.events.push(ev("w_fail", "", "", 0));
            }
            return Poll::Ready(Err(std::io::Error::new(std::io::ErrorKind::BrokenPipe, "the connection refuses the write")));
        }
        let take = if s.wchunk > 0 { buf.len().min(s.wchunk) } else { buf.len() };
        let buf = &buf[..take];
        s.wbuf.extend_from_slice(buf);
        // recognise complete frames
        loop {
            if s.wbuf.len() < 3 {
                break;
            }
            let (hdr, len) = if s.wbuf[2] == 0xff {
                if s.wbuf.len() < 5 {
                    break;
                }
                (5, s.wbuf[3] as usize + 256 * s.wbuf[4] as usize)
            } else {
                (3, s.wbuf[2] as usize)
            };
            if s.wbuf.len() < hdr + len {
                break;
            }
            let frame: Vec<u8> = s.wbuf.drain(..hdr + len).collect();
            let cf = (frame[0], frame[1]);
            let kind = if cf == (0x80, 0x00) && len == 0 {
                "ack"
            } else if cf == (0x80, 0x00) {
                "data"
            } else if cf == s.cmd_cf && !s.cmd_seen {
                s.cmd_seen = true;
                "cmd"
            } else {
                "other"
            };
            if kind == "data" || kind == "cmd" {
                s.datas.push(json!({"kind": kind, "bytes": frame}));
            }
            s.events.push(ev("w", kind, "", 0));
            s.nw += 1;
            if s.wfail > 0 && s.nw + 1 >= s.wfail {
                // the rest of this write (if any) belongs to the frame that cannot be written
                s.wbuf.clear();
                break;
            }
        }
        Poll::Ready(Ok(buf.len()))
    }
    fn poll_flush(self: Pin<&mut Self>, _: &mut Context<'_>) -> Poll<std::io::Result<()>> {
        Poll::Ready(Ok(()))
    }
    fn poll_shutdown(self: Pin<&mut Self>, _: &mut Context<'_>) -> Poll<std::io::Result<()>> {
        Poll::Ready(Ok(()))
    }
}

pub fn make_peer(case: &Value) -> Peer {
    let p = Peer::default();
    {
        let mut s = p.0.lock().unwrap();
        for f in case["frames"].as_array().unwrap() {
            let b: Vec<u8> = f["bytes"].as_array().unwrap().iter().map(|x| x.as_u64().unwrap() as u8).collect();
            s.data.extend_from_slice(&b);
            if f["trunc"] == true {
                // the connection ends inside this frame: it is never complete
            } else {
                let end = s.data.len();
                s.bounds.push(end);
            }
        }
        let req = case["req"].as_array().unwrap();
        s.cmd_cf = (req[0].as_u64().unwrap() as u8, req[1].as_u64().unwrap() as u8);
        s.chunk = case.get("chunk").and_then(|c| c.as_u64()).unwrap_or(0) as usize;
        s.wchunk = case.get("wchunk").and_then(|c| c.as_u64()).unwrap_or(0) as usize;
        s.wfail = case.get("wfail").and_then(|c| c.as_u64()).unwrap_or(0) as usize;
        s.pause_at = case.get("pause_at").and_then(|c| c.as_u64()).unwrap_or(0) as usize;
        s.pause_ms = case.get("pause_ms").and_then(|c| c.as_u64()).unwrap_or(0);
        s.end_kind = case.get("end_kind").and_then(|c| c.as_u64()).unwrap_or(0) as u8;
    }
    p
}

fn variant_name(dbg: &str) -> String {
    dbg.split(|c: char| c == '(' || c == ' ' || c == '{').next().unwrap_or("").to_string()
}

/// A stream must end: more items than the script has frames (plus a margin) means it does not.
fn item_cap(peer: &Peer) -> usize {
    let s = peer.0.lock().unwrap();
    s.data.len() / 3 + 16
}

async fn drive<S>(req: Vec<u8>, peer: Peer) -> String
where
    S: Sequence,
    S::Input: ZvtSerializer + Send + Sync,
    zvt::encoding::Default: zvt::encoding::Encoding<S::Input>,
    S::Output: std::fmt::Debug,
{
    let input = match S::Input::zvt_deserialize(&req) {
        Ok((v, _)) => v,
        Err(e) => return format!("request does not decode: {e:?}"),
    };
    let mut pt = PacketTransport { source: peer.clone() };
    let cap = item_cap(&peer);
    let mut stream = S::into_stream(&input, &mut pt);
    let mut items = 0;
    loop {
        let item = stream.next().await;
        let mut s = peer.0.lock().unwrap();
        match item {
            None => {
                s.events.push(ev("end", "", "", 0));
                break;
            }
            Some(Ok(p)) => s.events.push(ev("y", "ok", &variant_name(&format!("{:?}", p)), 0)),
            Some(Err(_)) => s.events.push(ev("y", "err", "", 0)),
        }
        items += 1;
        if items > cap {
            return "stream does not end".into();
        }
    }
    String::new()
}

type Driver = fn(Vec<u8>, Peer) -> Pin<Box<dyn std::future::Future<Output = String>>>;

macro_rules! seq_registry {
    ($( $name:literal => $ty:ty ),* $(,)?) => {
        pub fn driver(name: &str) -> Option<Driver> {
            match name {
                $( $name => Some((|r, p| Box::pin(drive::<$ty>(r, p))) as Driver), )*
                _ => None,
            }
        }
    };
}

use zvt::feig::sequences as fs;
use zvt::sequences as sq;
seq_registry! {
    "Registration" => sq::Registration, "ReadCard" => sq::ReadCard, "Initialization" => sq::Initialization,
    "SetTerminalId" => sq::SetTerminalId, "ResetTerminal" => sq::ResetTerminal, "Diagnosis" => sq::Diagnosis,
    "EndOfDay" => sq::EndOfDay, "Authorization" => sq::Authorization, "Reservation" => sq::Reservation,
    "PartialReversal" => sq::PartialReversal, "PreAuthReversal" => sq::PreAuthReversal,
    "PrintSystemConfiguration" => sq::PrintSystemConfiguration, "SelectLanguage" => sq::SelectLanguage,
    "StatusEnquiry" => sq::StatusEnquiry, "GetSystemInfo" => fs::GetSystemInfo, "FactoryReset" => fs::FactoryReset,
    "ChangeHostConfiguration" => fs::ChangeHostConfiguration,
}

/// The firmware upload is not a `Sequence`: it takes a directory, a password and a block size.
async fn drive_write_file(case: Value, peer: Peer) -> String {
    let dir = match case.get("dir").and_then(|d| d.as_str()) {
        Some(d) => std::path::PathBuf::from(d),
        None => return "no dir".into(),
    };
    let block = case.get("block").and_then(|b| b.as_u64()).unwrap_or(1024) as u32;
    let password = case.get("password").and_then(|b| b.as_u64()).unwrap_or(123456) as usize;
    let mut pt = PacketTransport { source: peer.clone() };
    let cap = item_cap(&peer);
    let mut stream = fs::WriteFile::into_stream(dir, password, block, &mut pt);
    let mut items = 0;
    loop {
        let item = stream.next().await;
        let mut s = peer.0.lock().unwrap();
        match item {
            None => {
                s.events.push(ev("end", "", "", 0));
                break;
            }
            Some(Ok(p)) => s.events.push(ev("y", "ok", &variant_name(&format!("{:?}", p)), 0)),
            Some(Err(_)) => s.events.push(ev("y", "err", "", 0)),
        }
        items += 1;
        if items > cap {
            return "stream does not end".into();
        }
    }
    String::new()
}

pub fn run_case(rt: &tokio::runtime::Runtime, case: &Value) -> Value {
    let cmd = case["cmd"].as_str().unwrap_or("").to_string();
    let peer = make_peer(case);
    let req: Vec<u8> = case["req"].as_array().unwrap().iter().map(|x| x.as_u64().unwrap() as u8).collect();
    use futures::FutureExt;
    let fut: Pin<Box<dyn std::future::Future<Output = String>>> = if cmd == "WriteFile" {
        Box::pin(drive_write_file(case.clone(), peer.clone()))
    } else {
        match driver(&cmd) {
            Some(d) => d(req, peer.clone()),
            None => Box::pin(async move { format!("unknown sequence {cmd}") }),
        }
    };
    // a watchdog in virtual time: nothing in an exchange waits, so any pending future is a hang
    let mut elapsed_ms = 0u64;
    let r = rt.block_on(async {
        let t0 = tokio::time::Instant::now();
        let r = tokio::time::timeout(std::time::Duration::from_secs(86400), std::panic::AssertUnwindSafe(fut).catch_unwind()).await;
        elapsed_ms = (tokio::time::Instant::now() - t0).as_millis() as u64;
        r
    });
    let mut s = peer.0.lock().unwrap();
    let note = match r {
        Err(_) => {
            s.events.push(ev("hang", "", "", 0));
            "hang".to_string()
        }
        Ok(Err(_)) => {
            s.events.push(ev("panic", "", "", 0));
            "panic".to_string()
        }
        Ok(Ok(n)) => n,
    };
    let mut out = case.as_object().cloned().unwrap_or_default();
    out.insert("obs".into(), Value::Array(s.events.clone()));
    out.insert("obs_left".into(), json!(s.data.len() - s.pos));
    out.insert("written".into(), Value::Array(s.datas.clone()));
    out.insert("note".into(), json!(note));
    out.insert("elapsed_ms".into(), json!(elapsed_ms));
    out.insert("paused".into(), json!(s.paused));
    Value::Object(out)
}

pub fn seq_run(args: &[String]) -> anyhow::Result<()> {
    let f = std::io::BufReader::new(std::fs::File::open(&args[0])?);
    let mut w = out_file(&args[1])?;
    let rt = crate::transport::rt();
    let strip = args.get(2).map(|s| s == "strip").unwrap_or(false);
    for line in f.lines() {
        let line = line?;
        if line.trim().is_empty() {
            continue;
        }
        let case: Value = serde_json::from_str(&line)?;
        let mut out = run_case(&rt, &case);
        if strip {
            // replay mode: the expected log travels with the case, the frames are not needed downstream
            if let Some(m) = out.as_object_mut() {
                m.remove("frames");
                m.remove("req");
                m.remove("written");
            }
        }
        writeln!(w, "{}", out)?;
    }
    w.flush()?;
    Ok(())
}

/// seq-gen <layout.json> <replies.json> <seed> <count> <maxlen> <mode: clean|fault|mix> <out.ndjson> [cmd ...]
/// Seeded random PT scripts with real packet bodies (structure-aware generator over the specification's tables):
/// clean = acknowledgement, non-final replies, a final reply somewhere, frames queued behind it;
/// fault = one fault (NACK, foreign control field, damaged body, truncated frame, early end) at a random position.
pub fn seq_gen(args: &[String]) -> anyhow::Result<()> {
    use crate::gen::{self, Layout};
    let l = Layout::load(&args[0])?;
    let rep: Value = serde_json::from_str(&std::fs::read_to_string(&args[1])?)?;
    let seed: u64 = args[2].parse()?;
    let count: usize = args[3].parse()?;
    let maxlen: u64 = args[4].parse()?;
    let mode = args[5].as_str();
    let mut w = out_file(&args[6])?;
    let mut cmds: Vec<String> = args[7..].to_vec();
    if cmds.is_empty() {
        cmds = rep["sequences"].as_object().unwrap().keys().filter(|k| *k != "WriteFile").cloned().collect();
    }
    let mut rng = Rng::new(seed);
    for k in 0..count {
        let cmd = &cmds[k % cmds.len()];
        let sq = &rep["sequences"][cmd];
        let parser = sq["parser"].as_str().unwrap();
        let variants = rep["replies"][parser].as_array().unwrap();
        let finals: Vec<&str> = sq["finals"].as_array().unwrap().iter().map(|x| x.as_str().unwrap()).collect();
        let non_final: Vec<&Value> = variants.iter().filter(|v| !finals.contains(&v["v"].as_str().unwrap())).collect();
        let final_v: Vec<&Value> = variants.iter().filter(|v| finals.contains(&v["v"].as_str().unwrap())).collect();
        let req_ty = sq["req"].as_str().unwrap();
        // the request: a generated body that the real decoder accepts (the harness decodes it to obtain the input value)
        let req = loop {
            let body = gen::gen_struct(&l, req_ty, &mut rng, 0, true);
            let b = gen::frame(&l, req_ty, body);
            if crate::codec::runner(req_ty).map(|r| r(&b).st == "ok").unwrap_or(false) {
                break b;
            }
        };
        let frame_of = |v: &Value, rng: &mut Rng| -> Vec<u8> {
            let ty = v["ty"].as_str().unwrap();
            let body = gen::gen_struct(&l, ty, rng, 0, true);
            gen::frame(&l, ty, body)
        };
        let mut frames: Vec<Value> = vec![];
        frames.push(json!({"bytes": [0x80, 0x00, 0x00], "trunc": false}));
        let n = rng.range(0, maxlen);
        for _ in 0..n {
            if !non_final.is_empty() && sq["loop"] == true {
                let v = *rng.pick(&non_final);
                frames.push(json!({"bytes": frame_of(v, &mut rng), "trunc": false}));
            }
        }
        if rng.chance(9, 10) {
            let v = *rng.pick(&final_v);
            frames.push(json!({"bytes": frame_of(v, &mut rng), "trunc": false}));
        }
        // frames of a following exchange, queued behind
        for _ in 0..rng.range(0, 3) {
            let v = rng.pick(variants);
            frames.push(json!({"bytes": frame_of(v, &mut rng), "trunc": false}));
        }
        let faulty = match mode {
            "fault" => true,
            "mix" => rng.chance(1, 2),
            _ => false,
        };
        let mut fault = "";
        if faulty {
            let pos = rng.below(frames.len() as u64) as usize;
            match rng.below(6) {
                0 => {
                    frames[pos] = json!({"bytes": [0x84, rng.next() as u8, 0x00], "trunc": false});
                    fault = "nack";
                }
                1 => {
                    frames[pos] = json!({"bytes": [0x04, 0x0d, 0x02, 0x01, 0x02], "trunc": false});
                    fault = "foreign";
                }
                2 => {
                    // damage the body of the frame
                    let mut b: Vec<u8> = frames[pos]["bytes"].as_array().unwrap().iter().map(|x| x.as_u64().unwrap() as u8).collect();
                    let hdr = if b[2] == 0xff { 5 } else { 3 };
                    if b.len() > hdr {
                        let (m, _) = gen::mutate(&l, req_ty, b[hdr..].to_vec(), &mut rng);
                        let cf = [b[0], b[1]];
                        b = vec![cf[0], cf[1]];
                        if m.len() < 255 {
                            b.push(m.len() as u8);
                        } else {
                            b.extend([0xff, m.len() as u8, (m.len() >> 8) as u8]);
                        }
                        b.extend(m);
                    }
                    frames[pos] = json!({"bytes": b, "trunc": false});
                    fault = "damaged";
                }
                3 => {
                    // truncated frame: the connection ends inside it
                    let b: Vec<u8> = frames[pos]["bytes"].as_array().unwrap().iter().map(|x| x.as_u64().unwrap() as u8).collect();
                    let cut = rng.below(b.len() as u64) as usize;
                    frames.truncate(pos);
                    if cut > 0 {
                        frames.push(json!({"bytes": b[..cut].to_vec(), "trunc": true}));
                    }
                    fault = "truncated";
                }
                4 => {
                    frames.truncate(pos);
                    fault = "eof";
                }
                _ => {
                    // an acknowledgement where a reply is expected / a reply where the acknowledgement is expected
                    if pos == 0 {
                        let v = rng.pick(variants);
                        frames[0] = json!({"bytes": frame_of(v, &mut rng), "trunc": false});
                    } else {
                        frames[pos] = json!({"bytes": [0x80, 0x00, 0x00], "trunc": false});
                    }
                    fault = "misplaced";
                }
            }
        }
        let chunk = *rng.pick(&[0u64, 0, 1, 2, 7, 64]);
        writeln!(w, "{}", json!({"cmd": cmd, "req": req, "frames": frames, "fault": fault, "chunk": chunk}))?;
    }
    w.flush()?;
    Ok(())
}
