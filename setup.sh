#!/bin/sh
# Run once in /verif after a fresh restore, offline: builds the conformance harness (debug and
# release) against /repo's working tree from files on disk only.
set -e
cd "$(dirname "$0")"
export CARGO_NET_OFFLINE=true
mkdir -p work evidence replays
python3 - <<'PY'
import sys
sys.path.insert(0, "lib")
import vlib
print(vlib.harness_build(quiet=False))
print(vlib.harness_build(release=True, quiet=False))
PY
echo "setup done"
