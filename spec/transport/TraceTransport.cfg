CONSTANTS
  ShortMax = 254
INIT TInit
NEXT TNext
INVARIANT HeaderForm
POSTCONDITION Accepted
