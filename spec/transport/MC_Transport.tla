----------------------------- MODULE MC_Transport -----------------------------
(* Exhaustive instance: short/extended switch at 2, up to 3 packets with      *)
(* bodies 0..4, every chunking, every end-of-stream position.  Also the       *)
(* header agreement for every body length 0..65535 with the real switch.      *)
EXTENDS ZvtTransport

\* real constants: header law for every length
RealHeader(n) == IF n <= 254 THEN <<n>> ELSE <<255, n % 256, n \div 256>>
RealParse(h) == IF h[1] = 255 THEN h[2] + 256 * h[3] ELSE h[1]
ASSUME \A n \in 0..65535 : RealParse(RealHeader(n)) = n /\ Len(RealHeader(n)) = (IF n <= 254 THEN 1 ELSE 3)

\* when a behaviour is finished and nothing was cut off, every packet was delivered
AllDelivered == (Done /\ cut = Len(Stream(lens))) => Len(delivered) = Len(lens)
\* a cut inside the stream ends in an error after the complete packets before it
CutGivesError == (cut < Len(Stream(lens)) /\ phase = "idle" /\ wire = <<>> /\ status = "run") =>
                   SumLen(delivered) = cut
=============================================================================
