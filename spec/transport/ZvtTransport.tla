----------------------------- MODULE ZvtTransport -----------------------------
(* L2: reading APDU packets from a byte stream.  The writer emits            *)
(*     class instr <len> body        with <len> one byte up to ShortMax,     *)
(*     class instr <Marker> lo hi body   above (Marker = ShortMax + 1).      *)
(* The reader (PacketTransport::read_packet) is an automaton: it asks the    *)
(* source for exactly the bytes it still needs (never more), in three        *)
(* phases - 3 header bytes, 2 extended length bytes if the third header byte *)
(* is the marker, then the announced body - and delivers the packet when the *)
(* body is complete.  The source is nondeterministic: it hands over any      *)
(* number 1..need of the available bytes per read, may answer Pending, and   *)
(* ends (EOF) after `cut` bytes.                                             *)
(*                                                                           *)
(* ShortMax is 254 in reality (TraceTransport, simulation); the exhaustive   *)
(* model overrides it with 2 so that both header forms and every cut and     *)
(* chunk position are explored with tiny bodies.                             *)
EXTENDS ZvtFraming, TLC

CONSTANTS MaxPackets,    \* packets written in one behaviour
          BodyLens       \* set of body lengths to choose from

\* body byte i of packet j: a small pattern that also produces the marker value inside bodies
BodyByte(j, i) == (i + j) % (Marker + 1)
Packet(j, n) == <<6, 15>> \o Header(n) \o [i \in 1..n |-> BodyByte(j, i)]

VARIABLES lens,        \* body lengths of the packets written (fixed per behaviour)
          cut,         \* the connection ends after this many bytes
          wire,        \* bytes written and not yet handed to the reader
          phase,       \* "idle" | "hdr" | "ext" | "body"
          need,        \* bytes still needed in this phase
          buf,         \* bytes of the packet being read
          delivered,   \* packets handed to the caller, in order
          consumed,    \* bytes taken from the source so far
          status,      \* "run" | "err"
          hist         \* the reads so far: <<want, got>> (got = 0: EOF) - observation only

vars == <<lens, cut, wire, phase, need, buf, delivered, consumed, status, hist>>
view == <<lens, cut, wire, phase, need, buf, delivered, consumed, status>>

Stream(ls) == Flatten([j \in 1..Len(ls) |-> Packet(j, ls[j])])

LenSeqs == UNION {[1..k -> BodyLens] : k \in 1..MaxPackets}

\* where the connection may end (overridden with a boundary set by the simulation config)
CutSet(ls) == 0..Len(Stream(ls))

Init == /\ lens \in LenSeqs
        /\ cut \in CutSet(lens)
        /\ wire = Take(Stream(lens), cut)
        /\ phase = "idle" /\ need = 0 /\ buf = <<>> /\ delivered = <<>> /\ consumed = 0 /\ status = "run"
        /\ hist = <<>>

(* the caller asks for the next packet *)
StartRead == /\ status = "run" /\ phase = "idle"
             /\ phase' = "hdr" /\ need' = 3 /\ buf' = <<>>
             /\ UNCHANGED <<lens, cut, wire, delivered, consumed, status, hist>>

(* one poll_read: the reader offers exactly `need` bytes of capacity, the source fills k of them *)
Chunk(k) == /\ status = "run" /\ phase # "idle" /\ need > 0
            /\ k >= 1 /\ k <= need /\ k <= Len(wire)
            /\ buf' = buf \o Take(wire, k)
            /\ wire' = Drop(wire, k)
            /\ need' = need - k
            /\ consumed' = consumed + k
            /\ hist' = Append(hist, <<need, k>>)
            /\ UNCHANGED <<lens, cut, phase, delivered, status>>

HeaderDone == /\ status = "run" /\ phase = "hdr" /\ need = 0
              /\ phase' = AfterHeader(buf[3]).phase /\ need' = AfterHeader(buf[3]).need
              /\ UNCHANGED <<lens, cut, wire, buf, delivered, consumed, status, hist>>

ExtDone == /\ status = "run" /\ phase = "ext" /\ need = 0
           /\ phase' = "body" /\ need' = AfterExt(buf[4], buf[5])
           /\ UNCHANGED <<lens, cut, wire, buf, delivered, consumed, status, hist>>

BodyDone == /\ status = "run" /\ phase = "body" /\ need = 0
            /\ delivered' = Append(delivered, buf)
            /\ phase' = "idle" /\ buf' = <<>>
            /\ UNCHANGED <<lens, cut, wire, need, consumed, status, hist>>

(* the connection ends while bytes are still needed: an error, never a packet *)
Eof == /\ status = "run" /\ phase # "idle" /\ need > 0 /\ wire = <<>>
       /\ status' = "err"
       /\ hist' = Append(hist, <<need, 0>>)
       /\ UNCHANGED <<lens, cut, wire, phase, need, buf, delivered, consumed>>

Next == StartRead \/ (\E k \in 1..(IF need < Len(wire) THEN need ELSE Len(wire)) : Chunk(k)) \/ HeaderDone \/ ExtDone \/ BodyDone \/ Eof

Spec == Init /\ [][Next]_vars

(* ------------------------------------------------------------------ P_C04 *)
Written == [j \in 1..Len(lens) |-> Packet(j, lens[j])]
RECURSIVE SumLen(_)
SumLen(ps) == IF ps = <<>> THEN 0 ELSE Len(Head(ps)) + SumLen(Tail(ps))

\* the packets handed over are the packets written, in order
DeliveredPrefix == Len(delivered) <= Len(lens) /\ delivered = SubSeq(Written, 1, Len(delivered))
\* each read consumes precisely its header plus the announced body: nothing of the next packet is touched
ConsumedExact == consumed = SumLen(delivered) + Len(buf)
\* a packet is only delivered if all of its bytes arrived before the end of the connection
NoPacketFromTruncation == SumLen(delivered) <= cut
\* a connection ending inside a packet yields an error: the reader cannot rest in a packet forever
ErrorOnlyAtEnd == status = "err" => wire = <<>> /\ consumed = cut
\* the reader's interpretation of the header agrees with the writer's
HeaderAgreement == (phase = "body" /\ Len(delivered) < Len(lens)) => Len(buf) + need = Len(Written[Len(delivered) + 1])

\* terminal: everything readable was read
Done == \/ status = "err"
        \/ (phase = "idle" /\ wire = <<>> /\ Len(delivered) = Len(lens))
=============================================================================
