---------------------------- MODULE TraceTransport ----------------------------
(* impl -> spec for C04: the event trace of the real read_packet over the     *)
(* instrumented source (harness: transport-trace) must be a behaviour of the  *)
(* reader automaton of ZvtTransport with the real switch (ShortMax = 254);     *)
(* the actions below are that automaton's actions over the logged quantities. *)
(* Body bytes are not logged (only how many were asked for and handed over);  *)
(* header and extended-length bytes are, so the reader's reading of them is   *)
(* re-done here with ZvtTransport's own AfterHeader / AfterExt.               *)
EXTENDS ZvtFraming, TLC, Json, IOUtils

Rec == ndJsonDeserialize(IOEnv.TRANSPORT_TRACE)

VARIABLES l,     \* next event
          rd,    \* reader: [phase, need, hdr]
          conn,  \* the current connection's reset record
          k,     \* packets delivered on it
          used,  \* bytes handed to the reader on it
          st     \* "run" | "eof" | "err"
tvars == <<l, rd, conn, k, used, st>>

Idle == [phase |-> "idle", need |-> 0, hdr |-> <<>>]
Ev == Rec[l]
Is(e) == l <= Len(Rec) /\ Ev.e = e

\* bytes of the first j packets of the connection
RECURSIVE Upto(_, _)
Upto(c, j) == IF j = 0 THEN 0 ELSE Upto(c, j - 1) + c.hdrs[j] + c.lens[j]

Advance(r) ==
  IF r.need > 0 THEN r
  ELSE IF r.phase = "hdr" THEN [r EXCEPT !.phase = AfterHeader(r.hdr[3]).phase, !.need = AfterHeader(r.hdr[3]).need]
  ELSE IF r.phase = "ext" THEN [r EXCEPT !.phase = "body", !.need = AfterExt(r.hdr[4], r.hdr[5])]
  ELSE r

TInit == l = 1 /\ rd = Idle /\ conn = [lens |-> <<>>, hdrs |-> <<>>, forced |-> <<>>, cut |-> 0, full |-> 0] /\ k = 0 /\ used = 0 /\ st = "run"

TReset == Is("reset") /\ conn' = Ev /\ rd' = Idle /\ k' = 0 /\ used' = 0 /\ st' = "run" /\ l' = l + 1

TStart == Is("start") /\ st = "run" /\ rd.phase = "idle"
          /\ rd' = [phase |-> "hdr", need |-> 3, hdr |-> <<>>]
          /\ l' = l + 1 /\ UNCHANGED <<conn, k, used, st>>

\* one poll_read: the reader offered exactly what it still needs, and got at most that
TPoll == Is("poll") /\ st = "run" /\ rd.phase # "idle"
         /\ Ev.want = rd.need /\ Ev.got >= 1 /\ Ev.got <= rd.need
         /\ used + Ev.got <= conn.cut
         /\ rd' = Advance([rd EXCEPT !.need = @ - Ev.got,
                                     !.hdr = IF rd.phase \in {"hdr", "ext"} THEN @ \o Ev.hd ELSE @])
         /\ (rd.phase \in {"hdr", "ext"} => Len(Ev.hd) = Ev.got)
         /\ used' = used + Ev.got
         /\ l' = l + 1 /\ UNCHANGED <<conn, k, st>>

TPending == Is("pending") /\ st = "run" /\ rd.phase # "idle" /\ Ev.want = rd.need
            /\ l' = l + 1 /\ UNCHANGED <<rd, conn, k, used, st>>

\* the source ended while bytes were still needed
TEof == Is("eof") /\ st = "run" /\ rd.phase # "idle" /\ Ev.want = rd.need /\ rd.need > 0 /\ used = conn.cut
        /\ st' = "eof" /\ l' = l + 1 /\ UNCHANGED <<rd, conn, k, used>>

\* an error is reported only after the end of the stream was hit inside (or in front of) a packet
TError == Is("error") /\ st = "eof" /\ st' = "err" /\ l' = l + 1 /\ UNCHANGED <<rd, conn, k, used>>

\* a packet is delivered exactly when its announced body is complete; it is the next packet written, bit for bit,
\* and precisely its header and body were consumed
TPacket == Is("packet") /\ st = "run" /\ rd.phase = "body" /\ rd.need = 0
           /\ k < Len(conn.lens)
           /\ Ev.len = conn.lens[k + 1] /\ Ev.hdr = conn.hdrs[k + 1] /\ Len(rd.hdr) = Ev.hdr
           /\ Ev.same = TRUE
           /\ used = Upto(conn, k + 1)
           /\ k' = k + 1 /\ rd' = Idle
           /\ l' = l + 1 /\ UNCHANGED <<conn, used, st>>

TNext == TReset \/ TStart \/ TPoll \/ TPending \/ TEof \/ TError \/ TPacket

\* writer / reader header agreement as the trace sees it: the header form the writer chose is the one the format prescribes
\* (packets the driver re-framed on purpose - a peer may announce any length in the extended form - are marked `forced`)
HeaderForm == \A j \in 1..Len(conn.lens) : conn.hdrs[j] = (IF conn.lens[j] <= ShortMax /\ conn.forced[j] = 0 THEN 3 ELSE 5)

Accepted == LET d == TLCGet("stats").diameter IN
            IF d - 1 = Len(Rec) THEN TRUE
            ELSE PrintT(<<"REJECTED-AT", d, ToJson(Rec[d])>>) /\ FALSE
=============================================================================
