----------------------------- MODULE Sim_Transport ----------------------------
(* spec -> impl: behaviours of the transport model with the real switch (254) *)
(* drawn by TLC's simulator; each finished behaviour is printed once as JSON  *)
(* (packet lengths, cut, the reads with the capacity offered and the bytes    *)
(* supplied, packets delivered, final status) and replayed into the real      *)
(* read_packet by the harness.                                                *)
EXTENDS ZvtTransport, Json
\* the end of the connection: around every packet boundary and header, or nowhere
RECURSIVE Bounds(_, _)
Bounds(ls, j) == IF j > Len(ls) THEN {} ELSE
                 LET st == Len(Stream(SubSeq(ls, 1, j - 1))) IN
                 {st, st + 1, st + 2, st + 3, st + 4, st + 5, st + 6, st + Len(Packet(j, ls[j])) - 1} \cup Bounds(ls, j + 1)
SimCutSet(ls) == (Bounds(ls, 1) \cap (0..Len(Stream(ls)))) \cup {Len(Stream(ls))}
Emit == status = "err" =>
          PrintT(<<"BEH", ToJson([lens |-> lens, cut |-> cut, reads |-> hist,
                                  delivered |-> [j \in 1..Len(delivered) |-> lens[j]]])>>)
=============================================================================
