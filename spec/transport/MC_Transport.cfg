CONSTANTS
  ShortMax = 2
  MaxPackets = 3
  BodyLens = {0, 1, 2, 3, 4}
INIT Init
NEXT Next
VIEW view
INVARIANT DeliveredPrefix
INVARIANT ConsumedExact
INVARIANT NoPacketFromTruncation
INVARIANT ErrorOnlyAtEnd
INVARIANT HeaderAgreement
INVARIANT AllDelivered
INVARIANT CutGivesError
