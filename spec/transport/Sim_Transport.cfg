CONSTANTS
  ShortMax = 254
  MaxPackets = 3
  BodyLens = {0, 1, 2, 17, 253, 254, 255, 256, 300}
CONSTANT CutSet <- SimCutSet
INIT Init
NEXT Next
INVARIANT Emit
INVARIANT DeliveredPrefix
INVARIANT ConsumedExact
