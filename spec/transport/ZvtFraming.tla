------------------------------ MODULE ZvtFraming ------------------------------
(* APDU framing on the byte stream: what the writer emits for a body length   *)
(* and how the reader reads the header back.  Shared by the reader automaton  *)
(* (ZvtTransport) and the trace specification (TraceTransport).               *)
EXTENDS Naturals, Sequences, Bytes

CONSTANT ShortMax      \* largest body length with a one-byte length (254 in reality)

Marker == ShortMax + 1

Header(n) == IF n <= ShortMax THEN <<n>> ELSE <<Marker, n % 256, n \div 256>>
HeaderLen(n) == 2 + Len(Header(n))

\* the reader's reading of the header
AfterHeader(h3) == IF h3 = Marker THEN [phase |-> "ext", need |-> 2] ELSE [phase |-> "body", need |-> h3]
AfterExt(lo, hi) == lo + 256 * hi
=============================================================================
