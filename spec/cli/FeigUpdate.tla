------------------------------ MODULE FeigUpdate ------------------------------
(* L5: the firmware update tool (zvt_cli, bin feig_update) - the one shipped  *)
(* program that composes command sequences on ONE connection:                  *)
(*                                                                            *)
(*   Register     Registration(password, config byte, TLV max APDU 32768);     *)
(*                any error item: the tool panics (exit 101)                   *)
(*   SystemInfo   Feig system information; any error item: panic; a completion *)
(*                gives the running software version                           *)
(*   Decide       unless forced: if <payload>/app1/update.spec names a version *)
(*                that the running version contains, skip (exit 0, nothing     *)
(*                further on the wire)                                         *)
(*   EndOfDay     run precautionarily; every item, errors included, ignored    *)
(*   Upload       WriteFile over the payload directory, block 32768; an error  *)
(*                item or an abort of the terminal: panic; otherwise exit 0    *)
(*                                                                            *)
(* Each stage is one exchange of ZvtSequence (Run) over what the terminal has  *)
(* queued on the connection; what a stage leaves unread is what the next stage *)
(* reads first.  The whole run is therefore a function RunTool(c, frames) of   *)
(* the options and the terminal's script, like Step / Run one layer below; the *)
(* model-checking module enumerates scripts, trace validation replays the same *)
(* function against the real binary talking to a scripted TCP peer.            *)
EXTENDS WriteFile

Password == <<1, 2, 3, 4, 5, 6>>
MaxApdu == 32768

\* the requests the tool writes (the reference encoder's bytes)
RegistrationReq(configByte) ==
  EncPacket("Registration", [password |-> Password, config_byte |-> DFromInt(configByte), currency |-> <<>>,
                             tlv |-> <<[max_len_adpu |-> <<DFromInt(MaxApdu)>>]>>])
SystemInfoReq == EncPacket("feig_CVendFunctions", [password |-> <<>>, instr |-> DFromInt(1)])
EndOfDayReq == EncPacket("EndOfDay", [password |-> Password])

HasErr(log) == Idx(log, IsErr) # {}
OkItems(log) == SelectSeq(log, IsOk)
Aborted(log) == \E k \in 1..Len(log) : IsOk(log[k]) /\ log[k].v = "Abort"
Rest(frames, s) == SubSeq(frames, s.next, Len(frames))

\* does byte string hay contain needle?  (the empty needle is contained in everything)
Contains(hay, needle) ==
  \E o \in 0..(Len(hay) - Len(needle)) : \A k \in 1..Len(needle) : hay[o + k] = needle[k]

\* the running version as the SystemInfo stage learned it ("unknown" unless a completion was handed over)
Unknown == <<117, 110, 107, 110, 111, 119, 110>>
VersionFrom(f2, s2) ==
  LET ys == OkItems(s2.log) IN
  IF ys # <<>> /\ ys[1].v = "CVendFunctionsEnhancedSystemInformationCompletion"
  THEN ParseEnum("GetSystemInfoResponse", f2[s2.next - 1].bytes).val.sw_version
  ELSE Unknown

\* c = [force, desired (<<>> = update.spec unreadable, <<v>> = its version), announced (ids of the recognised files), config_byte]
\* (lax = TRUE is the control: a tool that goes on whatever the system information exchange gave)
RunToolX(c, frames, lax) ==
  LET s1 == Run(Start("Registration", frames, {}))
      f2 == Rest(frames, s1)
      s2 == Run(Start("GetSystemInfo", f2, {}))
      f3 == Rest(f2, s2)
      skip == ~c.force /\ c.desired # <<>> /\ Contains(VersionFrom(f2, s2), c.desired[1])
      s3 == Run(Start("EndOfDay", f3, {}))
      f4 == Rest(f3, s3)
      s4 == Run(Start("WriteFile", f4, c.announced))
      Res(exit, skipped, stages, left) == [exit |-> exit, skipped |-> skipped, stages |-> stages, left |-> left] IN
  IF HasErr(s1.log) THEN Res(101, FALSE, <<s1>>, f2)
  ELSE IF HasErr(s2.log) /\ ~lax THEN Res(101, FALSE, <<s1, s2>>, f3)
  ELSE IF skip THEN Res(0, TRUE, <<s1, s2>>, f3)
  ELSE IF HasErr(s4.log) \/ Aborted(s4.log) THEN Res(101, FALSE, <<s1, s2, s3, s4>>, Rest(f4, s4))
  ELSE Res(0, FALSE, <<s1, s2, s3, s4>>, Rest(f4, s4))

RunTool(c, frames) == RunToolX(c, frames, FALSE)

(* ---- what an observer at the terminal's end of the connection sees ---------------------------------------- *)
\* the frames the tool writes, in order: [stage, a] with a \in {"cmd", "ack", "data"}
RECURSIVE Writes(_, _)
Writes(stages, k) ==
  IF k > Len(stages) THEN <<>>
  ELSE LET ws == SelectSeq(stages[k].log, IsW) IN [j \in 1..Len(ws) |-> [stage |-> k, a |-> ws[j].a]] \o Writes(stages, k + 1)
\* the items each stage handed to the tool: "ok:<variant>" is printed, "err" panics (or is printed, in EndOfDay)
Items(stages) == [k \in 1..Len(stages) |-> [j \in 1..Len(SelectSeq(stages[k].log, IsY)) |->
                    LET y == SelectSeq(stages[k].log, IsY)[j] IN IF y.a = "ok" THEN y.v ELSE "err"]]

(* ---- properties of a run (P-level: over what is observable) ------------------------------------------------- *)
StageCmd == <<"Registration", "GetSystemInfo", "EndOfDay", "WriteFile">>
\* the commands go out in the fixed order, each at most once, each only after its predecessor's exchange is over
OrderedStages(run) ==
  LET cmds == SelectSeq(Writes(run.stages, 1), LAMBDA w : w.a = "cmd") IN
  /\ \A k \in 1..Len(cmds) : cmds[k].stage = k
  /\ Len(cmds) = Len(run.stages)
\* nothing is uploaded to a terminal the tool is not registered with or whose version it could not ask for
UploadOnlyAfterHandshake(run) ==
  Len(run.stages) = 4 => ~HasErr(run.stages[1].log) /\ ~HasErr(run.stages[2].log)
\* a skipped update writes nothing after the system information exchange
SkipIsSilent(run) == run.skipped => Len(run.stages) = 2 /\ run.exit = 0
\* success is reported only when the terminal completed the upload
SuccessMeansCompleted(run) ==
  (run.exit = 0 /\ ~run.skipped) =>
     LET ys == OkItems(run.stages[4].log) IN ys # <<>> /\ ys[Len(ys)].v = "CompletionData" /\ ~HasErr(run.stages[4].log)
\* every stage obeys the sequence discipline (C05 / C06)
StagesDisciplined(run) == \A k \in 1..Len(run.stages) : P_C05(run.stages[k].log, StageCmd[k]) /\ P_C06(run.stages[k].log)
=============================================================================
