INIT Init
NEXT Next
INVARIANT Judge
