----------------------------- MODULE MC_FeigUpdate -----------------------------
(* The update tool on the specification: every combination of one terminal     *)
(* behaviour per stage (menus below: the regular course, refusals, malformed   *)
(* and foreign frames, a frame too many, a frame too few, nothing at all, the  *)
(* connection ending inside a frame) x forced or not x the payload's version   *)
(* (unreadable, contained in the running version, not contained, empty); plus  *)
(* every script of up to FlatDepth frames over a small alphabet, which covers  *)
(* the shifted cases (one stage reading what was meant for the next).  The     *)
(* end of the script is the end of the connection.  Every run is printed once  *)
(* as a case for replay against the real binary over TCP.                      *)
EXTENDS FeigUpdate, ZvtValues

Emitting == IF "TOOL_EMIT" \in DOMAIN IOEnv THEN IOEnv.TOOL_EMIT = "1" ELSE FALSE
Lax == IF "TOOL_MUT" \in DOMAIN IOEnv THEN IOEnv.TOOL_MUT = "nohandshake" ELSE FALSE
FlatDepth == IF "TOOL_FLAT" \in DOMAIN IOEnv THEN atoi(IOEnv.TOOL_FLAT) ELSE 2

V1 == <<71, 69, 82, 45, 65, 80, 80, 45, 118, 50, 46, 48, 46, 57, 32, 32, 32>>       \* "GER-APP-v2.0.9   "
V2 == <<71, 69, 82, 45, 65, 80, 80, 45, 118, 50, 46, 48, 46, 49, 50, 32, 32>>      \* "GER-APP-v2.0.12  "
D209 == <<50, 46, 48, 46, 57>>                                                      \* "2.0.9"
D2012 == <<50, 46, 48, 46, 49, 50>>                                                 \* "2.0.12"

AckF == Fr(<<128, 0, 0>>, FALSE)
NackF == Fr(<<132, 30, 0>>, FALSE)
Compl == Fr(<<6, 15, 0>>, FALSE)
AbortF == Fr(<<6, 30, 1, 108>>, FALSE)
Inter == Fr(<<4, 255, 1, 10>>, FALSE)
StatusF == Fr(<<4, 15, 2, 39, 0>>, FALSE)
PrintF == Fr(<<6, 209, 3, 0, 65, 66>>, FALSE)
Foreign == Fr(<<4, 13, 0>>, FALSE)
Malformed0f == Fr(<<6, 15, 2, 41, 0>>, FALSE)                  \* completion whose BMP 29 is cut short
TruncF == Fr(<<6, 15, 5, 39>>, TRUE)
SysInfo(v) == Fr(EncPacket("feig_CVendFunctionsEnhancedSystemInformationCompletion",
                           [device_id |-> <<49, 55, 70, 68, 49, 69, 51, 67>>, sw_version |-> v,
                            terminal_id |-> <<53, 50, 53, 48, 48, 48, 52, 49>>, temperature |-> <<50, 52, 46, 52>>]), FALSE)
Req(id, off) == Fr(EncPacket("feig_RequestForData",
                   [tlv |-> <<[file |-> <<[file_id |-> <<DFromInt(id)>>, file_offset |-> <<DFromInt(off)>>, file_size |-> <<>>, payload |-> <<>>]>>]>>]), FALSE)
ReqNoOffset == Fr(EncPacket("feig_RequestForData",
                   [tlv |-> <<[file |-> <<[file_id |-> <<DFromInt(34)>>, file_offset |-> <<>>, file_size |-> <<>>, payload |-> <<>>]>>]>>]), FALSE)

\* the payload directory of the model: app1/update.spec (34) and app1/update.tar.gz (35), firmware/kernel.gz (16)
AnnouncedIds == {16, 34, 35}

RegMenu == << <<AckF, Compl>>, <<AckF, Compl, Compl>>, <<NackF>>, <<AckF, AbortF>>, <<AckF, Malformed0f>>, <<>>, <<AckF>>, <<AckF, Inter, Compl>> >>
SysMenu == << <<AckF, SysInfo(V1)>>, <<AckF, SysInfo(V2)>>, <<AckF, AbortF>>, <<AckF, Compl>>, <<AckF>>, <<AckF, SysInfo(V1), Inter>>, <<NackF>>, <<>> >>
EodMenu == << <<AckF, Compl>>, <<AckF, Inter, StatusF, Compl>>, <<AckF, AbortF>>, <<NackF>>, <<AckF, Malformed0f>>, <<AckF, PrintF, Compl>>, <<>>,
              <<AckF, Foreign>>, <<AckF, Compl, Compl>> >>
UpMenu == << <<AckF, Compl>>, <<AckF, Req(34, 0), Compl>>, <<AckF, Req(35, 0), Req(35, 7), Req(16, 0), Compl>>, <<AckF, Req(35, 172), Req(35, 173), Req(35, 300), Compl>>, <<AckF, Req(33, 0), Compl>>,
             <<AckF, AbortF>>, <<AckF, Req(35, 100000)>>, <<AckF, Req(34, 0), Malformed0f>>, <<AckF, Req(16, 3), TruncF>>, <<AckF, ReqNoOffset, Compl>>,
             <<AckF, Req(34, 0), AbortF>>, <<NackF>>, <<AckF, Inter, Compl>> >>

FlatAlphabet == {AckF, Compl, SysInfo(V1), AbortF, Req(34, 0), NackF, TruncF}
\* (a frame the connection ends in is the last one: bytes behind it would complete it)
FlatScripts == {sc \in UNION {[1..n -> FlatAlphabet] : n \in 0..FlatDepth} : \A k \in 1..(Len(sc) - 1) : ~sc[k].trunc}

Desired == {<<>>, <<D209>>, <<D2012>>, << <<>> >>}

VARIABLE run   \* [c, frames, res]
Mk(c, frames) == [c |-> c, frames |-> frames, res |-> RunToolX(c, frames, Lax)]
Cfg(force, d) == [force |-> force, desired |-> d, announced |-> AnnouncedIds, config_byte |-> 222]
Init == \E force \in BOOLEAN, d \in Desired :
          \/ \E a \in 1..Len(RegMenu), b \in 1..Len(SysMenu), e \in 1..Len(EodMenu), u \in 1..Len(UpMenu) :
                run = Mk(Cfg(force, d), RegMenu[a] \o SysMenu[b] \o EodMenu[e] \o UpMenu[u])
          \/ \E sc \in FlatScripts : run = Mk(Cfg(force, d), sc)
Next == UNCHANGED run

Ordered == OrderedStages(run.res)
Handshake == UploadOnlyAfterHandshake(run.res)
Skip == SkipIsSilent(run.res)
Success == SuccessMeansCompleted(run.res)
Discipline == StagesDisciplined(run.res)
\* the tool skips exactly when it may: not forced, a readable version, contained in what the terminal reported
SkipsWhenCurrent ==
  LET r == run.res IN
  (Len(r.stages) >= 2 /\ ~HasErr(r.stages[1].log) /\ ~HasErr(r.stages[2].log)) =>
     (r.skipped <=> (~run.c.force /\ run.c.desired # <<>>
                     /\ Contains(VersionFrom(Rest(run.frames, r.stages[1]), r.stages[2]), run.c.desired[1])))
\* the model is not vacuous: some run uploads, some skips, some panics at each stage
Emit == Emitting =>
  PrintT(<<"CASE", ToJson([force |-> run.c.force, desired |-> run.c.desired, frames |-> run.frames,
                           exit |-> run.res.exit, skipped |-> run.res.skipped,
                           writes |-> Writes(run.res.stages, 1), items |-> Items(run.res.stages),
                           left |-> BytesFrom(run.res.left, 1)])>>)
=============================================================================
