------------------------------- MODULE TraceTool -------------------------------
(* impl -> spec for the update tool: records of real runs of the binary        *)
(* feig_update against a scripted terminal on a loopback TCP connection.  A    *)
(* record carries the options, the payload directory as the driver built it,   *)
(* the terminal's script, every frame the tool wrote (split at APDU boundaries *)
(* by the driver), the item lines it printed per stage, and its exit status.   *)
(*                                                                            *)
(* I-level: the run is RunTool(options, script) - same writes in the same      *)
(* order, same items, same exit.  P-level (from the observation alone): the    *)
(* stage order, silence after a skip, no upload without handshake, the         *)
(* announcement and every data block (P_C11's ManifestOk / BlockOk).           *)
EXTENDS FeigUpdate, Json, IOUtils

Recs == ndJsonDeserialize(IOEnv.TOOL_TRACE)
VARIABLE i
Init == i \in 1..Len(Recs)
Next == UNCHANGED i

CfOf(b) == IF Len(b) >= 2 THEN <<b[1], b[2]>> ELSE <<>>
IsCmdFrame(b) == CfOf(b) \in {<<6, 0>>, <<15, 161>>, <<6, 80>>, <<8, 20>>}
StageOfCf(cf) == CASE cf = <<6, 0>> -> 1 [] cf = <<15, 161>> -> 2 [] cf = <<6, 80>> -> 3 [] cf = <<8, 20>> -> 4 [] OTHER -> 0

\* P-level, from the wire alone
WireOrdered(r) ==
  LET cmds == SelectSeq(r.wire, IsCmdFrame) IN \A k \in 1..Len(cmds) : StageOfCf(CfOf(cmds[k])) = k
WireSkipSilent(r) == r.skipline => (Len(SelectSeq(r.wire, IsCmdFrame)) = 2 /\ r.exit = 0)
\* the upload command is preceded by a registration and a system information exchange that the terminal answered: the script's
\* first frames are an acknowledgement + completion and an acknowledgement + a packet of the system information reply set
WireHandshake(r) ==
  (\E k \in 1..Len(r.wire) : CfOf(r.wire[k]) = <<8, 20>>) =>
     LET exp == RunTool([force |-> r.force, desired |-> r.desired, announced |-> FileIds(r), config_byte |-> 222], r.frames) IN
     Len(exp.stages) >= 2 /\ ~HasErr(exp.stages[1].log) /\ ~HasErr(exp.stages[2].log)

Flags(r) ==
  IF r.note # "" THEN {"abnormal:" \o r.note}
  ELSE LET c == [force |-> r.force, desired |-> r.desired, announced |-> FileIds(r), config_byte |-> 222]
           exp == RunTool(c, r.frames)
           ws == Writes(exp.stages, 1)
           \* the script frames of the upload stage, and the answerable requests among them
           f4 == IF Len(exp.stages) = 4 THEN Rest(Rest(Rest(r.frames, exp.stages[1]), exp.stages[2]), exp.stages[3]) ELSE <<>>
           reqs == IF Len(exp.stages) = 4 THEN ValidRequests(f4, FileIds(r), exp.stages[4].next - 1) ELSE <<>>
           dataIdx == SelectSeq([k \in 1..Len(ws) |-> k], LAMBDA k : ws[k].a = "data")
           \* "" when the k-th frame written is what the k-th write of the model is, else the name of the flag
           FrameFlag(k) ==
             IF k > Len(r.wire) THEN "write"
             ELSE CASE ws[k].a = "ack" -> IF r.wire[k] = <<128, 0, 0>> THEN "" ELSE "write"
                    [] ws[k].a = "cmd" /\ ws[k].stage = 1 -> IF r.wire[k] = RegistrationReq(222) THEN "" ELSE "write"
                    [] ws[k].a = "cmd" /\ ws[k].stage = 2 -> IF r.wire[k] = SystemInfoReq THEN "" ELSE "write"
                    [] ws[k].a = "cmd" /\ ws[k].stage = 3 -> IF r.wire[k] = EndOfDayReq THEN "" ELSE "write"
                    [] ws[k].a = "cmd" /\ ws[k].stage = 4 -> IF ManifestOk([r EXCEPT !.announce = r.wire[k]]) THEN "" ELSE "P11-manifest"
                    [] OTHER -> LET j == CHOOSE j \in 1..Len(dataIdx) : dataIdx[j] = k IN
                                IF j <= Len(reqs) /\ BlockOk(r, f4[reqs[j]], [bytes |-> r.wire[k]]) THEN "" ELSE "P11-block" IN
       (IF r.exit = exp.exit THEN {} ELSE {"exit"})
       \cup (IF r.skipline = exp.skipped THEN {} ELSE {"skip"})
       \cup (IF Len(r.wire) = Len(ws) THEN {} ELSE {"write-count"})
       \cup ({FrameFlag(k) : k \in 1..Len(ws)} \ {""})
       \* (an error item is printed by the end-of-day stage only; elsewhere the tool panics on it - the exit status tells)
       \cup (IF r.items = [k \in 1..Len(exp.stages) |-> IF k = 3 THEN Items(exp.stages)[k]
                                                         ELSE SelectSeq(Items(exp.stages)[k], LAMBDA x : x # "err")]
             THEN {} ELSE {"items"})
       \cup (IF r.finished = (exp.exit = 0 /\ ~exp.skipped) THEN {} ELSE {"finished-line"})
       \cup (IF WireOrdered(r) THEN {} ELSE {"PT-stage-order"})
       \cup (IF WireSkipSilent(r) THEN {} ELSE {"PT-skip-not-silent"})
       \cup (IF WireHandshake(r) THEN {} ELSE {"PT-upload-without-handshake"})
       \cup (IF r.finished => (Len(r.items) = 4 /\ r.items[4] # <<>> /\ r.items[4][Len(r.items[4])] = "CompletionData" /\ r.exit = 0)
             THEN {} ELSE {"PT-finished-without-completion"})
       \cup (IF \A k \in 1..Len(r.wire) : CfOf(r.wire[k]) = <<8, 20>> => ManifestOk([r EXCEPT !.announce = r.wire[k]]) THEN {} ELSE {"P11-manifest"})

Judge == LET f == Flags(Recs[i]) IN f = {} \/ PrintT(<<"FLAGS", i, ToJson(f)>>)
=============================================================================
