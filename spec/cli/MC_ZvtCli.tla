------------------------------- MODULE MC_ZvtCli -------------------------------
(* zvt_cli on the specification: every subcommand against every terminal       *)
(* script of up to Depth frames over the alphabet of its command (MC_Sequence's *)
(* alphabet: acknowledgement, every reply kind, NACK, foreign, malformed,       *)
(* truncated).  Every run is printed once as a case for the real binary.        *)
EXTENDS ZvtCli, FiniteSets

Depth == IF "CLI_DEPTH" \in DOMAIN IOEnv THEN atoi(IOEnv.CLI_DEPTH) ELSE 3
Emitting == IF "CLI_EMIT" \in DOMAIN IOEnv THEN IOEnv.CLI_EMIT = "1" ELSE FALSE

MS == INSTANCE MC_Sequence WITH s <- [cmd |-> "Registration", frames |-> <<>>, next |-> 1, pc |-> "start", log |-> <<>>, announced |-> {}, wfail |-> 0]

\* card data for read_card beyond the witnesses: a UID only, an application list, an entry without application id, no TLV
Card(tlv) == Fr(EncPacket("StatusInformation", [MinVal("StatusInformation") EXCEPT !.tlv = tlv]), FALSE)
CardFrames ==
  LET TV == MinVal("tlv_StatusInformation") IN
  { Card(<<>>),
    Card(<<[TV EXCEPT !.uuid = << <<48, 52, 65, 49>> >>]>>),
    Card(<<[TV EXCEPT !.subs = << [MinVal("Subs") EXCEPT !.application_id = << <<160, 0, 0, 0, 4, 16, 16>> >>] >>]>>),
    Card(<<[TV EXCEPT !.subs = << MinVal("Subs") >>, !.uuid = << <<48, 52>> >>]>>),
    Card(<<TV>>),
    Fr(<<6, 30, 1, 108>>, FALSE), Fr(<<6, 30, 1, 100>>, FALSE) }

Alphabet(sub) == MS!Alphabet(SubCommands[sub].seq) \cup (IF sub = "read_card" THEN CardFrames ELSE {})
Scripts(sub) == UNION {[1..n -> Alphabet(sub)] : n \in 0..Depth}

VARIABLE c      \* [sub, frames, run]
Init == \E sub \in SubNames : \E sc \in Scripts(sub), tr \in BOOLEAN :
          LET fr == IF tr THEN Append(sc, MS!TruncFrame) ELSE sc IN c = [sub |-> sub, frames |-> fr, run |-> RunCli(sub, fr)]
Next == UNCHANGED c

Bail == BailOnlyAtEnd(c.run)
Success == SuccessAtFinal(c.sub, c.run)
Discipline == P_C05(c.run.s.log, SubCommands[c.sub].seq) /\ P_C06(c.run.s.log)
Emit == Emitting => PrintT(<<"CASE", ToJson([sub |-> c.sub, frames |-> c.frames, exit |-> c.run.exit,
                                              writes |-> [k \in 1..Len(SelectSeq(c.run.s.log, IsW)) |-> SelectSeq(c.run.s.log, IsW)[k].a]])>>)
=============================================================================
