INIT Init
NEXT Next
INVARIANT Bail
INVARIANT Success
INVARIANT Discipline
INVARIANT Emit
