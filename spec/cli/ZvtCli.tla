-------------------------------- MODULE ZvtCli --------------------------------
(* L5: the command line tool zvt_cli - thirteen subcommands, each one command  *)
(* sequence over a fresh TCP connection.  A subcommand builds its request from *)
(* the options, runs the sequence to its end (ZvtSequence!Run), logs the items *)
(* and fails (exit 1) on the first error item or on an item its handler bails  *)
(* on - otherwise exit 0.                                                      *)
EXTENDS ZvtSequence, ZvtValues

\* subcommand -> [seq: the command sequence, ty: the request's packet type, bails: the variants the handler fails on]
Sub(seq, ty, bails) == [seq |-> seq, ty |-> ty, bails |-> bails]
SubCommands == [
  status                 |-> Sub("GetSystemInfo", "feig_CVendFunctions", {"Abort"}),
  factory_reset          |-> Sub("FactoryReset", "feig_CVendFunctions", {}),
  registration           |-> Sub("Registration", "Registration", {}),
  set_terminal_id        |-> Sub("SetTerminalId", "SetTerminalId", {"Abort"}),
  init                   |-> Sub("Initialization", "Initialization", {"Abort"}),
  diagnosis              |-> Sub("Diagnosis", "Diagnosis", {"Abort"}),
  print_system_diagnosis |-> Sub("PrintSystemConfiguration", "PrintSystemConfiguration", {}),
  end_of_day             |-> Sub("EndOfDay", "EndOfDay", {"Abort"}),
  read_card              |-> Sub("ReadCard", "ReadCard", {}),           \* see CardBails
  authorization          |-> Sub("Authorization", "Authorization", {"Abort"}),
  reservation            |-> Sub("Reservation", "Reservation", {"Abort"}),
  partial_reversal       |-> Sub("PartialReversal", "PartialReversal", {"PartialReversalAbort"}),
  change_host_config     |-> Sub("ChangeHostConfiguration", "feig_ChangeConfiguration", {"Abort"}) ]
SubNames == DOMAIN SubCommands

Opt(x) == IF x = <<>> THEN <<>> ELSE <<x>>          \* an option that was given
Bmp(a) == IF a.bmp_prefix = <<>> THEN <<>> ELSE <<[bmp_prefix |-> a.bmp_prefix[1], bmp_data |-> a.bmp_data[1]]>>

\* the request a subcommand sends for options a (numbers as decimal digit strings, texts as byte strings, absent = <<>>)
Request(sub, a) ==
  CASE sub = "status" -> [password |-> <<>>, instr |-> DFromInt(1)]
    [] sub = "factory_reset" -> [password |-> <<a.password>>, instr |-> DFromInt(597)]                 \* 0x0255
    [] sub = "registration" -> [password |-> a.password, config_byte |-> a.config_byte, currency |-> <<a.currency_code>>, tlv |-> <<>>]
    [] sub = "set_terminal_id" -> [password |-> a.password, terminal_id |-> <<a.terminal_id>>]
    [] sub = "init" -> [password |-> a.password]
    [] sub = "diagnosis" -> [tlv |-> <<[diagnosis_type |-> <<a.diagnosis>>]>>]
    [] sub = "print_system_diagnosis" -> MinVal("PrintSystemConfiguration")
    [] sub = "end_of_day" -> [password |-> a.password]
    [] sub = "read_card" -> [timeout_sec |-> a.timeout, card_type |-> <<a.card_type>>, dialog_control |-> <<a.dialog_control>>,
                             tlv |-> <<[card_reading_control |-> <<a.short_card_reading_control>>, card_type |-> <<a.allowed_cards>>]>>]
    [] sub = "authorization" -> [MinVal("Authorization") EXCEPT !.currency = <<a.currency_code>>, !.amount = <<a.amount>>,
                                   !.payment_type = <<a.payment_type>>, !.track_2_data = a.track_2_data, !.tlv = <<[bmp_data |-> Bmp(a)]>>]
    [] sub = "reservation" -> [MinVal("Reservation") EXCEPT !.currency = <<a.currency_code>>, !.amount = <<a.amount>>,
                                 !.payment_type = <<a.payment_type>>, !.track_2_data = a.track_2_data, !.tlv = <<[bmp_data |-> Bmp(a)]>>]
    [] sub = "partial_reversal" -> [receipt_no |-> <<a.receipt>>, amount |-> <<a.amount>>, payment_type |-> <<a.payment_type>>,
                                    currency |-> <<a.currency_code>>, tlv |-> <<[bmp_data |-> Bmp(a)]>>]
    [] sub = "change_host_config" ->
         [tlv |-> [system_information |-> [password |-> a.password,
                     host_configuration_data |-> <<[ip |-> a.ip, port |-> a.port, config_byte |-> a.configuration_byte]>>]]]
RequestBytes(sub, a) == EncPacket(SubCommands[sub].ty, Request(sub, a))

\* read_card judges the card itself: an abort other than the time-out, a status without TLV data, a first application entry without
\* an application id, neither applications nor a UID - all fail
CardBails(f) ==
  LET p == ParseEnum("ReadCardResponse", f.bytes) IN
  CASE p.variant = "Abort" -> DToInt(p.val.error) # 108
    [] p.variant = "StatusInformation" ->
         IF p.val.tlv = <<>> THEN TRUE
         ELSE LET t == p.val.tlv[1] IN
              IF t.subs # <<>> THEN t.subs[1].application_id = <<>> ELSE t.uuid = <<>>
    [] OTHER -> FALSE

\* the indices (into the script) of the frames handed over as Ok items, in order
OkFrames(s) == SelectSeq([k \in 1..Len(s.log) |-> k], LAMBDA k : IsOk(s.log[k]))
FrameOfOk(s, k) == s.log[k - 2].n            \* r(n), w(answer), y(ok): the frame read two events before the item

RunCli(sub, frames) ==
  LET sc == SubCommands[sub]
      s == Run(Start(sc.seq, frames, {}))
      oks == OkFrames(s)
      bails == {j \in 1..Len(oks) : \/ s.log[oks[j]].v \in sc.bails
                                    \/ (sub = "read_card" /\ CardBails(frames[FrameOfOk(s, oks[j])]))} IN
  [s |-> s, exit |-> IF Idx(s.log, IsErr) # {} \/ bails # {} THEN 1 ELSE 0, bails |-> bails, noks |-> Len(oks)]

\* a handler never walks away from an exchange: what it bails on is the last item of the stream (so the wire shows the whole exchange)
BailOnlyAtEnd(run) == \A j \in run.bails : j = run.noks /\ Idx(run.s.log, IsErr) = {}
\* success means the sequence ended on one of its final replies (any reply for a one-shot exchange)
SuccessAtFinal(sub, run) ==
  run.exit = 0 => LET sq == SeqOf(SubCommands[sub].seq)
                      ys == SelectSeq(run.s.log, IsOk) IN
                  ys # <<>> /\ (ys[Len(ys)].v \in sq.finals \/ ~sq.loop)
=============================================================================
