------------------------------- MODULE TraceCli -------------------------------
(* impl -> spec for zvt_cli: records of real runs of the binary against a      *)
(* scripted terminal on a loopback TCP connection: the subcommand and its      *)
(* options, the terminal's script, every frame the tool wrote (taken at the    *)
(* system call, split at APDU boundaries) and the exit status.                 *)
(*                                                                            *)
(* I-level: the run is RunCli(sub, script) - the request is the reference      *)
(* encoding of the options, the writes are the sequence's writes, the exit     *)
(* status is RunCli's.  P-level (C05 / C06 over a real socket, from the wire   *)
(* and the script alone): the command goes out exactly once and first; what    *)
(* follows are acknowledgements only, at most one per complete frame of the    *)
(* script behind the terminal's acknowledgement; nothing is written once the   *)
(* script holds a frame no reply parser of the command accepts.                *)
EXTENDS ZvtCli, Json, IOUtils, FiniteSets

Recs == ndJsonDeserialize(IOEnv.CLI_TRACE)
VARIABLE i
Init == i \in 1..Len(Recs)
Next == UNCHANGED i

AckBytes == <<128, 0, 0>>
\* the number of leading frames of the script (behind the terminal's acknowledgement) that the command's reply parser accepts,
\* cut at the first final one
Answerable(sub, frames) ==
  LET sq == SeqOf(SubCommands[sub].seq)
      ok(k) == ~frames[k].trunc /\ ParseEnum(sq.parser, frames[k].bytes).ok
      fin(k) == ok(k) /\ (ParseEnum(sq.parser, frames[k].bytes).variant \in sq.finals \/ ~sq.loop)
      good == {k \in 2..Len(frames) : \A j \in 2..k : ok(j) /\ (j < k => ~fin(j))} IN
  IF Len(frames) = 0 \/ frames[1].trunc \/ frames[1].bytes # AckBytes THEN 0 ELSE Cardinality(good)

Flags(r) ==
  IF r.note # "" THEN {"abnormal:" \o r.note}
  ELSE LET run == RunCli(r.sub, r.frames)
           ws == SelectSeq(run.s.log, IsW) IN
       (IF r.exit = run.exit THEN {} ELSE {"exit"})
       \cup (IF Len(r.wire) = Len(ws) THEN {} ELSE {"write-count"})
       \cup (IF r.wire # <<>> /\ r.wire[1] = RequestBytes(r.sub, r.args) THEN {} ELSE {"request"})
       \cup (IF \A k \in 2..Len(r.wire) : r.wire[k] = AckBytes THEN {} ELSE {"P05-foreign-write"})
       \cup (IF r.wire # <<>> /\ Len(r.wire) - 1 <= Answerable(r.sub, r.frames) THEN {} ELSE {"P06-answered-beyond-failure"})
       \cup (IF r.wire # <<>> /\ (r.exit = 0 => Len(r.wire) - 1 = Answerable(r.sub, r.frames)) THEN {} ELSE {"P05-reply-not-answered"})

Judge == LET f == Flags(Recs[i]) IN f = {} \/ PrintT(<<"FLAGS", i, ToJson(f)>>)
=============================================================================
