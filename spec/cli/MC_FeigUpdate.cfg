INIT Init
NEXT Next
INVARIANT Ordered
INVARIANT Handshake
INVARIANT Skip
INVARIANT Success
INVARIANT Discipline
INVARIANT SkipsWhenCurrent
INVARIANT Emit
