------------------------------- MODULE MC_Client -------------------------------
(* C07 / C08 / C19 / C20 on the specification: the client program of          *)
(* FeigClient against a nondeterministic terminal.  The caller picks any      *)
(* public call (begin / commit / cancel over a token alphabet, configure),    *)
(* the terminal answers every exchange with any outcome of that exchange      *)
(* (success, abort of every code class, missing receipt number, dangling      *)
(* pre-authorisation reported or not, every end-of-day outcome) and keeps its *)
(* own ledger.  The exchanges of each call are collected exactly as trace     *)
(* validation collects them and the same P-spec operators (TraceClient's      *)
(* PFlags) are evaluated at every return: the invariant NoPFlags is           *)
(* "I-spec => P-specs".  Every history of Depth calls is printed once as a    *)
(* scenario for replay against the real client.                               *)
EXTENDS ClientProps, Json, IOUtils

CONSTANTS Tokens,        \* set of tokens (byte strings)
          MaxSet,        \* configured maxima to explore
          Finals,        \* final amounts for commit
          Danglings      \* initial dangling receipts on the terminal: sets of receipt numbers

McBig == IF "CLIENT_BIG" \in DOMAIN IOEnv THEN IOEnv.CLIENT_BIG = "1" ELSE FALSE
McTokens == IF McBig THEN {<<97>>, <<98>>, <<99>>} ELSE {<<97>>, <<98>>}
McMaxSet == IF McBig THEN {0, 1, 2, 3} ELSE {0, 1, 2}
McFinals == {<<>>, <<1>>, <<2>>, <<3>>}
McDanglings == {{}, {77}}

Depth == IF "CLIENT_DEPTH" \in DOMAIN IOEnv THEN atoi(IOEnv.CLIENT_DEPTH) ELSE 3
Emitting == IF "CLIENT_EMIT" \in DOMAIN IOEnv THEN IOEnv.CLIENT_EMIT = "1" ELSE FALSE
WithConfigure == IF "CLIENT_CONFIGURE" \in DOMAIN IOEnv THEN IOEnv.CLIENT_CONFIGURE = "1" ELSE FALSE

Pre == <<2>>
CfgOf(m) == [pre |-> Pre, cur |-> <<9, 7, 8>>, password |-> <<1, 2, 3, 4, 5, 6>>, tid |-> <<53, 50, 53, 50, 51, 53, 51, 53>>, timeout |-> 15, max |-> m]

VARIABLES c,       \* client (I-spec)
          cfg,
          term,    \* terminal: [open |-> set of receipts it holds open, known |-> those the client was told, next |-> next receipt]
          calls,   \* history: the public calls made
          plan,    \* history: the outcome the terminal chose for each exchange
          xs,      \* exchanges of the call in progress, as an observer sees them
          pcall,
          open,    \* P_C07's map, maintained from observations only
          pf,      \* P-flags raised by the last return
          rets,    \* history: results
          dang0    \* the terminal's initial dangling pre-authorisations

vars == <<c, cfg, term, calls, plan, xs, pcall, open, pf, rets, dang0>>

(* ---- what the terminal can answer, in the vocabulary of the simulated terminal (harness) ---- *)
StatusFields == [amount |-> <<1>>, trace |-> <<9, 7, 5>>, date |-> <<4, 5>>, time |-> <<1, 2, 3>>, terminal_id |-> <<5, 2, 5, 2, 3, 5, 3, 5>>]
CodeClasses == {252, 183, 1}       \* device missing (-> PIN), a known code, a code outside the table
Outcomes(seq, isQuery) ==
  CASE seq = "Reservation" -> {[o |-> "ok"], [o |-> "ok", early_status |-> TRUE], [o |-> "ok", late_status |-> TRUE], [o |-> "ok", two_receipts |-> TRUE],
                               [o |-> "noreceipt", open |-> FALSE], [o |-> "noreceipt", open |-> TRUE]}
                              \cup {[o |-> "abort", code |-> k] : k \in CodeClasses}
                              \cup {[o |-> "abort", code |-> 183, status_first |-> TRUE]}      \* declined: a receipt number is shown, then the abort
    [] seq = "PartialReversal" /\ isQuery -> {[o |-> "pending"], [o |-> "pending", receipt |-> 65535, code |-> 183]}
    [] seq = "PartialReversal" -> {[o |-> "ok", status |-> StatusFields], [o |-> "ok_nostatus"], [o |-> "abort", code |-> 183],
                                   [o |-> "abort", code |-> 183, status_first |-> TRUE, status |-> StatusFields]}
    [] seq = "PreAuthReversal" -> {[o |-> "ok"], [o |-> "abort", code |-> 181]}
    [] seq = "EndOfDay" -> {[o |-> "ok"], [o |-> "abort", code |-> 160], [o |-> "abort", code |-> 119]}
    [] seq = "GetSystemInfo" -> {[o |-> "ok"], [o |-> "ok", terminal_id |-> "11111111"], [o |-> "abort", code |-> 131]}
    [] seq \in {"SetTerminalId", "Initialization"} -> {[o |-> "ok"], [o |-> "abort", code |-> 131]}

StatusVal(receipt, f) ==
  [MinVal("StatusInformation") EXCEPT !.result_code = << <<>> >>, !.receipt_no = receipt,
       !.amount = IF "amount" \in DOMAIN f THEN <<f.amount>> ELSE <<>>,
       !.trace_number = IF "trace" \in DOMAIN f THEN <<f.trace>> ELSE <<>>,
       !.date = IF "date" \in DOMAIN f THEN <<f.date>> ELSE <<>>,
       !.time = IF "time" \in DOMAIN f THEN <<f.time>> ELSE <<>>,
       !.terminal_id = IF "terminal_id" \in DOMAIN f THEN <<f.terminal_id>> ELSE <<>>]
Rp(v, val) == [v |-> v, val |-> val]
Completion == Rp("CompletionData", MinVal("CompletionData"))
NoF == [x \in {} |-> <<>>]
TextOf(s) == CASE s = "11111111" -> <<49, 49, 49, 49, 49, 49, 49, 49>> [] OTHER -> <<53, 50, 53, 50, 51, 53, 51, 53>>

\* the terminal's replies and its ledger after answering request rq with outcome o
Answer(t, rq, o) ==
  CASE rq.seq = "Reservation" ->
         IF o.o = "abort" THEN
              (IF "status_first" \in DOMAIN o
               THEN [replies |-> <<Rp("StatusInformation", StatusVal(<<D(t.next)>>, NoF)), Rp("Abort", [error |-> D(o.code)])>>,
                     term |-> [t EXCEPT !.next = @ + 1]]
               ELSE [replies |-> <<Rp("Abort", [error |-> D(o.code)])>>, term |-> t])
         ELSE IF o.o = "noreceipt"
              THEN [replies |-> <<Rp("StatusInformation", StatusVal(<<>>, NoF)), Completion>>,
                    term |-> IF o.open THEN [t EXCEPT !.open = @ \cup {t.next}, !.next = @ + 1] ELSE t]
              ELSE \* the reservation is booked under receipt t.next; a superseded number (t.next + 1) may be shown first,
                   \* a status without the number may come before or after
                   [replies |-> (IF "early_status" \in DOMAIN o THEN <<Rp("StatusInformation", StatusVal(<<>>, NoF))>> ELSE <<>>)
                                \o (IF "two_receipts" \in DOMAIN o THEN <<Rp("StatusInformation", StatusVal(<<D(t.next + 1)>>, NoF))>> ELSE <<>>)
                                \o <<Rp("StatusInformation", StatusVal(<<D(t.next)>>, NoF))>>
                                \o (IF "late_status" \in DOMAIN o THEN <<Rp("StatusInformation", StatusVal(<<>>, NoF))>> ELSE <<>>)
                                \o <<Completion>>,
                    term |-> [t EXCEPT !.open = @ \cup {t.next}, !.known = @ \cup {t.next},
                                       !.next = IF "two_receipts" \in DOMAIN o THEN @ + 2 ELSE @ + 1]]
    [] rq.seq = "PartialReversal" /\ rq.val.receipt_no = <<D65535>> ->
         LET dang == t.open \ t.known
             rn == IF "receipt" \in DOMAIN o THEN <<D(o.receipt)>>
                   ELSE IF dang = {} THEN <<D65535>> ELSE <<D(CHOOSE x \in dang : \A y \in dang : x <= y)>>
             code == IF "code" \in DOMAIN o THEN o.code ELSE 184 IN
         [replies |-> <<Rp("PartialReversalAbort", [error |-> D(code), receipt_no |-> rn])>>, term |-> t]
    [] rq.seq = "PartialReversal" ->
         LET r == DToInt(rq.val.receipt_no[1]) IN
         IF o.o = "abort" THEN [replies |-> (IF "status_first" \in DOMAIN o THEN <<Rp("StatusInformation", StatusVal(<<D(r)>>, o.status))>> ELSE <<>>)
                                            \o <<Rp("PartialReversalAbort", [error |-> D(o.code), receipt_no |-> <<>>])>>, term |-> t]
         ELSE IF o.o = "ok_nostatus" THEN [replies |-> <<Completion>>, term |-> [t EXCEPT !.open = @ \ {r}, !.known = @ \ {r}]]
         ELSE [replies |-> <<Rp("StatusInformation", StatusVal(<<D(r)>>, o.status)), Completion>>,
               term |-> [t EXCEPT !.open = @ \ {r}, !.known = @ \ {r}]]
    [] rq.seq = "PreAuthReversal" ->
         LET r == DToInt(rq.val.receipt_no[1]) IN
         IF o.o = "abort" THEN [replies |-> <<Rp("PartialReversalAbort", [error |-> D(o.code), receipt_no |-> <<>>])>>, term |-> t]
         ELSE [replies |-> <<Completion>>, term |-> [t EXCEPT !.open = @ \ {r}, !.known = @ \ {r}]]
    [] rq.seq = "EndOfDay" ->
         IF o.o = "abort" THEN [replies |-> <<Rp("Abort", [error |-> D(o.code), receipt_no |-> <<>>])>>, term |-> t]
         ELSE [replies |-> <<Completion>>, term |-> t]
    [] rq.seq = "GetSystemInfo" ->
         IF o.o = "abort" THEN [replies |-> <<Rp("Abort", [error |-> D(o.code)])>>, term |-> t]
         ELSE [replies |-> <<Rp("CVendFunctionsEnhancedSystemInformationCompletion",
                                [device_id |-> <<>>, sw_version |-> <<>>, temperature |-> <<>>,
                                 terminal_id |-> TextOf(IF "terminal_id" \in DOMAIN o THEN o.terminal_id ELSE "")])>>, term |-> t]
    [] OTHER ->
         IF o.o = "abort" THEN [replies |-> <<Rp("Abort", [error |-> D(o.code)])>>, term |-> t]
         ELSE [replies |-> <<Completion>>, term |-> t]

(* ---- behaviour ---- *)
Init == /\ \E m \in MaxSet : cfg = CfgOf(m)
        /\ \E dg \in Danglings : term = [open |-> dg, known |-> {}, next |-> 1] /\ dang0 = dg
        /\ c = Idle(Empty) /\ calls = <<>> /\ plan = <<>> /\ xs = <<>> /\ pcall = [op |-> "", tok |-> <<>>, amt |-> <<>>]
        /\ open = Empty /\ pf = {} /\ rets = <<>>

CallSet == {[op |-> "begin", tok |-> t, amt |-> <<>>] : t \in Tokens}
           \cup {[op |-> "commit", tok |-> t, amt |-> f] : t \in Tokens, f \in Finals}
           \cup {[op |-> "cancel", tok |-> t, amt |-> <<>>] : t \in Tokens}
           \cup (IF WithConfigure THEN {[op |-> "configure", tok |-> <<>>, amt |-> <<>>]} ELSE {})

DoCall == /\ c.stage = "idle" /\ Len(calls) < Depth
          /\ \E k \in CallSet :
               /\ c' = Call(cfg, c, k.op, k.tok, k.amt)
               /\ calls' = Append(calls, k) /\ pcall' = k /\ xs' = <<>>
          /\ UNCHANGED <<cfg, term, plan, open, pf, rets, dang0>>

DoExchange == /\ c.stage \notin {"idle", "ret"}
              /\ LET rq == NextReq(cfg, c) IN
                 \E o \in Outcomes(rq.seq, rq.seq = "PartialReversal" /\ rq.val.receipt_no = <<D65535>>) :
                   LET a == Answer(term, rq, o) IN
                   /\ c' = OnReplies(cfg, c, a.replies)
                   /\ term' = a.term
                   /\ plan' = Append(plan, o)
                   /\ xs' = Append(xs, [seq |-> rq.seq, val |-> rq.val, replies |-> a.replies])
              /\ UNCHANGED <<cfg, calls, pcall, open, pf, rets, dang0>>

\* the result as an observer sees it (the harness's shape)
ObsOf(cc) == [ok |-> cc.res.ok,
              err |-> [class |-> cc.res.class, code |-> IF cc.res.class = "Aborted" THEN cc.res.code ELSE 0 - 1, text |-> cc.res.text],
              val |-> IF cc.op = "commit" /\ cc.res.ok THEN
                           [terminal_id |-> IF cc.res.val.terminal_id = <<>> THEN <<>> ELSE <<NumText(cc.res.val.terminal_id[1])>>,
                            amount |-> cc.res.val.amount, trace_number |-> cc.res.val.trace_number,
                            date |-> IF cc.res.val.date = <<>> THEN <<>> ELSE <<Pad(cc.res.val.date[1], 4)>>,
                            time |-> IF cc.res.val.time = <<>> THEN <<>> ELSE <<Pad(cc.res.val.time[1], 6)>>]
                      ELSE <<>>]

\* at the return the properties are evaluated on what was observed of the call (ClientProps)
DoReturn == /\ c.stage = "ret"
            /\ rets' = Append(rets, ObsOf(c))
            /\ pf' = PFlags(cfg, open, pcall, xs, ObsOf(c))
            /\ open' = P07(cfg, open, pcall, xs, ObsOf(c)).open
            /\ c' = AfterReturn(c)
            /\ UNCHANGED <<cfg, term, calls, plan, xs, pcall, dang0>>

Next == DoCall \/ DoExchange \/ DoReturn

(* ---- I-spec => P-specs ---- *)
NoPFlags == pf = {}
\* the observer's map and the client's map agree (the refinement mapping of TxnMap)
MapsAgree == c.stage = "idle" => open = c.txns

(* ---- refinement: the client program implements the abstract token map ---- *)
\* every step of FeigClient against any terminal is a step of TxnMap (Begin, Dangling, Close, Wipe, Reverse) or leaves the map, the
\* terminal's books and the maximum unchanged
TM == INSTANCE TxnMap WITH Tokens <- Tokens, Receipts <- 1..99, max <- cfg.max,
                           open <- [t \in DOMAIN c.txns |-> DToInt(c.txns[t])], issued <- term.open
RefinesTxnMap == TM!Spec

(* ---- I-spec level invariants ---- *)
\* the map never exceeds the configured maximum ... unless the maximum is 0 (nothing can be begun)
WithinMax == Cardinality(DOMAIN c.txns) <= cfg.max
\* every receipt in the client's map is open on the terminal's ledger
MapIsOpenOnTerminal == \A t \in DOMAIN c.txns : DToInt(c.txns[t]) \in term.open
\* two tokens never share a receipt
OneToOne == \A t1, t2 \in DOMAIN c.txns : t1 # t2 => c.txns[t1] # c.txns[t2]

Scenario == [config |-> [pre |-> cfg.pre, currency |-> 978, password |-> 123456, max |-> cfg.max, read_card_timeout |-> 15,
                         serial |-> "17FD1E3C", terminal_id |-> "52523535"],
             term |-> [dangling |-> LET RECURSIVE H(_)
                                        H(X) == IF X = {} THEN <<>> ELSE LET x == CHOOSE y \in X : TRUE IN <<x>> \o H(X \ {x})
                                    IN H(dang0), next_receipt |-> 1],
             calls |-> [k \in 1..Len(calls) |-> [op |-> calls[k].op, token |-> calls[k].tok, amount |-> calls[k].amt]],
             plan |-> [exchanges |-> plan],
             expect |-> rets]

Emit == (Emitting /\ c.stage = "idle" /\ Len(calls) = Depth) => PrintT(<<"CASE", ToJson(Scenario)>>)
=============================================================================
