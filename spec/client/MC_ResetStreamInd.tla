-------------------------- MODULE MC_ResetStreamInd --------------------------
(* The connection discipline of ResetStream (P_C09's invariants) as an          *)
(* INDUCTIVE invariant, discharged by Apalache: IndInit => IndInv (length 0)    *)
(* and IndInv /\ Next => IndInv' (length 1) for arbitrary retry budgets, fault  *)
(* budgets, numbers of calls and streams, delays and times - the constants are  *)
(* unconstrained naturals.  This lifts the bounded TLC result (3 attempts, 3-4  *)
(* faults, 2 calls) to behaviours of any length.  Scope: the sets of            *)
(* connection ids in the arbitrary pre-state have at most 4 elements (Gen(4)).  *)
EXTENDS ResetStream, Apalache

ConstInit ==
  /\ MaxAttempts \in Nat /\ Throttle \in Nat /\ Timeout \in Nat /\ ConnTimeout \in Nat /\ Replies \in Nat
  /\ MaxFaults \in Nat /\ ConnectGuarded \in BOOLEAN /\ MaxStreams \in Nat /\ AllowAbandon \in BOOLEAN /\ MaxCalls \in Nat
  /\ Delays = Gen(3) /\ \A d \in Delays : d >= 0

Phases == {"idle", "between", "tick", "connect", "reg", "sys", "cmd", "hung"}
Ids == vetted \cup tainted \cup closed \cup dirty \cup usedCmd

IndInv ==
  /\ phase \in Phases /\ result \in {"", "ok", "fail"}
  /\ nconn >= 0 /\ pos >= 0 /\ attempt >= 0
  /\ \A k \in Ids : k >= 1 /\ k <= nconn                           \* only connections that were opened
  /\ (conn = 0 \/ conn = nconn)                                     \* OneLive
  /\ (conn # 0 => conn \notin closed)
  /\ tainted \subseteq closed
  /\ usedCmd \subseteq vetted
  /\ (active <=> phase # "idle")
  /\ (phase \in {"reg", "sys"} => conn # 0 /\ conn \notin vetted)
  /\ (phase = "cmd" => conn # 0 /\ conn \in vetted)
  /\ (phase \in {"tick", "between", "idle"} /\ conn # 0 => conn \in vetted)
  /\ (phase = "connect" => conn = 0)
  /\ (result = "ok" /\ phase \in {"between", "idle"} => conn # 0 /\ conn \in vetted /\ conn \notin closed)

\* an arbitrary state that satisfies the invariant
IndInit ==
  /\ active \in BOOLEAN /\ calls \in Nat /\ streams \in Nat /\ attempt \in Nat /\ phase \in Phases /\ pos \in Nat
  /\ conn \in Nat /\ nconn \in Nat
  /\ vetted = Gen(4) /\ tainted = Gen(4) /\ closed = Gen(4) /\ dirty = Gen(4) /\ usedCmd = Gen(4)
  /\ now \in Nat /\ lastTick \in Nat /\ started \in Nat /\ connStart \in Nat /\ tmo \in Nat /\ faults \in Nat
  /\ result \in {"", "ok", "fail"}
  /\ IndInv

\* what the inductive invariant implies: the P_C09 invariants of ResetStream
\* sanity (must be violated): the arbitrary pre-state is not confined to idle states
NotVacuous == phase = "idle"
Implied == CommandsOnlyOnVetted /\ NoUseAfterTaint /\ OneLive /\ KeepOnSuccess
=============================================================================
