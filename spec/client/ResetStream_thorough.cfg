CONSTANTS
  MaxAttempts = 3
  Throttle = 2
  Timeout = 60
  ConnTimeout = 60
  Replies = 2
  MaxFaults = 4
  ConnectGuarded = TRUE
  MaxStreams = 2
  Delays = {}
  AllowAbandon = TRUE
  MaxCalls = 2
SPECIFICATION Spec
INVARIANT CommandsOnlyOnVetted
INVARIANT NoUseAfterTaint
INVARIANT OneLive
INVARIANT KeepOnSuccess
INVARIANT Bounded
INVARIANT AttemptsBounded
PROPERTY Returns
