------------------------------ MODULE ResetStream ------------------------------
(* L4 I-spec, packet level: the public calls of the terminal client as a       *)
(* succession of command exchanges, each run through the reconnecting stream   *)
(* (ResetSequence::into_stream_with_retry): its own retry budget, the throttle *)
(* between attempts, connect + registration + identity check on every fresh    *)
(* connection under one timeout, a timeout on every item of the command        *)
(* exchange, and the rule that a connection that saw a failure is dropped.     *)
(* The terminal is the environment: at every frame it may deliver (at once or  *)
(* after a delay), close the connection, send garbage, or stay silent; a fresh *)
(* connection may be refused, may stall, or may report a foreign serial        *)
(* number.  Time is an integer advanced only by delays and timers.             *)
(*                                                                             *)
(* The module is used twice: bounded model checking (MC constants, Next) and   *)
(* validation of traces of the real client (TraceStream picks the action that  *)
(* each recorded event stands for; real constants, milliseconds).              *)
(*                                                                             *)
(* Named deliberate behaviours of the shipped code:                            *)
(*   Abandon         a caller may stop consuming a stream between two replies  *)
(*                   and keep the connection (get_pending, O2); the next       *)
(*                   exchange on that connection fails on the stale reply      *)
(*   ConnectGuarded  = TRUE is the code after the repair of D7 (the connect    *)
(*                   phase is under a timeout); with FALSE a silent handshake  *)
(*                   has no successor and the liveness property Returns fails  *)
EXTENDS Naturals, FiniteSets

CONSTANTS
  \* @type: Int;
  MaxAttempts,     \* retry budget of one stream (20 in the code)
  \* @type: Int;
  Throttle,        \* time between the starts of two attempts (2 s)
  \* @type: Int;
  Timeout,         \* per-item timeout (60 s; read_card: t + 2 s)
  \* @type: Int;
  ConnTimeout,     \* timeout of the whole connect phase (60 s)
  \* @type: Int;
  Replies,         \* model checking: reply frames of an exchange after its acknowledgement
  \* @type: Int;
  MaxFaults,       \* how many faults the terminal may inject in one behaviour
  \* @type: Bool;
  ConnectGuarded,
  \* @type: Int;
  MaxStreams,      \* exchanges one public call may run
  \* @type: Set(Int);
  Delays,          \* model checking: reply delays the terminal may choose besides 0
  \* @type: Bool;
  AllowAbandon,
  \* @type: Int;
  MaxCalls         \* public calls in one behaviour

VARIABLES
  \* @type: Bool;
  active,      \* a public call is in progress
  \* @type: Int;
  calls,       \* public calls started so far
  \* @type: Int;
  streams,     \* exchanges started by this call
  \* @type: Int;
  attempt,     \* attempts used by the current stream
  \* @type: Str;
  phase,       \* "idle" | "between" | "tick" | "connect" | "reg" | "sys" | "cmd" | "hung"
  \* @type: Int;
  pos,         \* next frame of the current exchange (0 = its acknowledgement)
  \* @type: Int;
  conn,        \* current connection id, 0 = none
  \* @type: Int;
  nconn,       \* highest connection id so far
  \* @type: Set(Int);
  vetted,      \* connections that passed registration and the identity check
  \* @type: Set(Int);
  tainted,     \* connections that saw a failure
  \* @type: Set(Int);
  closed,      \* connections the client dropped
  \* @type: Set(Int);
  dirty,       \* connections on which the caller left an exchange unfinished
  \* @type: Int;
  now,
  \* @type: Int;
  lastTick,
  \* @type: Int;
  started,
  \* @type: Int;
  connStart,   \* when the connect phase of this attempt began
  \* @type: Int;
  tmo,         \* per-item timeout of the current stream
  \* @type: Int;
  faults,      \* faults injected so far
  \* @type: Str;
  result,      \* "" | "ok" | "fail": how the last stream ended
  \* @type: Set(Int);
  usedCmd      \* connections on which a command frame was sent
vars == <<active, calls, streams, attempt, phase, pos, conn, nconn, vetted, tainted, closed, dirty, now, lastTick, started, connStart, tmo,
          faults, result, usedCmd>>

Max(a, b) == IF a > b THEN a ELSE b

Init == /\ active = FALSE /\ calls = 0 /\ streams = 0 /\ attempt = 0 /\ phase = "idle" /\ pos = 0 /\ conn = 0 /\ nconn = 0
        /\ vetted = {} /\ tainted = {} /\ closed = {} /\ dirty = {} /\ now = 0 /\ lastTick = 0 /\ started = 0 /\ connStart = 0
        /\ tmo = Timeout /\ faults = 0 /\ result = "" /\ usedCmd = {}

(* ------------------------------------------------------------ the caller *)
\* a public call starts (also with a connection kept from a previous call)
\* (the caller may have been idle for any length of time since the last call returned: the call starts at time t >= now)
StartCallAt(t) == /\ ~active /\ phase = "idle" /\ calls < MaxCalls /\ t >= now
                  /\ active' = TRUE /\ calls' = calls + 1 /\ streams' = 0 /\ phase' = "between" /\ now' = t /\ started' = t /\ result' = ""
                  /\ UNCHANGED <<attempt, pos, conn, nconn, vetted, tainted, closed, dirty, lastTick, connStart, tmo, faults, usedCmd>>
StartCall == StartCallAt(now)

\* the call runs its next command exchange through a new retry stream with per-item timeout t
StartStream(t) == /\ active /\ phase = "between" /\ streams < MaxStreams
                  /\ streams' = streams + 1 /\ attempt' = 0 /\ phase' = "tick" /\ tmo' = t /\ result' = ""
                  /\ UNCHANGED <<active, calls, pos, conn, nconn, vetted, tainted, closed, dirty, now, lastTick, started, connStart, faults, usedCmd>>

\* the call returns
Return == /\ active /\ phase = "between"
          /\ active' = FALSE /\ phase' = "idle"
          /\ UNCHANGED <<calls, streams, attempt, pos, conn, nconn, vetted, tainted, closed, dirty, now, lastTick, started, connStart, tmo, faults, result, usedCmd>>

(* ------------------------------------------------------------ the retry stream *)
\* the retry stream yields the next attempt (throttled: not earlier than Throttle after the previous one) ...
TickNext == /\ active /\ phase = "tick" /\ attempt < MaxAttempts
            /\ attempt' = attempt + 1
            /\ now' = (IF attempt = 0 THEN now ELSE Max(now, lastTick + Throttle))
            /\ lastTick' = now'
            /\ connStart' = now'
            /\ phase' = (IF conn = 0 THEN "connect" ELSE "cmd")
            /\ pos' = 0
            /\ UNCHANGED <<active, calls, streams, conn, nconn, vetted, tainted, closed, dirty, started, tmo, faults, result, usedCmd>>
\* ... or is exhausted: the stream ends without a result, the caller goes on
TickExhausted == /\ active /\ phase = "tick" /\ attempt = MaxAttempts
                 /\ phase' = "between" /\ result' = "fail"
                 /\ UNCHANGED <<active, calls, streams, attempt, pos, conn, nconn, vetted, tainted, closed, dirty, now, lastTick, started, connStart, tmo, faults, usedCmd>>
Tick == TickNext \/ TickExhausted

\* dropping the connection after a failure: it is closed before anything else happens
Drop(taint) == /\ closed' = closed \cup {conn}
               /\ tainted' = (IF taint THEN tainted \cup {conn} ELSE tainted)
               /\ conn' = 0 /\ phase' = "tick" /\ pos' = 0

(* connect phase *)
ConnectAccepted(k) == /\ active /\ phase = "connect" /\ k > nconn
                      /\ nconn' = k /\ conn' = k /\ phase' = "reg" /\ pos' = 0
                      /\ UNCHANGED <<active, calls, streams, attempt, vetted, tainted, closed, dirty, now, lastTick, started, connStart, tmo, faults, result, usedCmd>>
\* refused: an error item, next attempt
ConnectRefused == /\ active /\ phase = "connect" /\ faults < MaxFaults /\ faults' = faults + 1 /\ phase' = "tick"
                  /\ UNCHANGED <<active, calls, streams, attempt, pos, conn, nconn, vetted, tainted, closed, dirty, now, lastTick, started, connStart, tmo, result, usedCmd>>
\* the connect stalls: only a guarded connect phase gets out of it ...
ConnectStall == /\ active /\ phase = "connect" /\ faults < MaxFaults /\ ConnectGuarded /\ faults' = faults + 1
                /\ now' = connStart + ConnTimeout /\ phase' = "tick"
                /\ UNCHANGED <<active, calls, streams, attempt, pos, conn, nconn, vetted, tainted, closed, dirty, lastTick, started, connStart, tmo, result, usedCmd>>
\* ... an unguarded one waits forever
ConnectHang == /\ active /\ phase = "connect" /\ faults < MaxFaults /\ ~ConnectGuarded /\ faults' = faults + 1 /\ phase' = "hung"
               /\ UNCHANGED <<active, calls, streams, attempt, pos, conn, nconn, vetted, tainted, closed, dirty, now, lastTick, started, connStart, tmo, result, usedCmd>>
Connect == ConnectAccepted(nconn + 1) \/ ConnectRefused \/ ConnectStall \/ ConnectHang

InHandshake == phase \in {"reg", "sys"}
InExchange == phase \in {"reg", "sys", "cmd"}
\* when the client gives up waiting for the frame it is waiting for now
Deadline == IF phase = "cmd" THEN now + tmo ELSE connStart + ConnTimeout

(* one frame of an exchange arrives after delay d (in time): position pos is consumed *)
\* not the last frame of a handshake exchange, any frame of the command exchange
FrameDelivered(d) == /\ active /\ InExchange /\ (InHandshake => pos = 0)
                     /\ now + d <= Deadline
                     /\ now' = now + d /\ pos' = pos + 1
                     /\ usedCmd' = (IF phase = "cmd" THEN usedCmd \cup {conn} ELSE usedCmd)
                     /\ UNCHANGED <<active, calls, streams, attempt, phase, conn, nconn, vetted, tainted, closed, dirty, lastTick, started, connStart, tmo, faults, result>>
\* the completion of the registration: on to the identity check
RegistrationDone(d) == /\ active /\ phase = "reg" /\ pos = 1 /\ now + d <= Deadline
                       /\ now' = now + d /\ phase' = "sys" /\ pos' = 0
                       /\ UNCHANGED <<active, calls, streams, attempt, conn, nconn, vetted, tainted, closed, dirty, lastTick, started, connStart, tmo, faults, result, usedCmd>>
\* the terminal identifies itself with the configured serial number: the connection is vetted
IdentityConfirmed(d) == /\ active /\ phase = "sys" /\ pos = 1 /\ now + d <= Deadline
                        /\ now' = now + d /\ vetted' = vetted \cup {conn} /\ phase' = "cmd" /\ pos' = 0
                        /\ UNCHANGED <<active, calls, streams, attempt, conn, nconn, tainted, closed, dirty, lastTick, started, connStart, tmo, faults, result, usedCmd>>
\* a foreign serial number (or a refusal to identify): the terminal is never used
ForeignSerial(d) == /\ active /\ phase = "sys" /\ pos = 1 /\ faults < MaxFaults /\ faults' = faults + 1 /\ now + d <= Deadline
                    /\ now' = now + d /\ Drop(FALSE)
                    /\ UNCHANGED <<active, calls, streams, attempt, nconn, vetted, dirty, lastTick, started, connStart, tmo, result, usedCmd>>
\* the terminal closes the connection or sends something uninterpretable: error at once
FrameBroken == /\ active /\ InExchange /\ faults < MaxFaults /\ faults' = faults + 1 /\ Drop(TRUE)
               /\ usedCmd' = (IF phase = "cmd" THEN usedCmd \cup {conn} ELSE usedCmd)
               /\ UNCHANGED <<active, calls, streams, attempt, nconn, vetted, dirty, now, lastTick, started, connStart, tmo, result>>
\* silence (or a reply later than the deadline): the per-item timeout - in the handshake the guard of the connect phase - expires
FrameSilent == /\ active /\ InExchange /\ faults < MaxFaults /\ faults' = faults + 1
               /\ (phase = "cmd" \/ ConnectGuarded)
               /\ now' = Deadline /\ Drop(TRUE)
               /\ usedCmd' = (IF phase = "cmd" THEN usedCmd \cup {conn} ELSE usedCmd)
               /\ UNCHANGED <<active, calls, streams, attempt, nconn, vetted, dirty, lastTick, started, connStart, tmo, result>>
\* silence during an unguarded handshake: nothing will ever wake the client up
HandshakeHang == /\ active /\ InHandshake /\ ~ConnectGuarded /\ faults < MaxFaults /\ faults' = faults + 1 /\ phase' = "hung"
                 /\ UNCHANGED <<active, calls, streams, attempt, pos, conn, nconn, vetted, tainted, closed, dirty, now, lastTick, started, connStart, tmo, result, usedCmd>>
\* a command on a connection that still holds the replies of an unfinished exchange fails on the first of them
StaleFailure == /\ active /\ phase = "cmd" /\ pos = 0 /\ conn \in dirty
                /\ Drop(TRUE) /\ usedCmd' = usedCmd \cup {conn}
                /\ UNCHANGED <<active, calls, streams, attempt, nconn, vetted, dirty, now, lastTick, started, connStart, tmo, faults, result>>

\* the exchange is over after its final reply: the stream ends, the connection is kept
Complete == /\ active /\ phase = "cmd" /\ pos >= 2
            /\ phase' = "between" /\ result' = "ok" /\ pos' = 0
            /\ UNCHANGED <<active, calls, streams, attempt, conn, nconn, vetted, tainted, closed, dirty, now, lastTick, started, connStart, tmo, faults, usedCmd>>
\* the caller stops consuming between two replies and keeps the connection (AbandonExchange)
Abandon == /\ AllowAbandon /\ active /\ phase = "cmd" /\ pos >= 2
           /\ phase' = "between" /\ result' = "ok" /\ pos' = 0 /\ dirty' = dirty \cup {conn}
           /\ UNCHANGED <<active, calls, streams, attempt, conn, nconn, vetted, tainted, closed, now, lastTick, started, connStart, tmo, faults, usedCmd>>

(* ------------------------------------------------------------ bounded model *)
D0 == Delays \cup {0}
Handshake == \E d \in D0 : (FrameDelivered(d) /\ InHandshake) \/ RegistrationDone(d) \/ IdentityConfirmed(d) \/ ForeignSerial(d)
Command == \/ (\E d \in D0 : FrameDelivered(d) /\ phase = "cmd" /\ pos <= Replies /\ conn \notin dirty)
           \/ (Complete /\ pos = Replies + 1)
           \/ (Abandon /\ pos <= Replies)
           \/ StaleFailure
Faulty == ((FrameBroken \/ FrameSilent) /\ ~(phase = "cmd" /\ (pos = Replies + 1 \/ conn \in dirty))) \/ HandshakeHang
Client == Tick \/ Connect \/ Handshake \/ Command \/ Faulty
Caller == StartStream(Timeout) \/ Return
Next == (\E d \in D0 : StartCallAt(now + d)) \/ Caller \/ Client
Spec == Init /\ [][Next]_vars /\ WF_vars(Client) /\ WF_vars(Caller)

(* ---------------------------------------------------------------- P_C09 *)
\* command frames only ever travel on a connection that passed registration and the identity check and saw no failure
CommandsOnlyOnVetted == usedCmd \subseteq vetted /\ (phase = "cmd" => conn \in vetted /\ conn \notin tainted)
\* a connection that saw a failure is closed and never current again
NoUseAfterTaint == tainted \subseteq closed /\ conn \notin tainted /\ conn \notin closed
\* at most one connection is alive
OneLive == conn = 0 \/ conn = nconn
\* a completed exchange keeps its connection
KeepOnSuccess == (result = "ok" /\ phase \in {"between", "idle"}) => (conn # 0 /\ conn \in vetted /\ conn \notin closed)

(* ---------------------------------------------------------------- P_C10 *)
MaxDelay == CHOOSE m \in D0 : \A d \in D0 : d <= m
Budget == MaxStreams * MaxAttempts * (Throttle + ConnTimeout + (Replies + 2) * Max(Timeout, MaxDelay))
Bounded == active => now - started <= Budget
Returns == active ~> ~active
AttemptsBounded == attempt <= MaxAttempts /\ streams <= MaxStreams
=============================================================================
