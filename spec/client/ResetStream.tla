------------------------------ MODULE ResetStream ------------------------------
(* L4 I-spec, packet level: one command exchange run through the reconnecting *)
(* stream (ResetSequence::into_stream_with_retry): retry budget, throttle,     *)
(* connect + registration + identity check on every fresh connection, a        *)
(* timeout on every packet, and the rule that a connection that saw a failure  *)
(* is dropped.  The terminal is the environment: at every frame it may         *)
(* deliver, close the connection, send garbage, or stay silent; a fresh        *)
(* connection may be refused, may stall, or may report a foreign serial        *)
(* number.  Time is an integer advanced only to the next timer.                *)
(*                                                                             *)
(* ConnectGuarded = TRUE models the code after the repair of D7 (the connect   *)
(* phase is under a timeout); with FALSE a silent handshake has no successor   *)
(* step and the liveness property Returns fails - that is the defect.          *)
EXTENDS Naturals, FiniteSets, TLC

CONSTANTS MaxAttempts,     \* retry budget (20 in the code)
          Throttle,        \* seconds between two attempts (2)
          Timeout,         \* per-packet timeout (60; read_card: t + 2)
          ConnTimeout,     \* timeout of the connect phase (60)
          Replies,         \* reply frames of the command exchange after its acknowledgement
          MaxFaults,       \* how many faults the terminal may inject in one behaviour
          ConnectGuarded

VARIABLES active,      \* a public call is in progress
          attempt,     \* attempts used
          phase,       \* "idle" | "tick" | "connect" | "reg" | "sys" | "cmd"
          pos,         \* next frame of the current exchange (0 = its acknowledgement)
          conn,        \* current connection id, 0 = none
          nconn,       \* connections opened so far
          vetted, tainted, closed,   \* sets of connection ids
          now, lastTick, started,
          faults,      \* faults injected so far
          result,      \* "" | "ok" | "fail"
          usedCmd      \* connections on which a command frame was sent
vars == <<active, attempt, phase, pos, conn, nconn, vetted, tainted, closed, now, lastTick, started, faults, result, usedCmd>>

Max(a, b) == IF a > b THEN a ELSE b

Init == /\ active = FALSE /\ attempt = 0 /\ phase = "idle" /\ pos = 0 /\ conn = 0 /\ nconn = 0
        /\ vetted = {} /\ tainted = {} /\ closed = {} /\ now = 0 /\ lastTick = 0 /\ started = 0
        /\ faults = 0 /\ result = "" /\ usedCmd = {}

\* a public call starts (also with a connection kept from a previous call)
StartCall == /\ ~active /\ result = ""
             /\ active' = TRUE /\ attempt' = 0 /\ phase' = "tick" /\ started' = now
             /\ UNCHANGED <<pos, conn, nconn, vetted, tainted, closed, now, lastTick, faults, result, usedCmd>>

\* the retry stream yields the next attempt (throttled), or is exhausted
Tick == /\ active /\ phase = "tick"
        /\ IF attempt < MaxAttempts
           THEN /\ attempt' = attempt + 1
                /\ now' = IF attempt = 0 THEN now ELSE Max(now, lastTick + Throttle)
                /\ lastTick' = IF attempt = 0 THEN now ELSE Max(now, lastTick + Throttle)
                /\ phase' = IF conn = 0 THEN "connect" ELSE "cmd"
                /\ pos' = 0
                /\ UNCHANGED <<active, result>>
           ELSE /\ active' = FALSE /\ result' = "fail" /\ phase' = "idle"
                /\ UNCHANGED <<attempt, now, lastTick, pos>>
        /\ UNCHANGED <<conn, nconn, vetted, tainted, closed, started, faults, usedCmd>>

\* dropping the connection after a failure: it is closed before anything else happens
Drop(taint) == /\ closed' = closed \cup {conn}
               /\ tainted' = IF taint THEN tainted \cup {conn} ELSE tainted
               /\ conn' = 0 /\ phase' = "tick" /\ pos' = 0

Connect == /\ active /\ phase = "connect"
           /\ \/ \* accepted
                 /\ nconn' = nconn + 1 /\ conn' = nconn + 1 /\ phase' = "reg" /\ pos' = 0
                 /\ UNCHANGED <<now, faults, closed, tainted>>
              \/ \* refused: an error item, next attempt
                 /\ faults < MaxFaults /\ faults' = faults + 1 /\ phase' = "tick"
                 /\ UNCHANGED <<nconn, conn, pos, now, closed, tainted>>
              \/ \* the connect stalls: only a guarded connect phase gets out of it
                 /\ faults < MaxFaults /\ ConnectGuarded /\ faults' = faults + 1
                 /\ now' = now + ConnTimeout /\ phase' = "tick"
                 /\ UNCHANGED <<nconn, conn, pos, closed, tainted>>
              \/ \* ... an unguarded one waits forever
                 /\ faults < MaxFaults /\ ~ConnectGuarded /\ faults' = faults + 1 /\ phase' = "hung"
                 /\ UNCHANGED <<nconn, conn, pos, now, closed, tainted>>
           /\ UNCHANGED <<active, attempt, vetted, lastTick, started, result, usedCmd>>

\* one frame of an exchange arrives - or does not
Frame(ph, last, onDone(_)) ==
  /\ active /\ phase = ph
  /\ \/ \* delivered
        /\ IF pos < last THEN pos' = pos + 1 /\ UNCHANGED <<phase, conn, closed, tainted, active, result, vetted>>
                         ELSE onDone(TRUE)
        /\ UNCHANGED <<now, faults>>
     \/ \* the terminal closes the connection or sends something uninterpretable: error at once
        /\ faults < MaxFaults /\ faults' = faults + 1 /\ Drop(TRUE)
        /\ UNCHANGED <<now, active, result, vetted>>
     \/ \* silence: the per-packet timeout (in the handshake: the guard of the connect phase) expires
        /\ faults < MaxFaults /\ faults' = faults + 1
        /\ (ph = "cmd" \/ ConnectGuarded)
        /\ now' = now + (IF ph = "cmd" THEN Timeout ELSE ConnTimeout)
        /\ Drop(TRUE)
        /\ UNCHANGED <<active, result, vetted>>
     \/ \* silence during an unguarded handshake: nothing will ever wake the client up
        /\ faults < MaxFaults /\ ph # "cmd" /\ ~ConnectGuarded /\ faults' = faults + 1 /\ phase' = "hung"
        /\ UNCHANGED <<now, pos, conn, closed, tainted, active, result, vetted>>
  /\ UNCHANGED <<attempt, nconn, lastTick, started>>

Registration == Frame("reg", 1, LAMBDA x : /\ phase' = "sys" /\ pos' = 0
                                           /\ UNCHANGED <<conn, closed, tainted, active, result, vetted>>)
                /\ UNCHANGED usedCmd
\* the identity check: a terminal with a foreign serial number is never used
SysInfo == /\ \/ Frame("sys", 1, LAMBDA x : /\ vetted' = vetted \cup {conn} /\ phase' = "cmd" /\ pos' = 0
                                            /\ UNCHANGED <<conn, closed, tainted, active, result>>)
              \/ /\ active /\ phase = "sys" /\ pos = 1 /\ faults < MaxFaults /\ faults' = faults + 1     \* foreign serial
                 /\ Drop(FALSE) /\ UNCHANGED <<now, active, result, vetted, attempt, nconn, lastTick, started>>
           /\ UNCHANGED usedCmd
Command == /\ Frame("cmd", Replies, LAMBDA x : /\ active' = FALSE /\ result' = "ok" /\ phase' = "idle" /\ pos' = 0
                                                /\ UNCHANGED <<conn, closed, tainted, vetted>>)
           /\ usedCmd' = usedCmd \cup {conn}

\* a further call after the first one returned (to observe reuse)
Again == /\ ~active /\ result = "ok" /\ result' = "" /\ UNCHANGED <<active, attempt, phase, pos, conn, nconn, vetted, tainted, closed, now, lastTick, started, faults, usedCmd>>

Next == StartCall \/ Tick \/ Connect \/ Registration \/ SysInfo \/ Command \/ Again
Spec == Init /\ [][Next]_vars /\ WF_vars(Tick \/ Connect \/ Registration \/ SysInfo \/ Command)

(* ---------------------------------------------------------------- P_C09 *)
\* command frames only ever travel on a connection that passed registration and the identity check and saw no failure
CommandsOnlyOnVetted == usedCmd \subseteq vetted /\ (phase = "cmd" => conn \in vetted /\ conn \notin tainted)
\* a connection that saw a failure is closed and never current again
NoUseAfterTaint == tainted \subseteq closed /\ conn \notin tainted /\ conn \notin closed
\* at most one connection is alive
OneLive == conn = 0 \/ conn = nconn
\* a completed exchange keeps its connection
KeepOnSuccess == (result = "ok" /\ ~active) => (conn # 0 /\ conn \in vetted /\ conn \notin closed)

(* ---------------------------------------------------------------- P_C10 *)
Budget == MaxAttempts * (Throttle + ConnTimeout + ConnTimeout + ConnTimeout + (Replies + 1) * Timeout)
Bounded == active => now - started <= Budget
Returns == active ~> ~active
AttemptsBounded == attempt <= MaxAttempts
=============================================================================
