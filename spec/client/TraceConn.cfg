INIT TInit
NEXT TNext
POSTCONDITION Finished
