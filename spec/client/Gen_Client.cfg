INIT GInit
NEXT GNext
INVARIANT GEmit
