------------------------------ MODULE FeigClient ------------------------------
(* L4 I-spec, exchange level: the Feig terminal client as a program over      *)
(* command exchanges.  A public call is a sequence of exchanges; for each     *)
(* the client sends one request (NextReq) and reacts to the replies the       *)
(* terminal sent in that exchange (OnReplies); when no exchange is left the   *)
(* call returns (the result is in the state).  The client is deterministic    *)
(* given the terminal's replies, so the same operators serve the model        *)
(* checker (terminal nondeterministic) and trace validation (replies read     *)
(* from the trace).                                                           *)
(*                                                                            *)
(* Client state c:                                                            *)
(*   txns   token -> receipt number of the open pre-authorisations            *)
(*   op, tok, amt   the public call in progress ("" = none)                   *)
(*   stage  what the call does next                                           *)
(*   acc    per-call accumulator (receipt seen, status seen, pending, after)  *)
(*   res    the result once stage = "ret"                                     *)
(*                                                                            *)
(* Deliberate behaviours of the shipped code that are modelled as they are:   *)
(*   SwallowConfigure   Feig::new ignores the error of configure              *)
(*   RemoveBeforeReverse commit/cancel forget the token before the reversal   *)
(*                      is attempted, whatever its outcome                    *)
(*   AbandonExchange    the pending query gives up with UnexpectedPacket on   *)
(*                      the first reply that is not an 06 1E packet           *)
(*   AnyCodeIsAnswer    the 06 1E answer to the pending query is read for its *)
(*                      receipt number whatever its result code               *)
EXTENDS ZvtParse, ZvtValues, ZvtMessages, FiniteSets

(* ---- configuration: [pre, cur, password (digits), tid (text bytes), timeout (int), max (int)] ---- *)

Ok(v) == [ok |-> TRUE, class |-> "", code |-> 0 - 1, text |-> "", val |-> v]
Err(class, code, text) == [ok |-> FALSE, class |-> class, code |-> code, text |-> text, val |-> <<>>]

HexDigitStr(n) == CASE n = 0 -> "0" [] n = 1 -> "1" [] n = 2 -> "2" [] n = 3 -> "3" [] n = 4 -> "4" [] n = 5 -> "5" [] n = 6 -> "6"
                    [] n = 7 -> "7" [] n = 8 -> "8" [] n = 9 -> "9" [] n = 10 -> "A" [] n = 11 -> "B" [] n = 12 -> "C"
                    [] n = 13 -> "D" [] n = 14 -> "E" [] n = 15 -> "F"
HexStr(c) == IF c < 16 THEN HexDigitStr(c) ELSE HexDigitStr(c \div 16) \o HexDigitStr(c % 16)
UnknownCodeText(c) == "Unknown error code: 0x" \o HexStr(c)
UnhandledText(c) == "Unhandled error: " \o MessageOf[c]

AC == <<65, 67>>
D(n) == DFromInt(n)
Bmp60(tok) == << [bmp_data |-> << [bmp_prefix |-> AC, bmp_data |-> tok] >>] >>

(* ---- the requests ---- *)
ReqReservation(cfg, tok) ==
  [MinVal("Reservation") EXCEPT !.amount = <<cfg.pre>>, !.currency = <<cfg.cur>>, !.payment_type = <<D(64)>>, !.tlv = Bmp60(tok)]
ReqPartialReversal(cfg, tok, receipt, final) ==
  [MinVal("PartialReversal") EXCEPT !.receipt_no = <<receipt>>, !.amount = <<DSatSub(cfg.pre, final)>>, !.payment_type = <<D(64)>>,
                                    !.currency = <<cfg.cur>>, !.tlv = Bmp60(tok)]
ReqPendingQuery == [MinVal("PartialReversal") EXCEPT !.receipt_no = <<D65535>>]
ReqPreAuthReversal(cfg, receipt) ==
  [payment_type |-> <<D(64)>>, currency |-> <<cfg.cur>>, receipt_no |-> <<receipt>>]
ReqEndOfDay(cfg) == [password |-> cfg.password]
ReqReadCard(cfg) == [timeout_sec |-> D(cfg.timeout), card_type |-> <<D(16)>>, dialog_control |-> <<D(2)>>,
                     tlv |-> << [card_reading_control |-> <<D(208)>>, card_type |-> <<D(7)>>] >>]
ReqSysInfo == [password |-> <<>>, instr |-> D(1)]
ReqSetTerminalId(cfg, n) == [password |-> cfg.password, terminal_id |-> <<n>>]
ReqInitialization(cfg) == [password |-> cfg.password]

Req(seq, val) == [seq |-> seq, ty |-> SequencesTable[seq].req, val |-> val]
NoReq == [seq |-> "", ty |-> "", val |-> <<>>]

(* ---- client state ---- *)
\* (issued: the receipt number seen in a reservation, as an option - receipt number 0 is a number, not an absence)
NoAcc == [receipt |-> <<>>, issued |-> <<>>, status |-> <<>>, pending |-> <<>>, after |-> "", final |-> <<>>, card |-> <<>>, own |-> FALSE]
Idle(txns) == [txns |-> txns, op |-> "", tok |-> <<>>, amt |-> <<>>, stage |-> "idle", acc |-> NoAcc, res |-> Ok(<<>>)]
Ret(c, res) == [c EXCEPT !.stage = "ret", !.res = res]

Without(f, k) == [x \in (DOMAIN f) \ {k} |-> f[x]]
With(f, k, v) == [x \in (DOMAIN f) \cup {k} |-> IF x = k THEN v ELSE f[x]]
Empty == [x \in {} |-> <<>>]

(* ---- a public call starts ---- *)
Call(cfg, c, op, tok, amt) ==
  LET c0 == [c EXCEPT !.op = op, !.tok = tok, !.amt = amt, !.acc = NoAcc] IN
  CASE op = "begin" ->
         IF Cardinality(DOMAIN c.txns) = cfg.max THEN Ret(c0, Err("ActiveTransaction", 0 - 1, "max"))
         ELSE IF tok \in DOMAIN c.txns THEN Ret(c0, Err("ActiveTransaction", 0 - 1, "in use"))
         ELSE [c0 EXCEPT !.stage = "reserve"]
    [] op = "commit" ->
         IF tok \notin DOMAIN c.txns THEN Ret(c0, Err("UnknownToken", 0 - 1, ""))
         ELSE [c0 EXCEPT !.txns = Without(c.txns, tok), !.stage = "reverse", !.acc = [NoAcc EXCEPT !.receipt = c.txns[tok], !.final = amt]]
    [] op = "cancel" ->
         IF tok \notin DOMAIN c.txns THEN Ret(c0, Err("UnknownToken", 0 - 1, ""))
         ELSE [c0 EXCEPT !.txns = Without(c.txns, tok), !.stage = "cancel-rev", !.acc = [NoAcc EXCEPT !.receipt = c.txns[tok]]]
    [] op = "read_card" -> [c0 EXCEPT !.stage = "read-card"]
    [] op \in {"configure", "new"} -> [c0 EXCEPT !.stage = "sysinfo"]

(* ---- which request comes next ---- *)
NextReq(cfg, c) ==
  CASE c.stage = "reserve" -> Req("Reservation", ReqReservation(cfg, c.tok))
    [] c.stage = "reverse" -> Req("PartialReversal", ReqPartialReversal(cfg, c.tok, c.acc.receipt, c.acc.final))
    [] c.stage = "cancel-rev" -> Req("PreAuthReversal", ReqPreAuthReversal(cfg, c.acc.receipt))
    [] c.stage = "pending" -> Req("PartialReversal", ReqPendingQuery)
    [] c.stage = "cancel-dangling" -> Req("PreAuthReversal", ReqPreAuthReversal(cfg, c.acc.pending[1]))
    [] c.stage = "eod" -> Req("EndOfDay", ReqEndOfDay(cfg))
    [] c.stage = "read-card" -> Req("ReadCard", ReqReadCard(cfg))
    [] c.stage = "sysinfo" -> Req("GetSystemInfo", ReqSysInfo)
    [] c.stage = "settid" -> Req("SetTerminalId", ReqSetTerminalId(cfg, c.acc.pending[1]))
    [] c.stage = "init" -> Req("Initialization", ReqInitialization(cfg))
    [] OTHER -> NoReq

(* ---- going idle: pending query, reversal of what it reports, end of day; then `after` ---- *)
\* configure / new swallow nothing here; the result of the call is decided by Finish
Finish(cfg, c) ==
  CASE c.acc.after = "commit" ->
         IF c.acc.status = <<>> THEN Ret(c, Err("Incomplete", 0 - 1, ""))
         ELSE LET s == c.acc.status[1] IN
              Ret(c, Ok([terminal_id |-> s.terminal_id, amount |-> s.amount, trace_number |-> s.trace_number,
                         date |-> s.date, time |-> s.time]))
    [] OTHER -> Ret(c, Ok(<<>>))
\* an error inside a call: Feig::new swallows the error of configure (SwallowConfigure)
Fail(c, e) == IF c.op = "new" THEN Ret(c, Ok(<<>>)) ELSE Ret(c, e)

StartTail(c, after) == [c EXCEPT !.txns = Empty, !.stage = "pending", !.acc = [@ EXCEPT !.after = after, !.pending = <<>>]]

Upper(b) == [i \in 1..Len(b) |-> IF b[i] >= 97 /\ b[i] <= 122 THEN b[i] - 32 ELSE b[i]]
\* the card's UID as membership id: upper-case hex; if longer than 14 digits the last 14, without a leading 000000
CanonUid(uidBytes) ==
  LET h == Upper(HexPoints(uidBytes))
      cut == IF Len(h) > 14 THEN SubSeq(h, Len(h) - 13, Len(h)) ELSE h IN
  IF Len(h) > 14 /\ SubSeq(cut, 1, 6) = <<48, 48, 48, 48, 48, 48>> THEN SubSeq(cut, 7, 14) ELSE cut

\* decimal rendering of a number as text (code points), zero-padded to width w
Pad(d, w) == [i \in 1..(IF Len(d) > w THEN Len(d) ELSE w) |->
                LET dd == Rep(0, (IF Len(d) > w THEN 0 ELSE w - Len(d))) \o d IN 48 + dd[i]]
NumText(d) == IF d = <<>> THEN <<48>> ELSE [i \in 1..Len(d) |-> 48 + d[i]]

(* ---- reactions: a fold over the replies of the exchange; r = [v |-> variant, val |-> packet value] ---- *)
\* the fold state is <<done?, c>>; once done the remaining replies are not looked at
RECURSIVE Fold(_, _, _, _)
Fold(cfg, c, replies, i) ==
  IF i > Len(replies) \/ c.stage \in {"ret", "next"} THEN c
  ELSE LET r == replies[i]
           v == r.v
           d == r.val
           nx ==
    CASE c.stage = "reserve" ->
           IF v = "Abort" THEN
                (LET code == DToInt(d.error) IN
                 IF code \notin KnownCodes THEN Fail(c, Err("Other", code, UnknownCodeText(code)))
                 ELSE IF code = 252 THEN Fail(c, Err("NeedsPinEntry", 0 - 1, ""))
                 ELSE Fail(c, Err("Aborted", code, "")))
           ELSE IF v = "StatusInformation" /\ d.receipt_no # <<>> THEN [c EXCEPT !.acc.issued = d.receipt_no]
           ELSE c
      [] c.stage = "reverse" ->
           IF v = "PartialReversalAbort" THEN Fail(c, Err("Aborted", DToInt(d.error), ""))
           ELSE IF v = "StatusInformation" THEN [c EXCEPT !.acc.status = <<d>>]
           ELSE IF v = "CompletionData" THEN [c EXCEPT !.acc.own = TRUE]
           ELSE c
      [] c.stage \in {"cancel-rev", "cancel-dangling"} ->
           IF v = "PartialReversalAbort" THEN Fail(c, Err("Aborted", DToInt(d.error), ""))
           ELSE IF v = "CompletionData" THEN [c EXCEPT !.acc.own = TRUE, !.stage = "next"]
           ELSE c
      [] c.stage = "pending" ->
           IF v = "PartialReversalAbort" THEN                                       \* AnyCodeIsAnswer
                [c EXCEPT !.stage = "next",
                          !.acc.pending = IF d.receipt_no = <<>> \/ d.receipt_no = <<D65535>> THEN <<>> ELSE d.receipt_no]
           ELSE Fail(c, Err("UnexpectedPacket", 0 - 1, ""))                         \* AbandonExchange
      [] c.stage = "eod" ->
           IF v = "CompletionData" THEN [c EXCEPT !.stage = "next"]
           ELSE IF v = "Abort" THEN (IF DToInt(d.error) = 160 THEN [c EXCEPT !.stage = "next"]
                                     ELSE Fail(c, Err("Aborted", DToInt(d.error), "")))
           ELSE c
      [] c.stage = "read-card" ->
           IF v = "Abort" THEN
                (LET code == DToInt(d.error) IN
                 IF code \notin KnownCodes THEN Fail(c, Err("Other", code, UnknownCodeText(code)))
                 ELSE IF code = 108 THEN Fail(c, Err("NoCardPresented", 0 - 1, ""))
                 ELSE Fail(c, Err("Other", code, UnhandledText(code))))
           ELSE IF v = "StatusInformation" THEN
                (IF d.tlv = <<>> THEN Fail(c, Err("Incomplete", 0 - 1, ""))
                 ELSE LET tl == d.tlv[1] IN
                      IF tl.subs # <<>> THEN
                           (IF tl.subs[1].application_id # <<>> THEN [c EXCEPT !.acc.card = <<[card |-> "Bank", id |-> <<>>]>>]
                            ELSE Fail(c, Err("Other", 0 - 1, "Unknown card type")))
                      ELSE IF tl.uuid # <<>> THEN [c EXCEPT !.acc.card = <<[card |-> "Membership", id |-> CanonUid(tl.uuid[1])]>>]
                      ELSE Fail(c, Err("Incomplete", 0 - 1, "")))
           ELSE c
      [] c.stage = "sysinfo" ->
           IF v = "Abort" THEN Fail(c, Err("Aborted", DToInt(d.error), ""))
           ELSE \* the enhanced system information: compare the terminal id
                IF d.terminal_id = cfg.tid THEN [c EXCEPT !.stage = "init"]
                ELSE IF \A k \in 1..Len(cfg.tid) : cfg.tid[k] >= 48 /\ cfg.tid[k] <= 57
                     THEN [c EXCEPT !.stage = "settid", !.acc.pending = <<DNorm([k \in 1..Len(cfg.tid) |-> cfg.tid[k] - 48])>>]
                     ELSE Fail(c, Err("Other", 0 - 1, "invalid digit found in string"))
      [] c.stage = "settid" ->
           IF v = "Abort" THEN Fail(c, Err("Aborted", DToInt(d.error), ""))
           ELSE [c EXCEPT !.stage = "init-next"]
      [] c.stage = "init" ->
           IF v = "Abort" THEN Fail(c, Err("Aborted", DToInt(d.error), ""))
           ELSE IF v = "CompletionData" THEN [c EXCEPT !.stage = "next"]
           ELSE c
      [] OTHER -> c
       IN Fold(cfg, nx, replies, i + 1)

\* what the call does once the exchange is over (the stream ended)
OnReplies(cfg, c, replies) ==
  LET f == Fold(cfg, c, replies, 1) IN
  IF f.stage = "ret" THEN f
  ELSE
  CASE c.stage = "reserve" ->
         IF f.acc.issued = <<>> THEN Fail(f, Err("Incomplete", 0 - 1, ""))
         ELSE Ret([f EXCEPT !.txns = With(f.txns, f.tok, f.acc.issued[1])], Ok(<<>>))
    [] c.stage = "reverse" ->
         IF f.txns = Empty THEN StartTail(f, "commit") ELSE Finish(cfg, [f EXCEPT !.acc.after = "commit"])
    [] c.stage = "cancel-rev" ->
         IF f.stage # "next" THEN Fail(f, Err("Incomplete", 0 - 1, ""))
         ELSE IF f.txns = Empty THEN StartTail(f, "cancel") ELSE Ret(f, Ok(<<>>))
    [] c.stage = "pending" ->
         IF f.stage # "next" THEN Fail(f, Err("Incomplete", 0 - 1, ""))
         ELSE IF f.acc.pending # <<>> THEN [f EXCEPT !.stage = "cancel-dangling"] ELSE [f EXCEPT !.stage = "eod"]
    [] c.stage = "cancel-dangling" ->
         IF f.stage # "next" THEN Fail(f, Err("Incomplete", 0 - 1, "")) ELSE [f EXCEPT !.stage = "eod"]
    [] c.stage = "eod" ->
         IF f.stage # "next" THEN Fail(f, Err("Incomplete", 0 - 1, "")) ELSE Finish(cfg, f)
    [] c.stage = "read-card" ->
         IF f.acc.card = <<>> THEN Fail(f, Err("Incomplete", 0 - 1, "")) ELSE Ret(f, Ok(f.acc.card[1]))
    [] c.stage = "sysinfo" ->
         IF f.stage = "sysinfo" THEN Fail(f, Err("Incomplete", 0 - 1, "")) ELSE f
    [] c.stage = "settid" ->
         IF f.stage = "init-next" THEN [f EXCEPT !.stage = "init"] ELSE Fail(f, Err("Incomplete", 0 - 1, ""))
    [] c.stage = "init" ->
         IF f.stage # "next" THEN Fail(f, Err("Incomplete", 0 - 1, "")) ELSE StartTail(f, "configure")
    [] OTHER -> f

Returned(c) == c.stage = "ret"
AfterReturn(c) == Idle(c.txns)
=============================================================================
