CONSTANTS
  MaxAttempts = 3
  Throttle = 2
  Timeout = 60
  ConnTimeout = 60
  Replies = 2
  MaxFaults = 3
  ConnectGuarded = FALSE
  MaxStreams = 1
  Delays = {}
  AllowAbandon = TRUE
  MaxCalls = 1
SPECIFICATION Spec
INVARIANT CommandsOnlyOnVetted
INVARIANT NoUseAfterTaint
INVARIANT OneLive
INVARIANT KeepOnSuccess
INVARIANT Bounded
INVARIANT AttemptsBounded
PROPERTY Returns
