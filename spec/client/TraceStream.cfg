CONSTANTS
  MaxAttempts = 20
  Throttle = 2000
  Timeout <- TrPpt
  ConnTimeout <- TrPpt
  Replies = 0
  MaxFaults = 1000000
  ConnectGuarded = TRUE
  MaxStreams = 1000
  Delays = {}
  AllowAbandon = TRUE
  MaxCalls = 1000000
INIT TInit
NEXT TNext
CONSTRAINT Progress
POSTCONDITION Finished
