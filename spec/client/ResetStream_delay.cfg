CONSTANTS
  MaxAttempts = 2
  Throttle = 2
  Timeout = 60
  ConnTimeout = 60
  Replies = 2
  MaxFaults = 2
  ConnectGuarded = TRUE
  MaxStreams = 2
  Delays = {59}
  AllowAbandon = TRUE
  MaxCalls = 1
SPECIFICATION Spec
INVARIANT CommandsOnlyOnVetted
INVARIANT NoUseAfterTaint
INVARIANT OneLive
INVARIANT KeepOnSuccess
INVARIANT Bounded
INVARIANT AttemptsBounded
PROPERTY Returns
