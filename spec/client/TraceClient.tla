------------------------------ MODULE TraceClient ------------------------------
(* impl -> spec for the client layer, exchange level (C07, C08, C18, C19,      *)
(* C20): traces of the real Feig client against the simulated terminal         *)
(* (harness: client-run), flattened to one event list with a `reset` event in  *)
(* front of every scenario.                                                    *)
(*                                                                             *)
(* Two things happen per event, independently:                                 *)
(*  I-spec   the trace is matched against FeigClient: every request must be    *)
(*           the request the specification's client sends next (decoded with   *)
(*           the reference codec and compared field by field), the replies     *)
(*           the terminal sent are decoded with the reference parser and fed   *)
(*           to OnReplies, every result must be the specification's result.    *)
(*           A mismatch prints IFLAG and the scenario is out of sync.          *)
(*  P-specs  the exchanges of each public call are collected from the          *)
(*           observed events alone; at the call's return the properties are    *)
(*           evaluated on them (PFLAG): the token map of C07 is maintained     *)
(*           from observed results and receipts only, never from the I-spec.   *)
EXTENDS ClientProps, Json, IOUtils

Trc == ndJsonDeserialize(IOEnv.CLIENT_TRACE)

VARIABLES l,      \* next event
          cfg,    \* configuration of the current scenario
          sc,     \* scenario number
          c,      \* I-spec client state
          sync,   \* the I-spec still follows this scenario
          cur,    \* exchange being collected: [open, ex, cmd, seq, val, replies]
          exs,    \* exchanges of the public call in progress (observed)
          pcall,  \* the public call in progress (observed): [op, tok, amt] (op = "" none)
          open,   \* P_C07: token -> receipt, from observations only
          hist,   \* token -> receipt number of the last reservation recorded for it (never forgotten): P_C08's pairing of token and receipt
          clean   \* no connection was opened or closed since the scenario started: the fault-free quantifier of C07/C08/C18/C19
tvars == <<l, cfg, sc, c, sync, cur, exs, pcall, open, hist, clean>>

Ev == Trc[l]
NoCur == [open |-> FALSE, ex |-> 0, cmd |-> "", seq |-> "", val |-> <<>>, replies |-> <<>>, acks |-> 0]
NoCall == [op |-> "", tok |-> <<>>, amt |-> <<>>]
\* slow: replies delayed by less than this many ms are the fault-free course (half the measured per-packet timeout)
Cfg0 == [pre |-> <<>>, cur |-> <<>>, password |-> <<>>, tid |-> <<>>, timeout |-> 0, max |-> 0, slow |-> 0]

SeqOfCmd(cmd) == CASE cmd = "Reservation" -> "Reservation" [] cmd \in {"PartialReversal", "PendingQuery"} -> "PartialReversal"
                   [] cmd = "PreAuthReversal" -> "PreAuthReversal" [] cmd = "EndOfDay" -> "EndOfDay" [] cmd = "ReadCard" -> "ReadCard"
                   [] cmd = "SysInfo" -> "GetSystemInfo" [] cmd = "SetTerminalId" -> "SetTerminalId"
                   [] cmd = "Initialization" -> "Initialization" [] OTHER -> ""

(* ======================================================================== *)
(* the trace machine                                                          *)
(* ======================================================================== *)
ObsErr(e) == [class |-> e.class, code |-> IF e.class = "Aborted" THEN e.code ELSE 0 - 1, text |-> e.text]
ObsRet == [ok |-> Ev.ok, err |-> ObsErr(Ev.err), val |-> Ev.val]

\* the result the specification expects, in the harness's shape
ExpVal(c0) ==
  CASE c0.op = "commit" /\ c0.res.ok -> SummaryOf(c0.res.val)
    [] c0.op = "read_card" /\ c0.res.ok -> c0.res.val
    [] OTHER -> <<>>
RetMatches(c0, ret) ==
  /\ c0.res.ok = ret.ok
  /\ (ret.ok => ret.val = ExpVal(c0))
  /\ (~ret.ok => /\ c0.res.class = ret.err.class
                 /\ (ret.err.class = "Aborted" => c0.res.code = ret.err.code)
                 /\ (ret.err.class = "Other" /\ c0.res.text # "invalid digit found in string" => c0.res.text = ret.err.text))

\* close the exchange being collected: feed its replies to the I-spec, append it to the call's exchanges
Closed(cc, cu) == IF cu.open /\ ~Returned(cc) THEN OnReplies(cfg, cc, cu.replies) ELSE cc
ExsClosed == IF cur.open THEN Append(exs, cur) ELSE exs

TInit == /\ l = 1 /\ cfg = Cfg0 /\ sc = 0 /\ c = Idle(Empty) /\ sync = TRUE /\ cur = NoCur /\ exs = <<>> /\ pcall = NoCall /\ open = Empty /\ hist = Empty /\ clean = TRUE

TReset == /\ Ev.e = "reset"
          /\ cfg' = Ev.cfg /\ sc' = Ev.sc /\ c' = Idle(Empty) /\ sync' = TRUE /\ cur' = NoCur /\ exs' = <<>> /\ pcall' = NoCall /\ open' = Empty /\ hist' = Empty
          /\ clean' = TRUE

TCall == /\ Ev.e = "call"
         /\ pcall' = [op |-> Ev.op, tok |-> Ev.token, amt |-> Ev.amount]
         /\ exs' = <<>> /\ cur' = NoCur
         /\ c' = IF sync THEN Call(cfg, c, Ev.op, Ev.token, Ev.amount) ELSE c
         /\ UNCHANGED <<cfg, sc, sync, open, hist, clean>>

\* a request reaches the terminal (not part of the connection handshake)
TRequest ==
  /\ Ev.e = "rx" /\ Ev.cmd # "Ack" /\ "hs" \in DOMAIN Ev /\ Ev.hs = FALSE /\ pcall.op # ""
  /\ LET c1 == IF sync THEN Closed(c, cur) ELSE c
         sq == SeqOfCmd(Ev.cmd)
         d == IF sq = "" THEN [ok |-> FALSE] ELSE DecPacket(SequencesTable[sq].req, Ev.raw)
         want == IF sync /\ ~Returned(c1) THEN NextReq(cfg, c1) ELSE NoReq
         good == sync /\ want.seq = sq /\ d.ok /\ d.val = want.val /\ d.rest = <<>> IN
     /\ exs' = ExsClosed
     /\ cur' = [open |-> TRUE, ex |-> Ev.ex, cmd |-> Ev.cmd, seq |-> sq, val |-> IF d.ok THEN d.val ELSE <<>>, replies |-> <<>>, acks |-> 0]
     /\ c' = c1
     /\ sync' = good
     \* (FeigClient is the fault-free exchange-level program: after connection churn the retries are ResetStream's business)
     /\ (IF good \/ ~sync \/ ~clean THEN TRUE ELSE PrintT(<<"IFLAG", sc, l, "request", ToJson([want |-> want.seq, got |-> Ev.cmd])>>))
  /\ UNCHANGED <<cfg, sc, pcall, open, hist, clean>>

\* a reply frame of the exchange being collected has been consumed by the client (position 0 is the acknowledgement); what the
\* terminal sent but the client never read is not part of the exchange
IsReply == Ev.e = "got" /\ Ev.planned /\ cur.open /\ Ev.ex = cur.ex /\ Ev.pos >= 1
IsAck == Ev.e = "rx" /\ Ev.cmd = "Ack" /\ cur.open /\ Ev.ex = cur.ex
TReply ==
  /\ IsReply
  /\ LET r == ParseEnum(SequencesTable[cur.seq].parser, Ev.raw) IN
     IF r.ok THEN cur' = [cur EXCEPT !.replies = Append(@, [v |-> r.variant, val |-> r.val])] /\ sync' = sync
     ELSE cur' = cur /\ sync' = FALSE /\ (IF ~sync \/ ~clean THEN TRUE ELSE PrintT(<<"IFLAG", sc, l, "undecodable-reply", "{}">>))
  /\ UNCHANGED <<cfg, sc, c, exs, pcall, open, hist, clean>>
\* the client acknowledged a reply: it decoded it and its acknowledgement reached the terminal
TAck == IsAck /\ cur' = [cur EXCEPT !.acks = @ + 1] /\ UNCHANGED <<cfg, sc, c, sync, exs, pcall, open, hist, clean>>

\* the exchanges whose every consumed reply was acknowledged: what the client demonstrably received and understood
Acked(xs) == SelectSeq(xs, LAMBDA x : x.acks >= Len(x.replies))

Unfinished(x) == x.seq \in SequenceNames /\
                 LET sq == SequencesTable[x.seq] IN
                 x.replies = <<>> \/ ~(x.replies[Len(x.replies)].v \in sq.finals \/ ~sq.loop)

TReturn ==
  /\ Ev.e = "ret" /\ pcall.op # ""
  /\ LET c1 == IF sync THEN Closed(c, cur) ELSE c
         xs == ExsClosed
         ret == ObsRet
         good == sync /\ Returned(c1) /\ RetMatches(c1, ret)
         \* after connection churn only C20 is judged, and only on exchanges the client acknowledged to the end: an abort it
         \* received and acknowledged must surface whatever happened to the connection before
         pf == IF clean THEN PFlags(cfg, open, pcall, xs, ret) \cup P08h(hist, pcall, xs) ELSE P20(cfg, open, pcall, Acked(xs), ret) IN
     /\ (IF good \/ ~sync \/ ~clean THEN TRUE ELSE PrintT(<<"IFLAG", sc, l, "result", ToJson([stage |-> c1.stage, exp |-> c1.res, got |-> ret.err, ok |-> ret.ok])>>))
     /\ (IF pf = {} THEN TRUE ELSE PrintT(<<"PFLAG", sc, l, ToJson(pf)>>))
     \* on a healthy connection every exchange of the call was read to its end - to a final reply of its command (any reply for a
     \* one-shot exchange): a client that stops reading while the terminal is still reporting makes up its own result (the pending
     \* query is exempt: the client may give it up when the terminal answers it with something else)
     /\ (IF clean /\ \E k \in 1..Len(xs) : Unfinished(xs[k]) /\ ~IsPendingQuery(xs[k])
         THEN PrintT(<<"PFLAG", sc, l, ToJson({"abnormal-exchange-left-unfinished"})>>) ELSE TRUE)
     /\ open' = P07(cfg, open, pcall, xs, ret).open
     /\ hist' = HistNext(hist, open, P07(cfg, open, pcall, xs, ret).open, pcall)
     /\ sync' = good
     /\ c' = IF good THEN AfterReturn(c1) ELSE c1
  /\ cur' = NoCur /\ exs' = <<>> /\ pcall' = NoCall
  /\ UNCHANGED <<cfg, sc, clean>>

\* a call that never returned or panicked: reported by the driver; the scenario ends there
TAbnormal == /\ Ev.e \in {"hang", "panic"} /\ PrintT(<<"PFLAG", sc, l, ToJson({(IF clean THEN "abnormal-" ELSE "faulty-abnormal-") \o Ev.e})>>)
             /\ sync' = FALSE /\ pcall' = NoCall /\ cur' = NoCur /\ exs' = <<>> /\ UNCHANGED <<cfg, sc, c, open, hist, clean>>

\* the client left bytes on a connection that never became a whole frame (a request with a wrong length header): on a healthy
\* connection that is a request the terminal cannot have understood
TJunk == /\ Ev.e = "junk" /\ (IF clean THEN PrintT(<<"PFLAG", sc, l, ToJson({"abnormal-mutilated-request"})>>) ELSE TRUE)
         /\ UNCHANGED <<cfg, sc, c, sync, cur, exs, pcall, open, hist, clean>>

Handled == \/ Ev.e \in {"reset", "call", "ret", "hang", "panic", "junk"}
           \/ (Ev.e = "rx" /\ Ev.cmd # "Ack" /\ "hs" \in DOMAIN Ev /\ Ev.hs = FALSE /\ pcall.op # "")
           \/ IsReply \/ IsAck
\* connection churn inside a call (a reconnect after a failure) takes the rest of the scenario out of the fault-free quantifier
\* ... but a client that drops its connection in the middle of a call although the terminal did nothing to it (no injected fault, no
\* refused or stalling connect, no late reply, no exchange the client itself left unfinished) is not fault-free behaviour: abnormal
\* a late reply: any delay - except, while a card is being read, one that stays below the card time-out the caller configured (the
\* terminal reports "insert card" again and again while nobody presents one: that is the fault-free course of read_card), and
\* elsewhere one below half the per-packet timeout measured from the implementation (a terminal waiting for a PIN or for its host)
LateTx == Ev.e = "tx" /\ "after_ms" \in DOMAIN Ev /\ ~(pcall.op = "read_card" /\ Ev.after_ms < 1000 * cfg.timeout)
          /\ ~(pcall.op # "read_card" /\ Ev.after_ms < cfg.slow)
Provoked == \/ Ev.e \in {"fault", "connect_stall", "connect_refused", "abandoned"}
            \/ LateTx
TSkip == /\ ~Handled
         /\ (IF Ev.e = "close" /\ pcall.op # "" /\ clean THEN PrintT(<<"PFLAG", sc, l, ToJson({"abnormal-connection-dropped-without-cause"})>>) ELSE TRUE)
         /\ clean' = (clean /\ ~(Ev.e \in {"open", "fault", "connect_stall", "connect_refused", "abandoned"} \/ LateTx
                                 \/ (Ev.e = "close" /\ pcall.op # "")))
         /\ UNCHANGED <<cfg, sc, c, sync, cur, exs, pcall, open, hist>>

TNext == l <= Len(Trc) /\ l' = l + 1 /\ (TReset \/ TCall \/ TRequest \/ TReply \/ TAck \/ TReturn \/ TAbnormal \/ TJunk \/ TSkip)

Finished == LET d == TLCGet("stats").diameter IN d - 1 = Len(Trc) \/ (PrintT(<<"STOPPED-AT", d>>) /\ FALSE)
=============================================================================
