------------------------------ MODULE ClientProps ------------------------------
(* The client-layer properties C07, C08, C18, C19, C20 as operators over what  *)
(* an observer sees of one public call: the call, the exchanges it performed   *)
(* (request as decoded by the reference codec, replies as decoded by the       *)
(* reference parser) and its result.  The very same operators are evaluated    *)
(* by the model checker on the I-spec's behaviours (MC_Client: "I-spec =>      *)
(* P-spec") and by trace validation on the real client's behaviours            *)
(* (TraceClient).  P_C07's token map is maintained from observed results and   *)
(* receipts only.                                                              *)
EXTENDS FeigClient

(* ======================================================================== *)
(* P-specs over the observed exchanges of one call                           *)
(* ======================================================================== *)
IsAbortReply(r) == r.v \in {"Abort", "PartialReversalAbort"}
AbortCode(r) == DToInt(r.val.error)
Has(ex, v) == \E k \in 1..Len(ex.replies) : ex.replies[k].v = v
Aborted(ex) == \E k \in 1..Len(ex.replies) : IsAbortReply(ex.replies[k])
IsPendingQuery(ex) == ex.seq = "PartialReversal" /\ ex.val # <<>> /\ ex.val.receipt_no = <<D65535>>
\* the receipt number the terminal issued in a reservation exchange: the last status information carrying one
IssuedReceipt(ex) ==
  LET idx == {k \in 1..Len(ex.replies) : ex.replies[k].v = "StatusInformation" /\ ex.replies[k].val.receipt_no # <<>>} IN
  IF idx = {} THEN <<>> ELSE ex.replies[CHOOSE k \in idx : \A j \in idx : j <= k].val.receipt_no
LastStatus(ex) ==
  LET idx == {k \in 1..Len(ex.replies) : ex.replies[k].v = "StatusInformation"} IN
  IF idx = {} THEN <<>> ELSE <<ex.replies[CHOOSE k \in idx : \A j \in idx : j <= k].val>>

\* ---- C07: the client is a map token -> open pre-authorisation
P07(cf, op, call, xs, ret) ==
  CASE call.op = "begin" ->
         IF call.tok \in DOMAIN op \/ Cardinality(DOMAIN op) >= cf.max
         THEN [flags |-> (IF ~ret.ok /\ ret.err.class = "ActiveTransaction" THEN {} ELSE {"P07-begin-not-refused"})
                         \cup (IF xs = <<>> THEN {} ELSE {"P07-traffic-on-refused-call"}),
               open |-> op]
         ELSE \* the reservations of this call that the terminal completed and issued a receipt number for (a client may ask again after
              \* a refusal: how often it asks is not the property's business, that exactly one pre-authorisation results - the last
              \* exchange - is)
              LET res == SelectSeq(xs, LAMBDA x : x.seq = "Reservation")
                  booked == {k \in 1..Len(res) : Has(res[k], "CompletionData") /\ ~Aborted(res[k]) /\ IssuedReceipt(res[k]) # <<>>} IN
              IF ret.ok
              THEN IF res # <<>> /\ booked = {Len(res)}
                   THEN [flags |-> {}, open |-> With(op, call.tok, IssuedReceipt(res[Len(res)])[1])]
                   ELSE [flags |-> {"P07-begin-ok-without-successful-reservation"}, open |-> op]
              ELSE \* "records the receipt number the terminal issued for that reservation": a reservation the terminal completed
                   \* and for which it reported a receipt number is an open pre-authorisation - begin cannot fail on it
                   [flags |-> IF booked # {} THEN {"P07-issued-receipt-not-recorded"} ELSE {},
                    open |-> op]
    [] call.op \in {"commit", "cancel"} ->
         IF call.tok \notin DOMAIN op
         THEN [flags |-> (IF ~ret.ok /\ ret.err.class = "UnknownToken" THEN {} ELSE {"P07-unknown-token-accepted"})
                         \cup (IF xs = <<>> THEN {} ELSE {"P07-traffic-on-refused-call"}),
               open |-> op]
         ELSE \* which of the two reversal messages carries it is the implementation's choice (the I-spec names it: a different
              \* message is model drift); the property is about the receipt number acted on
              [flags |-> (IF xs # <<>> /\ xs[1].seq \in {"PartialReversal", "PreAuthReversal"} /\ xs[1].val # <<>> /\ xs[1].val.receipt_no = <<op[call.tok]>>
                          THEN {} ELSE {"P07-wrong-receipt"})
                         \cup (IF ~ret.ok /\ ret.err.class = "UnknownToken" THEN {"P07-open-token-refused"} ELSE {})
                         \* "exactly that token's receipt number": no reversal of this call names the receipt of another open token
                         \cup (IF \E k \in 1..Len(xs) : /\ xs[k].seq \in {"PartialReversal", "PreAuthReversal"} /\ xs[k].val # <<>>
                                                         /\ \E t \in DOMAIN op \ {call.tok} :
                                                              op[t] # op[call.tok] /\ xs[k].val.receipt_no = <<op[t]>>
                               THEN {"P07-acts-on-another-token"} ELSE {}),
               open |-> Without(op, call.tok)]
    \* configure (and end of day in general) wipes the map at the moment it asks for pending pre-authorisations
    [] call.op \in {"configure", "new"} ->
         [flags |-> {}, open |-> IF \E k \in 1..Len(xs) : IsPendingQuery(xs[k]) THEN Empty ELSE op]
    [] OTHER -> [flags |-> {}, open |-> op]

\* ---- C08: amounts, currency, receipt, reference; the summary
SummaryOf(s) == [terminal_id |-> IF s.terminal_id = <<>> THEN <<>> ELSE <<NumText(s.terminal_id[1])>>,
                 amount |-> s.amount, trace_number |-> s.trace_number,
                 date |-> IF s.date = <<>> THEN <<>> ELSE <<Pad(s.date[1], 4)>>,
                 time |-> IF s.time = <<>> THEN <<>> ELSE <<Pad(s.time[1], 6)>>]
P08(cf, op, call, xs, ret) ==
  (IF \A k \in 1..Len(xs) : xs[k].seq = "Reservation" =>
        /\ xs[k].val # <<>> /\ xs[k].val.amount = <<cf.pre>> /\ xs[k].val.currency = <<cf.cur>>
        /\ xs[k].val.tlv = Bmp60(call.tok)
   THEN {} ELSE {"P08-reservation"})
  \cup (IF call.op = "commit" /\ call.tok \in DOMAIN op /\ xs # <<>> /\ xs[1].val # <<>>
        THEN \* (a release written as a message without an amount - a full reversal - releases everything: exact only for a final amount of 0)
             LET v == xs[1].val
                 F(f) == f \in DOMAIN v IN
             (IF (F("amount") /\ v.amount = <<DSatSub(cf.pre, call.amt)>>) \/ (~F("amount") /\ DSatSub(cf.pre, call.amt) = cf.pre) THEN {} ELSE {"P08-release-amount"})
             \cup (IF (F("currency") => v.currency = <<cf.cur>>) /\ (F("tlv") => v.tlv = Bmp60(call.tok)) /\ F("receipt_no") /\ v.receipt_no = <<op[call.tok]>>
                   THEN {} ELSE {"P08-release-wiring"})
             \cup (IF ret.ok /\ (LastStatus(xs[1]) = <<>> \/ ret.val # SummaryOf(LastStatus(xs[1])[1])) THEN {"P08-summary"} ELSE {})
        ELSE {})

\* the pairing of token and receipt number, independent of whether the token still counts as open: a release that carries the
\* token of a reservation carries the receipt number the terminal issued for that reservation (hist: token -> receipt number of
\* the last reservation recorded for it; a token is entered exactly when P_C07's map gains it)
HistNext(hist, before, after, call) == IF call.op = "begin" /\ call.tok \in DOMAIN after /\ call.tok \notin DOMAIN before
                                       THEN With(hist, call.tok, after[call.tok]) ELSE hist
P08h(hist, call, xs) ==
  IF call.op = "commit" /\ xs # <<>> /\ xs[1].seq = "PartialReversal" /\ ~IsPendingQuery(xs[1]) /\ xs[1].val # <<>>
     /\ xs[1].val.tlv = Bmp60(call.tok) /\ call.tok \in DOMAIN hist /\ xs[1].val.receipt_no # <<hist[call.tok]>>
  THEN {"P08-release-wiring"} ELSE {}

\* ---- C19: going idle triggers the clean-up; never while transactions are open
P19(cf, op, call, xs, ret) ==
  \* no operation runs the clean-up over open transactions: not commit and cancel (below), and not begin or read_card either
  IF call.op \in {"begin", "read_card"}
  THEN (IF op # Empty /\ \E k \in 1..Len(xs) : xs[k].seq = "EndOfDay" \/ IsPendingQuery(xs[k])
        THEN {"P19-cleanup-while-open-or-after-failure"} ELSE {})
  ELSE
  IF ~(call.op \in {"commit", "cancel"} /\ call.tok \in DOMAIN op /\ xs # <<>>) THEN {}
  ELSE LET left == Without(op, call.tok)
           own == Has(xs[1], "CompletionData") /\ ~Aborted(xs[1])
           rest == SubSeq(xs, 2, Len(xs))
           isEod(x) == x.seq = "EndOfDay" IN
       IF left # Empty \/ ~own
       THEN (IF \E k \in 1..Len(rest) : isEod(rest[k]) \/ IsPendingQuery(rest[k]) THEN {"P19-cleanup-while-open-or-after-failure"} ELSE {})
       ELSE \* idle: pending query, reversal of what it reports, end of day
            IF rest = <<>> \/ ~IsPendingQuery(rest[1]) THEN {"P19-no-pending-query"}
            ELSE LET q == rest[1]
                     answered == q.replies # <<>> /\ q.replies[1].v = "PartialReversalAbort"
                     d == IF answered THEN q.replies[1].val.receipt_no ELSE <<>>
                     dangling == d # <<>> /\ d # <<D65535>> IN
                 IF ~answered THEN (IF ret.ok THEN {"P19-unanswered-query-ignored"} ELSE {})
                 ELSE IF dangling
                      THEN (IF Len(rest) < 2 \/ rest[2].seq # "PreAuthReversal" \/ rest[2].val = <<>> \/ rest[2].val.receipt_no # d
                            THEN {"P19-dangling-not-reversed"}
                            ELSE IF Has(rest[2], "CompletionData") /\ ~Aborted(rest[2])
                                 THEN (IF Len(rest) # 3 \/ ~isEod(rest[3]) THEN {"P19-no-end-of-day"}
                                       ELSE LET e == rest[3] IN
                                            (IF Aborted(e) /\ AbortCode(e.replies[Len(e.replies)]) # 160 /\ ret.ok THEN {"P19-eod-refusal-not-reported"} ELSE {})
                                            \cup (IF Aborted(e) /\ AbortCode(e.replies[Len(e.replies)]) = 160 /\ ~ret.ok /\ ret.err.class = "Aborted"
                                                  THEN {"P19-receiver-not-ready-not-tolerated"} ELSE {}))
                                 ELSE (IF ret.ok THEN {"P19-failed-reversal-ignored"} ELSE {}))
                      ELSE (IF Len(rest) # 2 \/ ~isEod(rest[2]) THEN {"P19-no-end-of-day"}
                            ELSE LET e == rest[2] IN
                                 (IF Aborted(e) /\ AbortCode(e.replies[Len(e.replies)]) # 160 /\ ret.ok THEN {"P19-eod-refusal-not-reported"} ELSE {})
                                 \cup (IF Aborted(e) /\ AbortCode(e.replies[Len(e.replies)]) = 160 /\ ~ret.ok /\ ret.err.class = "Aborted"
                                       THEN {"P19-receiver-not-ready-not-tolerated"} ELSE {}))

\* ---- C20: an abort always surfaces as an error identifying its code
Translated(call, ex, code) == (ex.seq = "ReadCard" /\ code = 108) \/ (ex.seq = "Reservation" /\ code = 252) \/ (ex.seq = "EndOfDay" /\ code = 160)
Identifies(call, ret, code) ==
  \/ ret.err.class = "Aborted" /\ ret.err.code = code
  \/ ret.err.text = UnknownCodeText(code)
  \/ (call.op = "read_card" /\ ret.err.text = UnhandledText(code))
P20(cf, op, call, xs, ret) ==
  IF call.op = "new" THEN {}
  ELSE UNION {LET ex == xs[k] IN
              IF ex.replies # <<>> /\ IsAbortReply(ex.replies[Len(ex.replies)]) /\ ~IsPendingQuery(ex)
              THEN LET code == AbortCode(ex.replies[Len(ex.replies)]) IN
                   IF Translated(call, ex, code) THEN
                        (IF ex.seq = "ReadCard" /\ ~(~ret.ok /\ ret.err.class = "NoCardPresented") THEN {"P20-timeout-not-no-card"}
                         ELSE IF ex.seq = "Reservation" /\ ~(~ret.ok /\ ret.err.class = "NeedsPinEntry") THEN {"P20-device-missing-not-pin"}
                         ELSE {})
                   ELSE IF ret.ok THEN {"P20-abort-reported-as-success"}
                   ELSE IF ~Identifies(call, ret, code) THEN {"P20-error-does-not-identify-code"}
                   ELSE {}
              ELSE {} : k \in 1..Len(xs)}

\* ---- C18: card identity is a fixed function of the reported data
P18(cf, op, call, xs, ret) ==
  IF call.op # "read_card" \/ xs = <<>> \/ xs[1].replies = <<>> THEN {}
  ELSE LET last == xs[1].replies[Len(xs[1].replies)] IN
       IF last.v = "StatusInformation" THEN
            (IF last.val.tlv = <<>> THEN (IF ret.ok THEN {"P18-no-data-but-card"} ELSE {})
             ELSE LET tl == last.val.tlv[1]
                      anyAid == \E k \in 1..Len(tl.subs) : tl.subs[k].application_id # <<>> IN
                  (IF tl.subs # <<>> /\ tl.subs[1].application_id # <<>> /\ ~(ret.ok /\ ret.val.card = "Bank") THEN {"P18-bank-card-not-bank"} ELSE {})
                  \cup (IF anyAid /\ ret.ok /\ ret.val.card = "Membership" THEN {"P18-payment-card-as-membership"} ELSE {})
                  \cup (IF tl.subs = <<>> /\ tl.uuid # <<>> /\ ~(ret.ok /\ ret.val.card = "Membership" /\ ret.val.id = CanonUid(tl.uuid[1]))
                        THEN {"P18-membership-id"} ELSE {})
                  \cup (IF tl.subs = <<>> /\ tl.uuid = <<>> /\ ret.ok THEN {"P18-no-uid-but-card"} ELSE {})
                  \cup (IF ret.ok /\ ret.val.card = "Membership" /\ tl.uuid # <<>> /\ ret.val.id # CanonUid(tl.uuid[1]) THEN {"P18-membership-id"} ELSE {}))
       ELSE IF IsAbortReply(last) THEN
            (IF AbortCode(last) = 108 /\ ~(~ret.ok /\ ret.err.class = "NoCardPresented") THEN {"P18-timeout-not-no-card"} ELSE {})
            \cup (IF AbortCode(last) # 108 /\ (ret.ok \/ ret.err.class = "NoCardPresented") THEN {"P18-abort-not-error"} ELSE {})
       \* the terminal is still reporting (intermediate statuses only): "no card presented" is the terminal's verdict, not the client's
       ELSE (IF ~ret.ok /\ ret.err.class = "NoCardPresented" THEN {"P18-no-card-without-the-terminal-saying-so"} ELSE {})

PFlags(cf, op, call, xs, ret) ==
  P07(cf, op, call, xs, ret).flags \cup P08(cf, op, call, xs, ret) \cup P19(cf, op, call, xs, ret)
  \cup P20(cf, op, call, xs, ret) \cup P18(cf, op, call, xs, ret)

=============================================================================
