CONSTANTS
  Tokens <- McTokens
  MaxSet <- McMaxSet
  Finals <- McFinals
  Danglings <- McDanglings
INIT Init
NEXT Next
INVARIANT NoPFlags
INVARIANT MapsAgree
INVARIANT WithinMax
INVARIANT MapIsOpenOnTerminal
INVARIANT OneToOne
PROPERTY RefinesTxnMap
