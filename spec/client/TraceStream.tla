------------------------------ MODULE TraceStream ------------------------------
(* impl -> spec for the packet-level I-spec ResetStream: every trace of the    *)
(* real client against the simulated terminal must be a behaviour of           *)
(* ResetStream with the real constants (20 attempts, 2 s throttle, the         *)
(* measured per-item timeout, milliseconds).  Each recorded event stands for   *)
(* one action of ResetStream (or for a step of the environment that the        *)
(* client cannot see yet); the logged connection ids and virtual timestamps    *)
(* are bound to the primed variables, so the attempt budget, the throttle      *)
(* law, every deadline and the connection discipline are checked on every      *)
(* step.  Three client steps are not observable and are taken silently         *)
(* between two events: a call starts its next stream, the retry stream ticks,  *)
(* a stream ends after its final reply (Complete) or is left unfinished        *)
(* (Abandon - TLC explores both, later events decide).                         *)
(*                                                                             *)
(*   event            action                                                   *)
(*   call / ret       StartCallAt / Return                                     *)
(*   open             ConnectAccepted(id)      connect_refused  ConnectRefused *)
(*   connect_stall    ConnectStall                                             *)
(*   rx (command)     no step; the command must be the one frame position 0    *)
(*                    of the current phase is waiting for                      *)
(*   tx / fault       environment only: remembers what the terminal put on     *)
(*                    the wire (late reply, foreign serial, broken frame,      *)
(*                    silence)                                                 *)
(*   got              the client consumed the frame: FrameDelivered /          *)
(*                    RegistrationDone / IdentityConfirmed, after the delay    *)
(*   close            the failure: FrameBroken / FrameSilent (at the           *)
(*                    deadline) / ForeignSerial / StaleFailure                 *)
(*   abandoned        the terminal saw a new command while replies were        *)
(*                    outstanding: only the Abandon branch explains it         *)
(*                                                                             *)
(* A trace that is not accepted is MODEL-DRIFT of layer L4-stream (the         *)
(* properties themselves are judged by TraceConn); acceptance is by the        *)
(* highest event index reached (register 7).                                   *)
EXTENDS ResetStream, Sequences, Json, IOUtils, TLC

Codec == INSTANCE ZvtCodec

Trc == ndJsonDeserialize(IOEnv.CLIENT_TRACE)
TrPpt == atoi(IOEnv.PPT_MS)

VARIABLES l,       \* next event
          cfg, sc, \* configuration and number of the scenario
          op,      \* the public call in progress
          cause,   \* what the terminal did to the frame the client is waiting for: "" | "broken" | "silent" | "foreign" | "refused" | "stale"
          late     \* the delayed reply the terminal has scheduled: [pos, ms] (ms = 0: none)
tvars == <<l, cfg, sc, op, cause, late>>
allvars == <<vars, tvars>>

Ev == Trc[l]
More == l <= Len(Trc)
Is(e) == More /\ Ev.e = e
Step == l' = l + 1
NoLate == [pos |-> 0, ms |-> 0]
Cfg0 == [timeout |-> 0, ppt |-> 60, rcm |-> 2, serial |-> <<>>]
TmoOf(o) == IF o = "read_card" THEN (cfg.timeout + cfg.rcm) * 1000 ELSE cfg.ppt * 1000
Lower(b) == [i \in 1..Len(b) |-> IF b[i] >= 65 /\ b[i] <= 90 THEN b[i] + 32 ELSE b[i]]

Fresh == /\ active' = FALSE /\ calls' = 0 /\ streams' = 0 /\ attempt' = 0 /\ phase' = "idle" /\ pos' = 0 /\ conn' = 0 /\ nconn' = 0
         /\ vetted' = {} /\ tainted' = {} /\ closed' = {} /\ dirty' = {} /\ now' = 0 /\ lastTick' = 0 /\ started' = 0 /\ connStart' = 0
         /\ tmo' = Timeout /\ faults' = 0 /\ result' = "" /\ usedCmd' = {}

TInit == Init /\ l = 1 /\ cfg = Cfg0 /\ sc = 0 /\ op = "" /\ cause = "" /\ late = NoLate /\ TLCSet(7, 1)

TReset == Is("reset") /\ Step /\ Fresh /\ cfg' = Ev.cfg /\ sc' = Ev.sc /\ op' = "" /\ cause' = "" /\ late' = NoLate

\* the driver constructed the client (not part of the trace) and reports the connection it holds and the time
TConstructed == /\ Is("constructed") /\ Step /\ phase \in {"idle", "between"} /\ streams = 0
                /\ now' = Ev.t /\ started' = Ev.t /\ lastTick' = Ev.t /\ connStart' = Ev.t
                /\ conn' = Ev.conn /\ nconn' = Ev.conn /\ vetted' = (IF Ev.conn = 0 THEN {} ELSE {Ev.conn})
                /\ UNCHANGED <<active, calls, streams, attempt, phase, pos, tainted, closed, dirty, tmo, faults, result, usedCmd>>
                /\ UNCHANGED <<cfg, sc, op, cause, late>>

TCall == Is("call") /\ Step /\ StartCallAt(Ev.t) /\ op' = Ev.op /\ UNCHANGED <<cfg, sc, cause, late>>
TRet == Is("ret") /\ Step /\ Ev.t = now /\ Return /\ op' = "" /\ UNCHANGED <<cfg, sc, cause, late>>

(* ---- silent client steps, taken only when the next event needs them ---- *)
\* (a command whose write fails is an attempt too: the terminal reports the failed write instead of the frame)
NeedsAttempt == More /\ (\/ Ev.e \in {"open", "connect_refused", "connect_stall"}
                         \/ (Ev.e = "rx" /\ Ev.cmd # "Ack" /\ ~Ev.hs)
                         \/ (Ev.e = "fault" /\ Ev.kind = "write_error" /\ Ev.pos = 0 /\ phase \in {"between", "tick"}))
TSilentStart == NeedsAttempt /\ StartStream(TmoOf(op)) /\ UNCHANGED tvars
TSilentTick == ((NeedsAttempt /\ TickNext) \/ (More /\ TickExhausted)) /\ UNCHANGED tvars
TSilentEnd == More /\ (Ev.e = "ret" \/ NeedsAttempt) /\ (Complete \/ Abandon) /\ UNCHANGED tvars

(* ---- connect phase ---- *)
TOpen == Is("open") /\ Step /\ Ev.t = now /\ ConnectAccepted(Ev.conn) /\ UNCHANGED <<cfg, sc, op, cause, late>>
TRefused == Is("connect_refused") /\ Step /\ Ev.t = now /\ ConnectRefused /\ UNCHANGED <<cfg, sc, op, cause, late>>
TStall == Is("connect_stall") /\ Step /\ Ev.t = now /\ ConnectStall /\ UNCHANGED <<cfg, sc, op, cause, late>>

(* ---- what the client writes ---- *)
TRxCmd == /\ Is("rx") /\ Ev.cmd # "Ack" /\ Step /\ Ev.t = now /\ Ev.conn = conn /\ pos = 0
          /\ IF Ev.hs THEN (Ev.cmd = "Registration" /\ phase = "reg") \/ (Ev.cmd = "SysInfo" /\ phase = "sys") ELSE phase = "cmd"
          /\ UNCHANGED vars /\ UNCHANGED <<cfg, sc, op, cause, late>>
TRxAck == Is("rx") /\ Ev.cmd = "Ack" /\ Step /\ UNCHANGED vars /\ UNCHANGED <<cfg, sc, op, cause, late>>

(* ---- what the terminal puts on the wire (not yet visible to the client) ---- *)
SerialOk(raw) == LET d == Codec!DecPacket("feig_CVendFunctionsEnhancedSystemInformationCompletion", raw) IN
                 d.ok /\ Lower(d.val.device_id) = Lower(cfg.serial)
TTx == /\ Is("tx") /\ Step
       /\ late' = (IF "after_ms" \in DOMAIN Ev /\ Ev.conn = conn THEN [pos |-> Ev.pos, ms |-> Ev.after_ms] ELSE late)
       /\ cause' = (IF Ev.conn = conn /\ phase = "sys" /\ Ev.pos = 1 /\ (Ev.kind # "Completion" \/ ~SerialOk(Ev.raw)) THEN "foreign"
                    \* the registration is answered by something else than a completion: an unexpected reply, error at once
                    ELSE IF Ev.conn = conn /\ phase = "reg" /\ Ev.pos = 1 /\ Ev.kind # "Completion" THEN "refused"
                    ELSE cause)
       /\ UNCHANGED vars /\ UNCHANGED <<cfg, sc, op>>
TFault == /\ Is("fault") /\ Step /\ Ev.conn = conn
          /\ cause' = (IF Ev.kind \in {"silence", "partial"} THEN "silent" ELSE "broken")
          /\ UNCHANGED vars /\ UNCHANGED <<cfg, sc, op, late>>
TAbandoned == /\ Is("abandoned") /\ Step /\ Ev.conn = conn /\ conn \in dirty /\ cause' = "stale"
              /\ UNCHANGED vars /\ UNCHANGED <<cfg, sc, op, late>>
TEnvOther == More /\ Ev.e \in {"plan", "ledger"} /\ Step /\ UNCHANGED vars /\ UNCHANGED <<cfg, sc, op, cause, late>>

(* ---- the client consumed a frame ---- *)
TGot == /\ Is("got") /\ Step /\ Ev.conn = conn
        /\ IF ~Ev.planned \/ cause = "stale" \/ (cause = "foreign" /\ phase = "sys" /\ Ev.pos = 1) \/ (cause = "refused" /\ phase = "reg" /\ Ev.pos = 1)
           THEN UNCHANGED vars /\ UNCHANGED late        \* a broken or stale frame, a foreign serial number: the failure follows with the close
           ELSE /\ Ev.t >= now /\ Ev.t - now = (IF late.pos = Ev.pos THEN late.ms ELSE 0) /\ conn \notin dirty
                /\ late' = (IF late.pos = Ev.pos THEN NoLate ELSE late)
                /\ LET d == Ev.t - now IN
                   IF phase = "reg" /\ pos = 1 THEN RegistrationDone(d)
                   ELSE IF phase = "sys" /\ pos = 1 THEN IdentityConfirmed(d)
                   ELSE Ev.pos = pos /\ FrameDelivered(d)
        /\ UNCHANGED <<cfg, sc, op, cause>>

(* ---- a connection is closed ---- *)
TClose == /\ Is("close") /\ Step
          /\ IF Ev.conn # conn \/ ~active
             THEN (Ev.conn \in closed \/ ~active) /\ UNCHANGED vars
             ELSE /\ Ev.t >= now
                  /\ CASE cause \in {"broken", "refused"} -> Ev.t = now /\ FrameBroken
                       [] cause = "stale" -> Ev.t = now /\ StaleFailure
                       [] cause = "foreign" -> Ev.t - now = (IF late.pos = pos THEN late.ms ELSE 0) /\ ForeignSerial(Ev.t - now)
                       [] cause = "silent" -> Ev.t = Deadline /\ FrameSilent
                       [] cause = "" /\ late.ms > 0 /\ late.pos = pos -> now + late.ms >= Deadline /\ Ev.t = Deadline /\ FrameSilent
                       [] OTHER -> FALSE
          /\ cause' = "" /\ late' = NoLate /\ UNCHANGED <<cfg, sc, op>>

TNext == \/ TReset \/ TConstructed \/ TCall \/ TRet \/ TSilentStart \/ TSilentTick \/ TSilentEnd
         \/ TOpen \/ TRefused \/ TStall \/ TRxCmd \/ TRxAck \/ TTx \/ TFault \/ TAbandoned \/ TEnvOther \/ TGot \/ TClose

\* progress register: the highest event index any branch reached
Progress == TLCSet(7, IF l > TLCGet(7) THEN l ELSE TLCGet(7))
Finished == LET m == TLCGet(7) IN m = Len(Trc) + 1 \/ (PrintT(<<"STOPPED-AT", m>>) /\ FALSE)
=============================================================================
