-------------------------------- MODULE TxnMap --------------------------------
(* P-spec of C07 as a specification in its own right: the terminal client is a  *)
(* map from caller tokens to the receipt numbers of open pre-authorisations.    *)
(* Nothing here says how the client talks to the terminal; the only things      *)
(* that exist are the map, the configured maximum, and the receipt numbers the  *)
(* terminal has issued.                                                         *)
(*                                                                              *)
(*   Begin(t, r)   t is not open and fewer than Max tokens are open; the        *)
(*                 terminal issued receipt number r for this reservation        *)
(*   Close(t)      commit / cancel of an open token: the token is closed        *)
(*                 (whatever the terminal answers to the reversal)              *)
(*   Wipe          configure / end of day: every token is forgotten             *)
(*   everything else (refused calls, failed reservations, read_card) leaves the *)
(*   map alone - a stuttering step                                              *)
(*                                                                              *)
(* MC_Client checks that the I-spec FeigClient refines this specification       *)
(* (PROPERTY RefinesTxnMap: every step of the client program is a TxnMap step   *)
(* or leaves the map unchanged); MC_TxnMapInd discharges the invariants         *)
(* inductively with Apalache for any number of calls.                           *)
EXTENDS Naturals, FiniteSets

CONSTANTS
  \* @type: Set(TOKEN);
  Tokens,
  \* @type: Set(Int);
  Receipts     \* the receipt numbers the terminal can issue (1..9999)

VARIABLES
  \* @type: TOKEN -> Int;
  open,        \* token -> receipt number of its open pre-authorisation
  \* @type: Set(Int);
  issued,      \* receipt numbers of the reservations that are on the terminal's books
  \* @type: Int;
  max          \* the configured maximum (never changes)

vars == <<open, issued, max>>
Max == max

Init == open = [t \in {} |-> 0] /\ issued \in SUBSET Receipts /\ max \in Nat

Begin(t, r) == /\ t \notin DOMAIN open /\ Cardinality(DOMAIN open) < Max
               /\ r \notin issued                                    \* the terminal numbers its reservations apart
               /\ open' = [x \in (DOMAIN open) \cup {t} |-> IF x = t THEN r ELSE open[x]]
               /\ issued' = issued \cup {r} /\ UNCHANGED max
\* a reservation the client does not (or cannot) record: the terminal may still have it on its books (a dangling pre-authorisation)
Dangling(r) == r \notin issued /\ issued' = issued \cup {r} /\ UNCHANGED <<open, max>>
Close(t) == /\ t \in DOMAIN open
            /\ open' = [x \in (DOMAIN open) \ {t} |-> open[x]]
            /\ issued' \in {issued, issued \ {open[t]}}                 \* the terminal reverses it - or refuses to
            /\ UNCHANGED max
Wipe == open' = [t \in {} |-> 0] /\ issued' \in SUBSET issued /\ UNCHANGED max
\* the terminal reverses a pre-authorisation nobody holds a token for (clean-up of a dangling one)
Reverse(r) == r \in issued /\ (\A t \in DOMAIN open : open[t] # r) /\ issued' = issued \ {r} /\ UNCHANGED <<open, max>>

Next == \/ \E t \in Tokens : \E r \in Receipts : Begin(t, r)
        \/ \E r \in Receipts : Dangling(r) \/ Reverse(r)
        \/ \E t \in Tokens : Close(t)
        \/ Wipe
Spec == Init /\ [][Next]_vars

(* ---- what a user relies on ---- *)
WithinMax == Cardinality(DOMAIN open) <= Max
OneToOne == \A a, b \in DOMAIN open : a # b => open[a] # open[b]
OnTheBooks == \A t \in DOMAIN open : open[t] \in issued
=============================================================================
