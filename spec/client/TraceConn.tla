------------------------------- MODULE TraceConn -------------------------------
(* impl -> spec for C09 and C10: the connection-level view of traces of the    *)
(* real client against the simulated terminal.  P_C09 and P_C10 are acceptors  *)
(* over the per-connection log (open / close / rx / tx / fault, with virtual   *)
(* time) - they use nothing but observed events and the configuration.         *)
(*                                                                             *)
(* A connection is VETTED once it carried Registration(password, 0xDE,         *)
(* currency) answered by a completion and then the Feig system-information     *)
(* request answered by a packet whose serial equals the configured one         *)
(* (case-insensitively).  It is TAINTED from the moment the terminal injects   *)
(* a fault into a frame on it (close, garbage, malformed, partial, NACK,       *)
(* silence), answers later than the per-packet timeout, or the client leaves   *)
(* an exchange unfinished on it.                                               *)
EXTENDS ZvtCodec, ZvtValues, Json, IOUtils, FiniteSets

Trc == ndJsonDeserialize(IOEnv.CLIENT_TRACE)

VARIABLES l, cfg, sc,
          st,        \* conn id -> [stage, vetted, tainted, closed, wrong]
          incall,    \* [op, t0] of the public call in progress (op = "" none)
          healthyClosed   \* a vetted, untainted connection was closed since the last open
tvars == <<l, cfg, sc, st, incall, healthyClosed>>

Ev == Trc[l]
NoConn == [stage |-> 0, vetted |-> FALSE, tainted |-> FALSE, closed |-> FALSE, wrong |-> FALSE, regOk |-> FALSE]
\* ppt / rcm: the implementation's per-packet timeout and its read_card margin in seconds, MEASURED by the driver (not 60 / 2 by fiat)
Cfg0 == [pre |-> <<>>, cur |-> <<>>, password |-> <<>>, tid |-> <<>>, timeout |-> 0, max |-> 0, serial |-> <<>>, tag |-> "", ppt |-> 60, rcm |-> 2]
Conn(k) == IF k \in DOMAIN st THEN st[k] ELSE NoConn
Set(k, r) == [x \in (DOMAIN st) \cup {k} |-> IF x = k THEN r ELSE st[x]]
Lower(b) == [i \in 1..Len(b) |-> IF b[i] >= 65 /\ b[i] <= 90 THEN b[i] + 32 ELSE b[i]]
Flag(f) == PrintT(<<"PFLAG", sc, l, ToJson({f})>>)
Emp == [x \in {} |-> NoConn]

TInit == l = 1 /\ cfg = Cfg0 /\ sc = 0 /\ st = Emp /\ incall = [op |-> "", t0 |-> 0] /\ healthyClosed = FALSE

Healthy(r) == r.vetted /\ ~r.tainted /\ ~r.closed

TReset == /\ Ev.e = "reset" /\ cfg' = Ev.cfg /\ sc' = Ev.sc /\ st' = Emp /\ incall' = [op |-> "", t0 |-> 0] /\ healthyClosed' = FALSE

\* the client was constructed on an existing, vetted connection (scenario start "connected")
TConstructed == /\ Ev.e = "constructed"
                /\ st' = IF Ev.conn = 0 THEN Emp ELSE Set(Ev.conn, [NoConn EXCEPT !.stage = 2, !.vetted = TRUE, !.regOk = TRUE])
                /\ healthyClosed' = FALSE /\ UNCHANGED <<cfg, sc, incall>>

\* (ii) a connection that saw a failure is closed before the next one opens; (iv) a healthy connection is kept, not replaced
TOpen == /\ Ev.e = "open"
         /\ (IF \E k \in DOMAIN st : st[k].tainted /\ ~st[k].closed THEN Flag("P09-new-connection-before-failed-one-closed") ELSE TRUE)
         /\ (IF \E k \in DOMAIN st : Healthy(st[k]) THEN Flag("P09-reconnect-although-connection-healthy") ELSE TRUE)
         /\ (IF healthyClosed THEN Flag("P09-healthy-connection-dropped") ELSE TRUE)
         \* I-spec only (model drift, not a property): a reply one second before the measured timeout is still received in every
         \* exchange - otherwise the timeout is not the same everywhere, which no property forbids.
         /\ (IF cfg.tag = "ontime" THEN Flag("D10-timeout-differs-between-exchanges") ELSE TRUE)
         /\ st' = Set(Ev.conn, NoConn) /\ healthyClosed' = FALSE
         /\ UNCHANGED <<cfg, sc, incall>>

TClose == /\ Ev.e = "close"
          /\ healthyClosed' = (healthyClosed \/ (Healthy(Conn(Ev.conn)) /\ incall.op # ""))
          /\ st' = Set(Ev.conn, [Conn(Ev.conn) EXCEPT !.closed = TRUE])
          /\ UNCHANGED <<cfg, sc, incall>>

\* the property names the configured password and currency; the configuration byte (0xDE today) and an optional TLV part are
\* the implementation's choice
RegOk(raw) == LET d == DecPacket("Registration", raw) IN
              d.ok /\ d.val.password = cfg.password /\ d.val.currency = <<cfg.cur>>
\* the identity check is the Feig system-information request (CVend function 1)
SysOk(raw) == LET d == DecPacket("feig_CVendFunctions", raw) IN
              d.ok /\ d.val.instr = DFromInt(1)

TRx == /\ Ev.e = "rx"
       /\ LET r == Conn(Ev.conn) IN
          /\ (IF r.tainted THEN Flag("P09-frame-on-connection-that-saw-a-failure") ELSE TRUE)
          /\ (IF r.wrong /\ Ev.cmd # "Ack" THEN Flag("P09-command-to-foreign-terminal") ELSE TRUE)
          /\ IF Ev.cmd = "Ack" THEN st' = st
             ELSE IF Ev.cmd = "Registration"
                  THEN /\ (IF r.stage = 0 /\ RegOk(Ev.raw) THEN TRUE ELSE Flag("P09-registration"))
                       /\ st' = Set(Ev.conn, [r EXCEPT !.stage = 1, !.regOk = RegOk(Ev.raw)])
             ELSE IF Ev.cmd = "SysInfo" /\ r.stage = 1
                  THEN /\ (IF SysOk(Ev.raw) THEN TRUE ELSE Flag("P09-identity-request"))
                       /\ st' = Set(Ev.conn, [r EXCEPT !.stage = 2])
             ELSE /\ (IF r.vetted THEN TRUE ELSE Flag("P09-command-on-unvetted-connection"))
                  /\ st' = st
       /\ UNCHANGED <<cfg, sc, incall, healthyClosed>>

\* what the terminal sends decides vetting (handshake answers) and late replies taint
TTx == /\ Ev.e = "tx"
       /\ LET r == Conn(Ev.conn)
              late == "after_ms" \in DOMAIN Ev /\ Ev.after_ms >= 1000 * (IF incall.op = "read_card" THEN cfg.timeout + cfg.rcm ELSE cfg.ppt)
              r1 == IF late THEN [r EXCEPT !.tainted = TRUE] ELSE r IN
          IF r.stage = 2 /\ ~r.vetted /\ ~r.wrong /\ Ev.pos = 1 /\ Ev.kind = "Completion"
          THEN LET d == DecPacket("feig_CVendFunctionsEnhancedSystemInformationCompletion", Ev.raw) IN
               IF d.ok /\ Lower(d.val.device_id) = Lower(cfg.serial) /\ r.regOk
               THEN st' = Set(Ev.conn, [r1 EXCEPT !.vetted = TRUE])
               ELSE st' = Set(Ev.conn, [r1 EXCEPT !.wrong = TRUE])
          ELSE IF r.stage = 2 /\ ~r.vetted /\ Ev.pos = 1 /\ Ev.kind # "Completion" THEN st' = Set(Ev.conn, [r1 EXCEPT !.wrong = TRUE])
          \* the registration itself must be answered by a completion: a terminal that refuses it is not registered with
          ELSE IF r.stage = 1 /\ Ev.pos = 1 /\ Ev.kind # "Completion" THEN st' = Set(Ev.conn, [r1 EXCEPT !.regOk = FALSE])
          ELSE st' = Set(Ev.conn, r1)
       /\ UNCHANGED <<cfg, sc, incall, healthyClosed>>

TFault == /\ Ev.e \in {"fault", "abandoned"}
          /\ st' = Set(Ev.conn, [Conn(Ev.conn) EXCEPT !.tainted = TRUE])
          /\ UNCHANGED <<cfg, sc, incall, healthyClosed>>

TCall == /\ Ev.e = "call" /\ incall' = [op |-> Ev.op, t0 |-> Ev.t] /\ UNCHANGED <<cfg, sc, st, healthyClosed>>

\* C10: the call returned; for the time-out scenario of read_card the first attempt must have received the terminal's answer
TRet == /\ Ev.e = "ret"
        /\ (IF cfg.tag = "nocollapse" /\ incall.op = "read_card" /\ ~(~Ev.ok /\ Ev.err.class = "NoCardPresented")
            THEN Flag("P10-timeout-collapsed") ELSE TRUE)
        /\ (IF Ev.t - incall.t0 > 86400000 THEN Flag("P10-unbounded") ELSE TRUE)
        /\ incall' = [op |-> "", t0 |-> 0] /\ UNCHANGED <<cfg, sc, st, healthyClosed>>
TAbnormal == /\ Ev.e \in {"hang", "panic"}
             /\ Flag(IF Ev.e = "hang" THEN "P10-call-does-not-return" ELSE "P10-panic")
             /\ incall' = [op |-> "", t0 |-> 0] /\ UNCHANGED <<cfg, sc, st, healthyClosed>>

Handled == Ev.e \in {"reset", "constructed", "open", "close", "rx", "tx", "fault", "abandoned", "call", "ret", "hang", "panic"}
TSkip == ~Handled /\ UNCHANGED <<cfg, sc, st, incall, healthyClosed>>

TNext == l <= Len(Trc) /\ l' = l + 1 /\ (TReset \/ TConstructed \/ TOpen \/ TClose \/ TRx \/ TTx \/ TFault \/ TCall \/ TRet \/ TAbnormal \/ TSkip)
Finished == LET d == TLCGet("stats").diameter IN d - 1 = Len(Trc) \/ (PrintT(<<"STOPPED-AT", d>>) /\ FALSE)
=============================================================================
