----------------------------- MODULE MC_TxnMapInd -----------------------------
(* C07 on the abstract token map for behaviours of any length: WithinMax,      *)
(* OneToOne and OnTheBooks as an inductive invariant of TxnMap, discharged by   *)
(* Apalache (Init => IndInv at length 0, IndInv /\ Next => IndInv' at length    *)
(* 1).  Tokens are an uninterpreted sort; scope: at most 5 tokens in the map    *)
(* and 8 receipt numbers in the arbitrary pre-state (Gen).                      *)
EXTENDS TxnMap, Apalache

ConstInit == Tokens = Gen(5) /\ Receipts = Gen(8)

IndInv == /\ WithinMax /\ OneToOne /\ OnTheBooks
          /\ DOMAIN open \subseteq Tokens /\ issued \subseteq Receipts /\ max >= 0

IndInit == open = Gen(5) /\ issued = Gen(8) /\ max \in Nat /\ IndInv

\* sanity (must be violated): the arbitrary pre-state is not confined to the empty map
NotVacuous == DOMAIN open = {}
=============================================================================
