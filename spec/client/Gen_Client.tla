------------------------------- MODULE Gen_Client -------------------------------
(* spec -> impl scenario generators for the client layer.  Each case is a      *)
(* state; the scenario (configuration, calls, the terminal's plan) is printed  *)
(* once as JSON.  What the real client must do with it is decided afterwards   *)
(* by TraceClient against FeigClient and the P-specs.                          *)
(*   C08  boundary grid of pre-authorised amount x final amount x currency x   *)
(*        receipt number x token x status fields                               *)
(*   C18  read_card: UID lengths 0..20 x zero-prefix patterns x case x         *)
(*        application-list shapes x leading intermediate statuses; 256 aborts  *)
(*   C20  every abort code x every operation x every exchange of it x 0..2     *)
(*        packets before the abort                                             *)
EXTENDS FeigClient, Json, IOUtils

Mode == IOEnv.GEN_MODE
\* the implementation's time constants in seconds, measured by the driver: per-packet timeout and read_card margin
Ppt == IF "GEN_PPT" \in DOMAIN IOEnv THEN atoi(IOEnv.GEN_PPT) ELSE 60
Rcm == IF "GEN_RCM" \in DOMAIN IOEnv THEN atoi(IOEnv.GEN_RCM) ELSE 2
Thorough == IF "GEN_THOROUGH" \in DOMAIN IOEnv THEN IOEnv.GEN_THOROUGH = "1" ELSE FALSE
SetSeq(XS) == SetToSeq(XS)

P10(k) == <<1>> \o Rep(0, k)
N9(k) == Rep(9, k)
Inc(d) == DMulAdd(d, 1, 1)
Dec1(d) == IF d = <<>> THEN <<>> ELSE DSub(d, <<1>>)
U32 == <<4, 2, 9, 4, 9, 6, 7, 2, 9, 5>>
U63 == <<9, 2, 2, 3, 3, 7, 2, 0, 3, 6, 8, 5, 4, 7, 7, 5, 8, 0, 7>>
U64 == DMaxU(8)

BaseCfg == [pre |-> <<2, 5, 0, 0>>, currency |-> 978, password |-> 123456, max |-> 1, read_card_timeout |-> 15,
            serial |-> "17FD1E3C", terminal_id |-> "52523535"]

(* ------------------------------------------------------------------ C08 *)
Pres == {<<>>, <<1>>, <<2, 5, 0, 0>>, N9(12), P10(11), N9(6), P10(6), <<9>>, <<1, 0>>} \cup (IF Thorough THEN {N9(k) : k \in 1..12} \cup {P10(k) : k \in 0..11} ELSE {})
FinalsFor(p) == {<<>>, Dec1(p), p, Inc(p), U32, Inc(U32), Inc(U63), U64, <<1>>} \cup (IF Thorough THEN {N9(k) : k \in 1..19} ELSE {})
Currencies == {752, 826, 978}
Receipts == {1, 9, 10, 99, 100, 231, 999, 1000, 9999}
\* (the long ones put the reservation / the release on both sides of the 254 / 255 byte APDU length switch)
Toks == {<<97>>, <<65, 67>>, <<255, 1, 128>>, Ascii(40, 3), <<32>>, Ascii(7, 50), Ascii(225, 11), Ascii(228, 11)}
Statuses == {[amount |-> <<2, 5, 0, 0>>, trace |-> <<9, 7, 5>>, date |-> <<4, 5>>, time |-> <<2, 2, 5, 5, 5, 8>>, terminal_id |-> <<5, 2, 5, 2, 3, 5, 3, 5>>],
             [amount |-> <<>>, trace |-> <<>>, date |-> <<1>>, time |-> <<5>>, terminal_id |-> <<7>>],
             [amount |-> N9(12), trace |-> N9(6), date |-> <<1, 2, 3, 1>>, time |-> <<2, 3, 5, 9, 5, 9>>, terminal_id |-> N9(8)],
             [trace |-> <<1>>]}
C08Cases ==
  LET full == {<<p, f, 978, 231, <<97>>, 1>> : p \in Pres, f \in UNION {FinalsFor(q) : q \in Pres}}
      grid == {<<p, f, cu, r, t, s>> \in Pres \X {<<>>, <<1>>, U64} \X Currencies \X Receipts \X Toks \X (1..4) :
                 (cu = 978 /\ r = 231 /\ t = <<97>>) \/ (p = <<2, 5, 0, 0>> /\ f = <<1>>)} IN
  SetSeq({x \in full \cup grid : x[2] \in FinalsFor(x[1]) \/ x \in grid})
\* the reservation's reply shapes rotate over the grid: one status with the receipt; an earlier / a later status without it;
\* two statuses with different receipt numbers (the last one is the reservation's)
ResShape(x) ==
  LET k == (x[4] + x[6] + Len(x[1]) + Len(x[2])) % 4 IN
  CASE k = 0 -> [o |-> "ok", receipt |-> x[4]]
    [] k = 1 -> [o |-> "ok", receipt |-> x[4], early_status |-> TRUE]
    [] k = 2 -> [o |-> "ok", receipt |-> x[4], late_status |-> TRUE]
    [] OTHER -> [o |-> "ok", receipt |-> x[4], two_receipts |-> TRUE]
\* reference tokens of every length around the one-byte / two-byte TLV length switch of the reference container and around the
\* short / extended APDU length switch of the request
LongTokCases == SetSeq({<<<<2, 5, 0, 0>>, <<1>>, 978, 231, Ascii(n, 11), 1>> : n \in (100..140) \cup (218..232)})
\* what the terminal reports in the status information of the reservation has no say in what is released: every boundary value of
\* every field of the status information (its TLV container included), each with the receipt number the release must name
StatusVals == Values("StatusInformation")
C08StatusCases == [k \in 1..Len(StatusVals) |-> <<"status", k>>]
C08StatusScenario(k) ==
  LET v == [StatusVals[k] EXCEPT !.receipt_no = <<D(231)>>] IN
  [config |-> BaseCfg, term |-> [next_receipt |-> 231],
   calls |-> << [op |-> "begin", token |-> <<97>>, amount |-> <<>>], [op |-> "commit", token |-> <<97>>, amount |-> <<8, 3, 3>>] >>,
   plan |-> [exchanges |-> << [script |-> << EncPacket("StatusInformation", v), EncPacket("CompletionData", MinVal("CompletionData")) >>],
                              [o |-> "ok", status |-> [amount |-> <<1>>]] >>]]
C08Scenario(x) ==
  IF Len(x) = 2 THEN C08StatusScenario(x[2]) ELSE
  LET st == SetSeq(Statuses)[x[6]] IN
  [config |-> [BaseCfg EXCEPT !.pre = x[1], !.currency = x[3]],
   term |-> [next_receipt |-> x[4]],
   calls |-> << [op |-> "begin", token |-> x[5], amount |-> <<>>], [op |-> "commit", token |-> x[5], amount |-> x[2]] >>,
   plan |-> [exchanges |-> << ResShape(x), [o |-> "ok", status |-> st] >>]]

(* ------------------------------------------------------------------ C18 *)
UidLens == 0..20
UidPattern(n, k) == CASE k = 1 -> Pat(n, 17, 31)                               \* arbitrary bytes
                      [] k = 2 -> [i \in 1..n |-> IF i <= n - 4 THEN 0 ELSE 160 + i]     \* leading zeros, four significant bytes
                      [] k = 3 -> [i \in 1..n |-> IF i <= 3 THEN 0 ELSE 171]             \* three leading zero bytes = 000000
                      [] k = 4 -> Rep(0, n)
                      [] k = 5 -> [i \in 1..n |-> IF i % 2 = 0 THEN 0 ELSE 250]
Aid == <<160, 0, 0, 0, 4, 16, 16>>
SubsShapes == << <<>>, << [aid |-> Aid] >>, << [x |-> 0] >>, << [x |-> 0], [aid |-> Aid] >>, << [aid |-> Aid], [x |-> 0] >>, << [card_type |-> <<254, 4>>] >> >>
C18Cases == SetSeq({[k |-> "uid", n |-> n, p |-> p, sh |-> sh, i |-> i, code |-> 0] : <<n, p, sh, i>> \in
                        {y \in UidLens \X (1..5) \X (1..Len(SubsShapes)) \X (0..3) : (y[4] = 0 \/ (y[2] = 1 /\ y[3] <= 2)) /\ (y[1] > 0 \/ y[2] = 1)}})
            \o SetSeq({[k |-> "nouid", n |-> 0, p |-> 0, sh |-> sh, i |-> i, code |-> 0] : sh \in 1..Len(SubsShapes), i \in 0..1})
            \o << [k |-> "notlv", n |-> 0, p |-> 0, sh |-> 0, i |-> 0, code |-> 0] >>
            \o SetSeq({[k |-> "abort", n |-> 0, p |-> 0, sh |-> 0, i |-> i, code |-> code] : code \in 0..255, i \in {0, 2}})
C18Scenario(x) ==
  LET pl == IF x.k = "notlv" THEN [o |-> "status", notlv |-> TRUE]
            ELSE IF x.k = "abort" THEN [o |-> "abort", code |-> x.code, inter |-> x.i]
            ELSE IF x.k = "nouid" THEN [o |-> "status", subs |-> SubsShapes[x.sh], inter |-> x.i]
            ELSE [o |-> "status", uid |-> UidPattern(x.n, x.p), subs |-> SubsShapes[x.sh], inter |-> x.i] IN
  [config |-> BaseCfg, term |-> [next_receipt |-> 1], calls |-> << [op |-> "read_card", token |-> <<>>, amount |-> <<>>] >>,
   plan |-> [exchanges |-> <<pl>>]]

(* ------------------------------------------------------------------ C20 *)
\* operation, the calls that set it up, the terminal's initial dangling receipts, and how many exchanges the operation performs
Ops == << [name |-> "read_card", pre |-> <<>>, dang |-> <<>>, n |-> 1, tid |-> "52523535"],
          [name |-> "begin", pre |-> <<>>, dang |-> <<>>, n |-> 1, tid |-> "52523535"],
          [name |-> "commit", pre |-> <<"begin">>, dang |-> <<>>, n |-> 3, tid |-> "52523535"],
          [name |-> "commit", pre |-> <<"begin">>, dang |-> <<77>>, n |-> 4, tid |-> "52523535"],
          [name |-> "cancel", pre |-> <<"begin">>, dang |-> <<>>, n |-> 3, tid |-> "52523535"],
          [name |-> "cancel", pre |-> <<"begin">>, dang |-> <<77>>, n |-> 4, tid |-> "52523535"],
          [name |-> "configure", pre |-> <<>>, dang |-> <<>>, n |-> 4, tid |-> "52523535"],
          [name |-> "configure", pre |-> <<>>, dang |-> <<77>>, n |-> 6, tid |-> "11112222"] >>
\* one-shot exchanges (system information, set terminal id) and the pending query have no intermediate packets in their reply set / regular answer
NoInter(o, e) == \/ Ops[o].name = "configure" /\ (e = 1 \/ (Ops[o].tid # "52523535" /\ e = 2))
                 \/ (Ops[o].name \in {"commit", "cancel"} /\ e = 2)
                 \/ (Ops[o].name = "configure" /\ e = (IF Ops[o].tid # "52523535" THEN 4 ELSE 3))
\* exchanges whose reply set has a status information that may precede the final packet: reservation, the reversals, end of day
StatusOk(o, e) == \/ (Ops[o].name \in {"begin", "commit", "cancel"} /\ ~NoInter(o, e))
                  \/ (Ops[o].name = "configure" /\ (e = Ops[o].n \/ (Ops[o].dang # <<>> /\ e = Ops[o].n - 1)))
Codes == IF Thorough THEN 0..255 ELSE {0, 1, 100, 108, 119, 131, 160, 180, 181, 183, 184, 252, 255} \cup {c \in 0..255 : c % 16 = 5}
\* i = 0..2 intermediate statuses in front of the abort; i = 3: a status information in front of it
\* i = 4 / 5: the abort names a receipt number (06 1E 04 cc 87 rr rr): 8 / the "none" marker FFFF
\* the plain abort (i = 0) runs over all 256 codes in every exchange of every operation; the other reply shapes over Codes
C20Cases == SetSeq({<<o, e, code, i>> \in (1..Len(Ops)) \X (1..6) \X (0..255) \X (0..5) :
                      e <= Ops[o].n /\ (i = 0 \/ (i \in {1, 2} /\ code \in {108, 160, 183, 252} /\ ~NoInter(o, e))
                                              \/ (i \in {3, 4, 5} /\ code \in Codes /\ StatusOk(o, e)))})
\* i = 6 / 7: the connection is closed at frame 0 / 1 of the exchange and the terminal aborts the re-sent request with the code
RetryCodes == {5, 108, 160, 180, 183, 252}
C20Retry == SetSeq({<<o, e, code, i>> \in (1..Len(Ops)) \X (1..6) \X RetryCodes \X {6, 7} : e <= Ops[o].n})
C20Scenario(x) ==
  LET op == Ops[x[1]]
      setup == [k \in 1..Len(op.pre) |-> [op |-> op.pre[k], token |-> <<97>>, amount |-> <<>>]]
      okp == [o |-> "ok", status |-> [amount |-> <<1>>]]
      pl0 == [k \in 1..(Len(op.pre) + op.n) |->
               IF k = Len(op.pre) + x[2]
               THEN (IF x[4] = 3 THEN [o |-> "abort", code |-> x[3], inter |-> 0, status_first |-> TRUE, status |-> [amount |-> <<1>>]]
                     ELSE IF x[4] = 4 THEN [o |-> "abort", code |-> x[3], inter |-> 0, abort_receipt |-> 8]
                     ELSE IF x[4] = 5 THEN [o |-> "abort", code |-> x[3], inter |-> 0, abort_receipt |-> 65535]
                     ELSE [o |-> "abort", code |-> x[3], inter |-> x[4]])
               ELSE okp]
      plr == [k \in 1..(Len(op.pre) + x[2] - 1) |-> okp]
             \o << [o |-> "ok", status |-> [amount |-> <<1>>], uid |-> <<1, 2, 3, 4>>, fault |-> [pos |-> x[4] - 6, kind |-> "close"]],
                   [o |-> "abort", code |-> x[3]] >>
             \o [k \in 1..(op.n + 3) |-> okp]
      pl == IF x[4] >= 6 THEN plr ELSE pl0 IN
  [config |-> [BaseCfg EXCEPT !.terminal_id = op.tid], term |-> [next_receipt |-> 1, dangling |-> op.dang],
   calls |-> setup \o << [op |-> op.name, token |-> <<97>>, amount |-> <<1>>] >>,
   plan |-> [exchanges |-> pl]]

(* ------------------------------------------------------------------ C09 / C10: faults and stalls *)
\* per operation: the kinds of its exchanges (frames after the acknowledgement: 2 for exchanges answered by status + completion)
FOps == << [name |-> "read_card", pre |-> <<>>, frames |-> <<1>>, tid |-> "52523535"],
           [name |-> "begin", pre |-> <<>>, frames |-> <<2>>, tid |-> "52523535"],
           [name |-> "commit", pre |-> <<"begin">>, frames |-> <<2, 1, 1>>, tid |-> "52523535"],
           [name |-> "cancel", pre |-> <<"begin">>, frames |-> <<1, 1, 1>>, tid |-> "52523535"],
           [name |-> "configure", pre |-> <<>>, frames |-> <<1, 1, 1, 1, 1>>, tid |-> "11112222"] >>
OkPlan == [o |-> "ok", status |-> [amount |-> <<1>>], uid |-> <<1, 2, 3, 4>>]
\* write_error: a write of the client fails once - of the command (position 0) or of its acknowledgement of reply p (position p)
FaultKinds == IF Mode = "C10" THEN {"silence", "partial"} ELSE {"close", "garbage", "malformed", "partial", "partial_close", "nack", "silence", "write_error"}
\* faults in the handshake of a fresh connection
HsFaults == (IF Mode = "C10" THEN {} ELSE {[connect |-> "refused"], [sysinfo |-> [serial |-> "DEADBEEF"]],
                                           [sysinfo |-> [serial |-> "17FD1E3D"]], [sysinfo |-> [serial |-> "27FD1E3C"]],
                                           [sysinfo |-> [serial |-> "17FD1E3"]], [sysinfo |-> [serial |-> "7FD1E3C"]]}
                                          \* the terminal refuses to register / to identify itself
                                          \cup {[sysinfo |-> [o |-> "abort", code |-> c]] : c \in {0, 108, 131, 160, 255}}
                                          \cup {[registration |-> [o |-> "abort", code |-> c]] : c \in {0, 131}}
                                          \* the registration completion reports terminal id and currency; the serial number still decides
                                          \cup {[registration |-> [rich |-> TRUE]], [registration |-> [rich |-> TRUE], sysinfo |-> [serial |-> "DEADBEEF"]],
                                                 [registration |-> [rich |-> TRUE, terminal_id |-> "11112222"], sysinfo |-> [serial |-> "2B00C0DE"]]})
            \cup {[connect |-> "stall"]}
            \cup {[registration |-> [fault |-> [pos |-> p, kind |-> k]]] : p \in 0..1, k \in FaultKinds}
            \cup {[sysinfo |-> [fault |-> [pos |-> p, kind |-> k]]] : p \in 0..1, k \in FaultKinds}
Timeouts == IF Mode = "C10" THEN (IF Thorough THEN 0..255 ELSE {0, 1, 15, 253, 254, 255}) ELSE {15}
FaultCases ==
  SetSeq({[k |-> "hs", op |-> z[1], hs |-> z[2], e |-> 0, p |-> 0, kind |-> "", to |-> z[3]] :
            z \in {w \in (1..Len(FOps)) \X HsFaults \X Timeouts : FOps[w[1]].name = "read_card" \/ w[3] = 15}})
  \o SetSeq({[k |-> "ex", op |-> x[1], hs |-> [connect |-> "ok"], e |-> x[2], p |-> x[3], kind |-> x[4], to |-> x[5]] :
              x \in {y \in (1..Len(FOps)) \X (1..5) \X (0..2) \X FaultKinds \X Timeouts :
                       y[2] <= Len(FOps[y[1]].frames) /\ y[3] <= FOps[y[1]].frames[y[2]] /\ (FOps[y[1]].name = "read_card" \/ y[5] = 15)}})
  \o (IF Mode = "C10" THEN SetSeq({[k |-> "nocollapse", op |-> 1, hs |-> [connect |-> "ok"], e |-> 1, p |-> 1, kind |-> "", to |-> t] : t \in Timeouts})
       ELSE <<>>)
  \* a reply that arrives one second before / after the per-packet timeout, in every exchange of every operation
  \o SetSeq({[k |-> x[3], op |-> x[1], hs |-> [connect |-> "ok"], e |-> x[2], p |-> 1, kind |-> "", to |-> 15] :
              x \in {y \in (1..Len(FOps)) \X (1..5) \X {"ontime", "ontimesplit", "late"} : y[2] <= Len(FOps[y[1]].frames)}})
FaultScenario(x) ==
  LET op == FOps[x.op]
      setup == [i \in 1..Len(op.pre) |-> [op |-> op.pre[i], token |-> <<97>>, amount |-> <<>>]]
      n == Len(op.frames)
      pl == IF x.k = "ex"
            THEN [i \in 1..Len(op.pre) |-> OkPlan] \o [i \in 1..(x.e - 1) |-> OkPlan]
                 \o << [o |-> "ok", status |-> [amount |-> <<1>>], uid |-> <<1, 2, 3, 4>>, fault |-> [pos |-> x.p, kind |-> x.kind]] >>
                 \o [i \in 1..(n + 3) |-> OkPlan]
            ELSE IF x.k = "nocollapse" THEN << [o |-> "abort", code |-> 108, delay_ms |-> 1000 * x.to] >>
            ELSE IF x.k \in {"ontime", "ontimesplit", "late"}
            THEN LET limit == IF op.name = "read_card" THEN 1000 * (x.to + Rcm) ELSE 1000 * Ppt IN
                 [i \in 1..Len(op.pre) |-> OkPlan] \o [i \in 1..(x.e - 1) |-> OkPlan]
                 \o << [o |-> "ok", status |-> [amount |-> <<1>>], uid |-> <<1, 2, 3, 4>>,
                         delay_ms |-> IF x.k = "late" THEN limit + 1000 ELSE limit - 1000, split |-> x.k = "ontimesplit"] >>
                 \o [i \in 1..(n + 3) |-> OkPlan]
            ELSE [i \in 1..(Len(op.pre) + n + 3) |-> OkPlan] IN
  [config |-> [BaseCfg EXCEPT !.terminal_id = op.tid, !.read_card_timeout = x.to],
   tag |-> IF x.k \in {"nocollapse", "ontime", "late"} THEN x.k ELSE IF x.k = "ontimesplit" THEN "ontime" ELSE "",
   start |-> IF x.k = "hs" THEN "disconnected" ELSE "connected",
   term |-> [next_receipt |-> 1],
   calls |-> setup \o << [op |-> op.name, token |-> <<97>>, amount |-> <<1>>] >>
             \o (IF x.k = "nocollapse" THEN <<>> ELSE << [op |-> "read_card", token |-> <<>>, amount |-> <<>>] >>),
   plan |-> [exchanges |-> pl, handshake |-> IF x.k = "hs" THEN <<x.hs>> ELSE <<>>,
             default |-> OkPlan]]

Cases == CASE Mode = "C08" -> C08Cases \o LongTokCases \o C08StatusCases [] Mode = "C18" -> C18Cases [] Mode = "C20" -> C20Cases \o C20Retry [] Mode \in {"C09", "C10"} -> FaultCases
AllCases == SubSeq(Cases, 1, Len(Cases))
ScenarioOf(x) == CASE Mode = "C08" -> C08Scenario(x) [] Mode = "C18" -> C18Scenario(x) [] Mode = "C20" -> C20Scenario(x)
                   [] Mode \in {"C09", "C10"} -> FaultScenario(x)

VARIABLE g
GStride == 16
GInit == \E i0 \in 1..GStride : i0 <= Len(AllCases) /\ g = i0
GNext == g + GStride <= Len(AllCases) /\ g' = g + GStride
GEmit == PrintT(<<"CASE", ToJson(ScenarioOf(AllCases[g]))>>)
=============================================================================
