------------------------------ MODULE TraceParse ------------------------------
(* impl -> spec for C15 (and the reply parsers' part of C02).                *)
(* SWEEP: one line per reply parser with the outcome of the real zvt_parse   *)
(* on all 65,536 control fields x four bodies (harness: parse-sweep) - the   *)
(* outcomes other than WrongTag(0) are listed in full, the rest counted.     *)
(* RUN: explicit cases (harness: parse-run).                                 *)
EXTENDS ZvtParse, TLC, Json, IOUtils, FiniteSets

Mode == IOEnv.PARSE_MODE
Lines == ndJsonDeserialize(IOEnv.PARSE_TRACE)

VARIABLE i
Init == i \in 1..Len(Lines)
Next == UNCHANGED i

SameKind(a, b) == a = b \/ (a = "Overflow" /\ b \in {"Incomplete", "NonImplemented"})

\* flags of one observed parser call against the reference
CallFlags(e, o) ==
  IF o.st \notin {"ok", "err"} THEN {"total"}
  ELSE LET r == ParseEnum(e, o.in) IN
       IF r.ok /\ o.st = "ok" THEN
            (IF o.variant = r.variant THEN {} ELSE {"variant"})
            \cup (IF o.variant = r.variant /\ o.val # ObsStruct(TypeOfVariant(e, r.variant), r.val) THEN {"content"} ELSE {})
       ELSE IF r.ok THEN {"ref-ok-impl-err"}
       ELSE IF o.st = "ok" THEN {"ref-err-impl-ok"}
       ELSE (IF SameKind(r.err, o.kind) /\ r.tags = o.tags THEN {} ELSE {"kind"})

SetCfs(e) == {ControlField(ReplySets[e][k].ty) : k \in 1..Len(ReplySets[e])}

SweepFlags(l) ==
  LET e == l.enum
      noted == {l.noted_cfs[k] : k \in 1..Len(l.noted_cfs)} IN
  (IF noted = SetCfs(e) THEN {} ELSE {<<"accepted-set", noted>>})
  \* every call on a control field outside the noted ones was rejected as WrongTag(0), every call on a noted one was not
  \cup (IF l.wrongtag0 = l.calls - l.inset_calls THEN {} ELSE {<<"outside-count", l.wrongtag0>>})
  \cup UNION {LET f == CallFlags(e, l.noted[k]) IN IF f = {} THEN {} ELSE {<<"call", k, f>>} : k \in 1..Len(l.noted)}
  \cup {<<"short", k>> : k \in {j \in 1..Len(l.short) : l.short[j].st # "err"}}

Judge == LET l == Lines[i] IN
         IF Mode = "sweep"
         THEN LET f == SweepFlags(l) IN f = {} \/ PrintT(<<"SWEEPFLAGS", i, ToJson(f)>>)
         ELSE LET f == CallFlags(l.enum, l) IN f = {} \/ PrintT(<<"FLAGS", i, ToJson(f)>>)

ASSUME NoAmbiguity
=============================================================================
