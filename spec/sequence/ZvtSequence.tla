------------------------------ MODULE ZvtSequence ------------------------------
(* L3: one command exchange, ECR side, against an arbitrary PT script.        *)
(*                                                                            *)
(* The PT script is a sequence of frames (concrete bytes; the last one may be *)
(* truncated, i.e. the connection ends inside it) queued on the connection.   *)
(* The exchange is deterministic given the script, so the I-spec is a step    *)
(* function Step(s) over a state record; the model-checking specification     *)
(* takes s' = Step(s), and trace validation runs the same Step to its end     *)
(* (Run) - one definition, used both ways.                                    *)
(*                                                                            *)
(* One step per critical step of the code:                                    *)
(*   WriteCommand  the request is written                                     *)
(*   ReadAck       the first frame must be the positive acknowledgement 80 00 *)
(*   ReadReply     a frame is read with the command's reply parser            *)
(*   Answer        it is answered: Ack, or the data block for a data request  *)
(*   Yield         it is handed to the caller                                 *)
(*   End           after the first final reply (or the only reply of a one-   *)
(*                 shot exchange) nothing further is read                     *)
(*   WriteFails    the connection refuses a write of the ECR: Fail              *)
(*   Fail          transport error / undecodable / unexpected frame: one Err  *)
(*                 item, nothing written, nothing further read                *)
(*                                                                            *)
(* Event log vocabulary (shared with the harness); every event is a record   *)
(* [e, a, v, n]:                                                              *)
(*   W("cmd") W("ack") W("data")   a complete frame written                   *)
(*   R(k)           frame k of the script completely consumed                 *)
(*   REof           the reader hit the end of the connection                  *)
(*   WFail          the connection refused a write of the ECR                 *)
(*   YOk(v) YErr    item handed to the caller (v = variant name)              *)
(*   End            the stream ended                                          *)
EXTENDS ZvtParse, TLC

Ev(e, a, v, n) == [e |-> e, a |-> a, v |-> v, n |-> n]
W(a) == Ev("w", a, "", 0)
R(k) == Ev("r", "", "", k)
REof == Ev("r_eof", "", "", 0)
WFail == Ev("w_fail", "", "", 0)      \* the connection refused a write of the ECR
YOk(v) == Ev("y", "ok", v, 0)
YErr == Ev("y", "err", "", 0)
End == Ev("end", "", "", 0)

\* ---- frames -----------------------------------------------------------------
Fr(bytes, trunc) == [bytes |-> bytes, trunc |-> trunc]

\* what reading frame f with reply parser p gives: a variant name, "transport" or "parse"
ReadResult(p, f) ==
  IF f.trunc THEN "transport"
  ELSE LET r == ParseEnum(p, f.bytes) IN IF r.ok THEN r.variant ELSE "parse"

SeqOf(cmd) == SequencesTable[cmd]

\* ---- firmware upload: is the data request answerable? (announced = set of file ids) ----------
ReqOf(f) == ParseEnum("WriteFileResponse", f.bytes).val
ReqFile(f) == ReqOf(f).tlv[1].file[1]
RequestValid(f, announced) ==
  LET q == ReqOf(f) IN
  /\ q.tlv # <<>> /\ q.tlv[1].file # <<>>
  /\ ReqFile(f).file_id # <<>> /\ ReqFile(f).file_offset # <<>>
  /\ DToInt(ReqFile(f).file_id[1]) \in announced

\* ---- the state --------------------------------------------------------------
\* s = [cmd, frames, next (index of the next frame to read), pc, log, announced]
\* wfail: the wfail-th frame the ECR tries to write (1 = the command, 2.. = its answers) cannot be written - the connection refuses
\* it (0 = every write succeeds)
StartW(cmd, frames, announced, wfail) ==
  [cmd |-> cmd, frames |-> frames, next |-> 1, pc |-> "start", log |-> <<>>, announced |-> announced, wfail |-> wfail]
Start(cmd, frames, announced) == StartW(cmd, frames, announced, 0)

Terminal(s) == s.pc = "done"

Log(s, evs) == [s EXCEPT !.log = @ \o evs]

\* a failed read: frame k consumed (if there was one), exactly one error, then the end; nothing is written
Fail(s, consumed) ==
  [Log(s, consumed \o <<YErr, End>>) EXCEPT !.pc = "done"]

\* frames written so far
NW(s) == Len(SelectSeq(s.log, LAMBDA e : e.e = "w"))
\* the next write is the one that fails: a transport error, one Err item, the end (WriteFails)
WriteFails(s) == s.wfail # 0 /\ NW(s) + 1 = s.wfail

Step(s) ==
  LET sq == SeqOf(s.cmd) IN
  CASE s.pc = "start" ->                                                     \* WriteCommand
         IF WriteFails(s) THEN Fail(s, <<WFail>>) ELSE
         [Log(s, <<W("cmd")>>) EXCEPT !.pc = "ack"]
    [] s.pc = "ack" ->                                                       \* ReadAck
         IF s.next > Len(s.frames) THEN Fail(s, <<REof>>)
         ELSE LET f == s.frames[s.next]
                  rr == ReadResult("Ack", f) IN
              IF rr = "Ack" THEN [Log(s, <<R(s.next)>>) EXCEPT !.pc = "read", !.next = @ + 1]
              ELSE IF rr = "transport" THEN [Fail(s, <<REof>>) EXCEPT !.next = @ + 1]
              ELSE [Fail(s, <<R(s.next)>>) EXCEPT !.next = @ + 1]
    [] s.pc = "read" ->                                                      \* ReadReply, Answer, Yield, End
         IF s.next > Len(s.frames) THEN Fail(s, <<REof>>)
         ELSE LET f == s.frames[s.next]
                  rr == ReadResult(sq.parser, f) IN
              IF rr = "transport" THEN [Fail(s, <<REof>>) EXCEPT !.next = @ + 1]
              ELSE IF rr = "parse" THEN [Fail(s, <<R(s.next)>>) EXCEPT !.next = @ + 1]
              ELSE IF s.cmd = "WriteFile" /\ rr = "RequestForData"
                   THEN IF ~RequestValid(f, s.announced) THEN [Fail(s, <<R(s.next)>>) EXCEPT !.next = @ + 1]       \* BadRequest
                        ELSE IF WriteFails(s) THEN [Fail(s, <<R(s.next), WFail>>) EXCEPT !.next = @ + 1]
                        ELSE [Log(s, <<R(s.next), W("data"), YOk(rr)>>) EXCEPT !.next = @ + 1]
              ELSE IF WriteFails(s) THEN [Fail(s, <<R(s.next), WFail>>) EXCEPT !.next = @ + 1]
              ELSE LET answered == Log(s, <<R(s.next), W("ack"), YOk(rr)>>) IN
                   IF rr \in sq.finals \/ ~sq.loop
                   THEN [Log(answered, <<End>>) EXCEPT !.pc = "done", !.next = @ + 1]
                   ELSE [answered EXCEPT !.next = @ + 1]
    [] OTHER -> s

RECURSIVE Run(_)
Run(s) == IF Terminal(s) THEN s ELSE Run(Step(s))

\* bytes still queued on the connection when the exchange is over
RECURSIVE BytesFrom(_, _)
BytesFrom(frames, k) == IF k > Len(frames) THEN 0 ELSE Len(frames[k].bytes) + BytesFrom(frames, k + 1)
Left(s) == BytesFrom(s.frames, s.next)

(* ======================================================================== *)
(* P-specs: predicates of the observable event log alone                     *)
(* ======================================================================== *)
Idx(log, Pred(_)) == {i \in 1..Len(log) : Pred(log[i])}
IsW(e) == e.e = "w"
IsR(e) == e.e = "r"
IsY(e) == e.e = "y"
IsEnd(e) == e.e = "end"
IsErr(e) == e.e = "y" /\ e.a = "err"
IsOk(e) == e.e = "y" /\ e.a = "ok"
IsRead(e) == e.e = "r" \/ e.e = "r_eof"

(* ---- P_C05 ---- *)
\* the command is written exactly once, and before anything is read
CmdOnceFirst(log) ==
  LET cmds == Idx(log, LAMBDA e : e = W("cmd")) IN
  /\ \A i, j \in cmds : i = j
  /\ \A i \in Idx(log, IsRead) : \E c \in cmds : c < i
\* every reply read (all reads but the first, the acknowledgement) is answered exactly once, before it is handed
\* over and before the next read; nothing else is written
AnswerDiscipline(log) ==
  LET reads == Idx(log, IsR)
      first == IF reads = {} THEN 0 ELSE CHOOSE i \in reads : \A j \in reads : i <= j
      answers == Idx(log, LAMBDA e : e.e = "w" /\ e.a # "cmd") IN
  \* each answer directly follows the read of a reply (not the acknowledgement), and a handed-over reply was answered just before
  /\ \A a \in answers : a > 1 /\ log[a - 1].e = "r" /\ a - 1 # first
  /\ \A y \in Idx(log, IsOk) : y > 2 /\ log[y - 1].e = "w" /\ log[y - 1].a # "cmd" /\ log[y - 2].e = "r"
\* replies are handed over in arrival order: the k-th item corresponds to the k-th reply frame read
InOrder(log) ==
  LET ys == Idx(log, IsOk) IN \A y1, y2 \in ys : y1 < y2 => log[y1 - 2].n < log[y2 - 2].n
\* after the first final reply (finals of the command; any reply for a one-shot exchange) nothing is read or written
StopAtFinal(log, cmd) ==
  LET sq == SeqOf(cmd)
      fin == {y \in Idx(log, IsOk) : log[y].v \in sq.finals \/ ~sq.loop} IN
  \A y \in fin : \A j \in (y + 1)..Len(log) : log[j] = End

(* ---- P_C06 ---- *)
OneError(log) == \A i, j \in Idx(log, IsErr) : i = j
\* the error is the last item, the stream then ends, and after the failing read nothing at all is written or read
ErrorThenSilence(log) ==
  \A i \in Idx(log, IsErr) : \A j \in (i + 1)..Len(log) : log[j] = End
\* a frame that could not be interpreted is never acknowledged: the error item directly follows the failing read
\* (or the write the connection refused)
NoAnswerForBadFrame(log) ==
  \A i \in Idx(log, IsErr) : i > 1 /\ (IsRead(log[i - 1]) \/ log[i - 1] = WFail)
\* the stream always ends, and ends once
EndsOnce(log) == \A i, j \in Idx(log, IsEnd) : i = j

P_C05(log, cmd) == CmdOnceFirst(log) /\ AnswerDiscipline(log) /\ InOrder(log) /\ StopAtFinal(log, cmd)
P_C06(log) == OneError(log) /\ ErrorThenSilence(log) /\ NoAnswerForBadFrame(log) /\ EndsOnce(log)
=============================================================================
