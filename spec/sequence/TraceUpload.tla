------------------------------ MODULE TraceUpload ------------------------------
(* impl -> spec for C11: records of real firmware uploads (harness:            *)
(* upload-run).  A record carries the payload directory as the harness built   *)
(* it (recognised files with path, size and - up to 4 KiB - content; unrelated *)
(* files), the block size, the PT's script, the observed event log and the     *)
(* frames the code wrote: the announcement and every data block (as bytes, or  *)
(* for large blocks as the decoded header plus the harness's comparison of the *)
(* payload with its own copy of the file).                                     *)
EXTENDS WriteFile, Json, IOUtils, FiniteSets

Recs == ndJsonDeserialize(IOEnv.UPLOAD_TRACE)
VARIABLE i
Init == i \in 1..Len(Recs)
Next == UNCHANGED i

FileIds(r) == {r.files[k].id : k \in 1..Len(r.files)}
FileOf(r, id) == r.files[CHOOSE k \in 1..Len(r.files) : r.files[k].id = id]

\* the announcement: exactly the recognised files present, with their true sizes, nothing else in the entries
ManifestOk(r) ==
  LET d == DecPacket("feig_WriteFile", r.announce) IN
  /\ d.ok /\ d.rest = <<>> /\ d.val.tlv # <<>>
  /\ LET fs == d.val.tlv[1].files IN
     /\ Len(fs) = Cardinality(FileIds(r))
     /\ \A k \in 1..Len(fs) :
          /\ fs[k].file_id # <<>> /\ fs[k].file_size # <<>> /\ fs[k].file_offset = <<>> /\ fs[k].payload = <<>>
          /\ DToInt(fs[k].file_id[1]) \in FileIds(r)
          /\ fs[k].file_size[1] = DFromInt(FileOf(r, DToInt(fs[k].file_id[1])).size)
     /\ \A a, b \in 1..Len(fs) : a # b => fs[a].file_id # fs[b].file_id
  \* every announced id belongs to the recognised path it was found under
  /\ \A k \in 1..Len(r.files) : IdOfPath(r.files[k].path) = r.files[k].id

\* the j-th data block written answers the j-th answerable request: same id, same offset, exactly the file's bytes
BlockOk(r, req, blk) ==
  LET q == ReqFile(req)
      id == DToInt(q.file_id[1])
      off == q.file_offset[1]
      f == FileOf(r, id) IN
  IF "bytes" \in DOMAIN blk /\ blk.bytes # <<>>
  THEN LET d == DecPacket("feig_WriteData", blk.bytes) IN
       /\ d.ok /\ d.rest = <<>> /\ d.val.tlv # <<>> /\ d.val.tlv[1].file # <<>>
       /\ LET a == d.val.tlv[1].file[1] IN
          /\ a.file_id = q.file_id /\ a.file_offset = q.file_offset /\ a.file_size = <<>>
          /\ LET want == IF Len(off) > 9 THEN <<>> ELSE Slice(f.content, DToInt(off), r.block) IN
             a.payload = (IF want = <<>> THEN <<>> ELSE <<want>>)
  ELSE \* large block: header as decoded by the harness, payload compared by the harness with its own copy
       /\ blk.id = id /\ blk.off = off
       /\ blk.len = (IF Len(off) > 9 THEN 0 ELSE SliceLen(f.size, DToInt(off), r.block))
       /\ blk.same = TRUE

Flags(r) ==
  IF r.note # "" THEN {"abnormal:" \o r.note}
  ELSE LET announced == FileIds(r)
           exp == Run(Start("WriteFile", r.frames, announced))
           reqs == ValidRequests(r.frames, announced, exp.next - 1)
           blocks == r.blocks IN
       (IF r.obs = exp.log /\ r.obs_left = Left(exp) THEN {} ELSE {"differs"})
       \cup (IF ManifestOk(r) THEN {} ELSE {"P11-manifest"})
       \cup (IF Len(blocks) = Len(reqs) THEN {} ELSE {"P11-block-count"})
       \cup (IF Len(blocks) = Len(reqs) /\ \A j \in 1..Len(reqs) : BlockOk(r, r.frames[reqs[j]], blocks[j]) THEN {} ELSE {"P11-block"})
       \* a request that cannot be answered ends the upload with an error instead of data
       \cup (IF Cardinality(Idx(r.obs, IsErr)) = Cardinality(Idx(exp.log, IsErr)) THEN {} ELSE {"P11-error"})
       \cup (IF P_C06(r.obs) THEN {} ELSE {"P11-silence"})

Judge == LET f == Flags(Recs[i]) IN f = {} \/ PrintT(<<"FLAGS", i, ToJson(f)>>)
=============================================================================
