------------------------------ MODULE TraceUpload ------------------------------
(* impl -> spec for C11: records of real firmware uploads (harness:            *)
(* upload-run).  A record carries the payload directory as the harness built   *)
(* it (recognised files with path, size and - up to 4 KiB - content; unrelated *)
(* files), the block size, the PT's script, the observed event log and the     *)
(* frames the code wrote: the announcement and every data block (as bytes, or  *)
(* for large blocks as the decoded header plus the harness's comparison of the *)
(* payload with its own copy of the file).                                     *)
EXTENDS WriteFile, Json, IOUtils, FiniteSets

Recs == ndJsonDeserialize(IOEnv.UPLOAD_TRACE)
VARIABLE i
Init == i \in 1..Len(Recs)
Next == UNCHANGED i

Flags(r) ==
  IF r.note # "" THEN {"abnormal:" \o r.note}
  ELSE LET announced == FileIds(r)
           exp == Run(Start("WriteFile", r.frames, announced))
           reqs == ValidRequests(r.frames, announced, exp.next - 1)
           blocks == r.blocks IN
       (IF r.obs = exp.log /\ r.obs_left = Left(exp) THEN {} ELSE {"differs"})
       \cup (IF ManifestOk(r) THEN {} ELSE {"P11-manifest"})
       \cup (IF Len(blocks) = Len(reqs) THEN {} ELSE {"P11-block-count"})
       \cup (IF Len(blocks) = Len(reqs) /\ \A j \in 1..Len(reqs) : BlockOk(r, r.frames[reqs[j]], blocks[j]) THEN {} ELSE {"P11-block"})
       \* a request that cannot be answered ends the upload with an error instead of data
       \cup (IF Cardinality(Idx(r.obs, IsErr)) = Cardinality(Idx(exp.log, IsErr)) THEN {} ELSE {"P11-error"})
       \cup (IF P_C06(r.obs) THEN {} ELSE {"P11-silence"})

Judge == LET f == Flags(Recs[i]) IN f = {} \/ PrintT(<<"FLAGS", i, ToJson(f)>>)
=============================================================================
