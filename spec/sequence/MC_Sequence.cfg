INIT Init
NEXT Next
INVARIANT C05
INVARIANT C06
INVARIANT Delivers
INVARIANT FaultsFail
INVARIANT Emit
