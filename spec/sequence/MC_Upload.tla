------------------------------- MODULE MC_Upload -------------------------------
(* C11 on the specification: the block arithmetic of the firmware upload.      *)
(* Every (file content, block size, offset) is a state.                        *)
EXTENDS WriteFile, TLC

Contents == UNION {[1..n -> {1, 2}] : n \in 0..4}
VARIABLE c    \* [content, block, off]
Init == \E ct \in Contents, b \in 1..4, o \in 0..6 : c = [content |-> ct, block |-> b, off |-> o]
Next == UNCHANGED c

\* a block never exceeds the configured size, lies inside the file, and is empty exactly at or behind the end
BlockShape ==
  LET s == Slice(c.content, c.off, c.block) IN
  /\ Len(s) <= c.block /\ Len(s) = SliceLen(Len(c.content), c.off, c.block)
  /\ (s = <<>>) = (c.off >= Len(c.content))
  /\ \A k \in 1..Len(s) : s[k] = c.content[c.off + k]

\* requesting offsets 0, block, 2*block, ... until an empty block reconstructs the file bit for bit
RECURSIVE Download(_, _, _)
Download(ct, b, o) == LET s == Slice(ct, o, b) IN IF s = <<>> THEN <<>> ELSE s \o Download(ct, b, o + b)
Reconstructs == Download(c.content, c.block, 0) = c.content

\* the id table is a bijection between the 21 recognised paths and their ids
ASSUME \A a, b \in 1..Len(PathIds) : a # b => PathIds[a][1] # PathIds[b][1] /\ PathIds[a][2] # PathIds[b][2]
ASSUME Len(PathIds) = 21 /\ IdOfPath("README.txt") = 0
=============================================================================
