------------------------------ MODULE Gen_Replies ------------------------------
(* Exports the reply tables as JSON for the harness's random script generator  *)
(* (an input source, not an oracle).                                           *)
EXTENDS ZvtReplies, TLC, Json, IOUtils
SeqJson == [n \in SequenceNames |-> [req |-> SequencesTable[n].req, parser |-> SequencesTable[n].parser,
                                     loop |-> SequencesTable[n].loop,
                                     finals |-> LET RECURSIVE H(_)
                                                    H(X) == IF X = {} THEN <<>> ELSE LET x == CHOOSE y \in X : TRUE IN <<x>> \o H(X \ {x})
                                                IN H(SequencesTable[n].finals)]]
ASSUME JsonSerialize(IOEnv.REPLIES_OUT, [replies |-> ReplySets, sequences |-> SeqJson])
VARIABLE x
Init == x = 0
Next == UNCHANGED x
=============================================================================
