------------------------------- MODULE ZvtParse -------------------------------
(* Reply dispatch: a received APDU is given to the variant whose packet type *)
(* owns its class and instruction bytes, and to nothing else.                *)
EXTENDS ZvtCodec, ZvtReplies

POk(variant, val) == [ok |-> TRUE, variant |-> variant, val |-> val]
PErr(k, tags) == [ok |-> FALSE, err |-> k, tags |-> tags]

ParseEnum(e, b) ==
  IF Len(b) < 2 THEN PErr("Incomplete", <<>>)
  ELSE LET v == VariantFor(e, b[1] * 256 + b[2]) IN
       IF v = "" THEN PErr("WrongTag", <<0>>)
       ELSE LET ty == TypeOfVariant(e, v)
                d == DecPacket(ty, b) IN
            IF d.ok THEN POk(v, d.val) ELSE PErr(d.err, d.tags)      \* whatever follows the packet is dropped
=============================================================================
