------------------------------- MODULE WriteFile -------------------------------
(* Firmware upload (Feig 6.13): which files of a payload directory are         *)
(* announced, and what a data request is answered with.                        *)
EXTENDS ZvtSequence, FiniteSets

\* recognised relative paths and their file ids (Feig manual 6.13, table 2)
PathIds == <<
  <<"firmware/kernel.gz", 16>>, <<"firmware/rootfs.gz", 17>>, <<"firmware/components.tar.gz", 18>>,
  <<"firmware/update.spec", 19>>, <<"firmware/update_extended.spec", 20>>,
  <<"app0/update.spec", 32>>, <<"app0/update.tar.gz", 33>>, <<"app1/update.spec", 34>>, <<"app1/update.tar.gz", 35>>,
  <<"app2/update.spec", 36>>, <<"app2/update.tar.gz", 37>>, <<"app3/update.spec", 38>>, <<"app3/update.tar.gz", 39>>,
  <<"app4/update.spec", 40>>, <<"app4/update.tar.gz", 41>>, <<"app5/update.spec", 48>>, <<"app5/update.tar.gz", 49>>,
  <<"app6/update.spec", 50>>, <<"app6/update.tar.gz", 51>>, <<"app7/update.spec", 52>>, <<"app7/update.tar.gz", 53>> >>
IdOfPath(p) == LET m == SelectSeq(PathIds, LAMBDA x : x[1] = p) IN IF m = <<>> THEN 0 ELSE m[1][2]

\* the bytes of file content c from offset off, at most block of them
Slice(c, off, block) == IF off >= Len(c) THEN <<>> ELSE SubSeq(c, off + 1, Min(off + block, Len(c)))
SliceLen(size, off, block) == IF off >= size THEN 0 ELSE Min(block, size - off)

\* the indices of the script's frames that are answerable data requests, in order, up to the end of the exchange
ValidRequests(frames, announced, upto) ==
  SelectSeq([k \in 1..upto |-> k],
            LAMBDA k : k >= 2 /\ ~frames[k].trunc
                       /\ ParseEnum("WriteFileResponse", frames[k].bytes).ok
                       /\ ParseEnum("WriteFileResponse", frames[k].bytes).variant = "RequestForData"
                       /\ RequestValid(frames[k], announced))

(* ---- what was written, judged against the directory: r = [files (id, path, size, content), block, ..] ---- *)
FileIds(r) == {r.files[k].id : k \in 1..Len(r.files)}
FileOf(r, id) == r.files[CHOOSE k \in 1..Len(r.files) : r.files[k].id = id]

\* the announcement: exactly the recognised files present, with their true sizes, nothing else in the entries
ManifestOk(r) ==
  LET d == DecPacket("feig_WriteFile", r.announce) IN
  /\ d.ok /\ d.rest = <<>> /\ d.val.tlv # <<>>
  /\ LET fs == d.val.tlv[1].files IN
     /\ Len(fs) = Cardinality(FileIds(r))
     /\ \A k \in 1..Len(fs) :
          /\ fs[k].file_id # <<>> /\ fs[k].file_size # <<>> /\ fs[k].file_offset = <<>> /\ fs[k].payload = <<>>
          /\ DToInt(fs[k].file_id[1]) \in FileIds(r)
          /\ fs[k].file_size[1] = DFromInt(FileOf(r, DToInt(fs[k].file_id[1])).size)
     /\ \A a, b \in 1..Len(fs) : a # b => fs[a].file_id # fs[b].file_id
  \* every announced id belongs to the recognised path it was found under
  /\ \A k \in 1..Len(r.files) : IdOfPath(r.files[k].path) = r.files[k].id

\* the j-th data block written answers the j-th answerable request: same id, same offset, exactly the file's bytes
BlockOk(r, req, blk) ==
  LET q == ReqFile(req)
      id == DToInt(q.file_id[1])
      off == q.file_offset[1]
      f == FileOf(r, id) IN
  IF "bytes" \in DOMAIN blk /\ blk.bytes # <<>>
  THEN LET d == DecPacket("feig_WriteData", blk.bytes) IN
       /\ d.ok /\ d.rest = <<>> /\ d.val.tlv # <<>> /\ d.val.tlv[1].file # <<>>
       /\ LET a == d.val.tlv[1].file[1] IN
          /\ a.file_id = q.file_id /\ a.file_offset = q.file_offset /\ a.file_size = <<>>
          /\ LET want == IF Len(off) > 9 THEN <<>> ELSE Slice(f.content, DToInt(off), r.block) IN
             a.payload = (IF want = <<>> THEN <<>> ELSE <<want>>)
  ELSE \* large block: header as decoded by the harness, payload compared by the harness with its own copy
       /\ blk.id = id /\ blk.off = off
       /\ blk.len = (IF Len(off) > 9 THEN 0 ELSE SliceLen(f.size, DToInt(off), r.block))
       /\ blk.same = TRUE

=============================================================================
