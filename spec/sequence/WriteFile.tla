------------------------------- MODULE WriteFile -------------------------------
(* Firmware upload (Feig 6.13): which files of a payload directory are         *)
(* announced, and what a data request is answered with.                        *)
EXTENDS ZvtSequence

\* recognised relative paths and their file ids (Feig manual 6.13, table 2)
PathIds == <<
  <<"firmware/kernel.gz", 16>>, <<"firmware/rootfs.gz", 17>>, <<"firmware/components.tar.gz", 18>>,
  <<"firmware/update.spec", 19>>, <<"firmware/update_extended.spec", 20>>,
  <<"app0/update.spec", 32>>, <<"app0/update.tar.gz", 33>>, <<"app1/update.spec", 34>>, <<"app1/update.tar.gz", 35>>,
  <<"app2/update.spec", 36>>, <<"app2/update.tar.gz", 37>>, <<"app3/update.spec", 38>>, <<"app3/update.tar.gz", 39>>,
  <<"app4/update.spec", 40>>, <<"app4/update.tar.gz", 41>>, <<"app5/update.spec", 48>>, <<"app5/update.tar.gz", 49>>,
  <<"app6/update.spec", 50>>, <<"app6/update.tar.gz", 51>>, <<"app7/update.spec", 52>>, <<"app7/update.tar.gz", 53>> >>
IdOfPath(p) == LET m == SelectSeq(PathIds, LAMBDA x : x[1] = p) IN IF m = <<>> THEN 0 ELSE m[1][2]

\* the bytes of file content c from offset off, at most block of them
Slice(c, off, block) == IF off >= Len(c) THEN <<>> ELSE SubSeq(c, off + 1, Min(off + block, Len(c)))
SliceLen(size, off, block) == IF off >= size THEN 0 ELSE Min(block, size - off)

\* the indices of the script's frames that are answerable data requests, in order, up to the end of the exchange
ValidRequests(frames, announced, upto) ==
  SelectSeq([k \in 1..upto |-> k],
            LAMBDA k : k >= 2 /\ ~frames[k].trunc
                       /\ ParseEnum("WriteFileResponse", frames[k].bytes).ok
                       /\ ParseEnum("WriteFileResponse", frames[k].bytes).variant = "RequestForData"
                       /\ RequestValid(frames[k], announced))
=============================================================================
