----------------------------- MODULE TraceSequence -----------------------------
(* impl -> spec for C05 / C06 / C11: records of real exchanges (harness:       *)
(* seq-run) - the PT script as bytes and the observed event log - are read     *)
(* from ndjson.  The I-spec (ZvtSequence!Run) is executed on the same script;  *)
(* a record whose observed log equals the specification's is accepted.  For a  *)
(* record that differs, the P-specs are evaluated on the observed log alone    *)
(* and the failing ones are printed; if none fails the difference is model     *)
(* drift.  Frames are classified by the reference parser from their bytes.     *)
EXTENDS ZvtSequence, Json, IOUtils, FiniteSets

Recs == ndJsonDeserialize(IOEnv.SEQ_TRACE)

VARIABLE i
Init == i \in 1..Len(Recs)
Next == UNCHANGED i

Announced(r) == IF "announced" \in DOMAIN r THEN {r.announced[k] : k \in 1..Len(r.announced)} ELSE {}

\* Whether a frame "cannot be decoded" is the parser's verdict.  When the specification's run fails on a frame whose control
\* field IS in the reply set (a malformed body), an implementation that reads that body more leniently has not broken the
\* property: verdicts that rest on the classification are then marked ambiguous (model drift).
Ambiguous(r, exp) ==
  /\ ~("wfail" \in DOMAIN r /\ r.wfail # 0)          \* a refused write is no matter of decoding
  /\ Idx(exp.log, IsErr) # {}
  /\ exp.next >= 2 /\ exp.next - 1 <= Len(r.frames)
  /\ LET f == r.frames[exp.next - 1]
         parser == IF exp.next - 1 = 1 THEN "Ack" ELSE SeqOf(r.cmd).parser IN
     ~f.trunc /\ Len(f.bytes) >= 2 /\ VariantFor(parser, f.bytes[1] * 256 + f.bytes[2]) # ""
     /\ ~(r.cmd = "WriteFile" /\ ParseEnum(parser, f.bytes).ok)      \* an unanswerable data request is not a matter of decoding
Amb(r, exp, f) == IF Ambiguous(r, exp) THEN f \o "-ambiguous" ELSE f
\* a frame whose control field is outside the command's reply set was answered (acknowledged): whatever happens afterwards, the
\* sequence acknowledged a packet it had no business interpreting
AnsweredForeign(r) ==
  \E j \in 1..(Len(r.obs) - 1) :
     /\ r.obs[j].e = "r" /\ r.obs[j].n >= 2 /\ r.obs[j].n <= Len(r.frames) /\ r.obs[j + 1].e = "w" /\ r.obs[j + 1].a # "cmd"
     /\ LET f == r.frames[r.obs[j].n] IN
        ~f.trunc /\ Len(f.bytes) >= 2 /\ VariantFor(SeqOf(r.cmd).parser, f.bytes[1] * 256 + f.bytes[2]) = ""

Flags(r) ==
  IF r.note # "" THEN {"abnormal:" \o r.note}
  ELSE LET exp == Run(StartW(r.cmd, r.frames, Announced(r), IF "wfail" \in DOMAIN r THEN r.wfail ELSE 0)) IN
       IF r.obs = exp.log /\ r.obs_left = Left(exp) THEN {}
       ELSE {"differs"}
            \cup (IF CmdOnceFirst(r.obs) THEN {} ELSE {"P05-cmd-once-first"})
            \cup (IF AnswerDiscipline(r.obs) THEN {} ELSE {"P05-answer-discipline"})
            \cup (IF InOrder(r.obs) THEN {} ELSE {"P05-order"})
            \cup (IF StopAtFinal(r.obs, r.cmd) THEN {} ELSE {"P05-stop-at-final"})
            \cup (IF OneError(r.obs) THEN {} ELSE {"P06-one-error"})
            \cup (IF ErrorThenSilence(r.obs) THEN {} ELSE {"P06-silence"})
            \cup (IF NoAnswerForBadFrame(r.obs) /\ ~AnsweredForeign(r) THEN {} ELSE {"P06-answered-bad-frame"})
            \cup (IF EndsOnce(r.obs) /\ Idx(r.obs, IsEnd) # {} THEN {} ELSE {"P06-end"})
            \* what the script demanded: delivered items and errors as the specification computes them from the bytes
            \cup (IF Cardinality(Idx(r.obs, IsOk)) = Cardinality(Idx(exp.log, IsOk)) THEN {} ELSE {Amb(r, exp, "P05-delivered-count")})
            \cup (IF Cardinality(Idx(r.obs, IsErr)) = Cardinality(Idx(exp.log, IsErr)) THEN {} ELSE {Amb(r, exp, "P06-error-count")})
            \cup (IF r.obs_left = Left(exp) THEN {} ELSE {Amb(r, exp, "P05-bytes-left")})

Judge == LET f == Flags(Recs[i]) IN f = {} \/ PrintT(<<"FLAGS", i, ToJson(f)>>)
=============================================================================
