------------------------------ MODULE ZvtReplies ------------------------------
(* The reply sets of the ZVT / Feig command sequences, stated independently  *)
(* of the code: for each reply parser (an enum in the code) the packet type  *)
(* behind each variant, and for each command sequence its request packet,    *)
(* its reply parser, which replies are final, and whether the exchange reads *)
(* one reply or loops until a final one.                                     *)
EXTENDS Naturals, Sequences, ZvtLayout

V(v, ty) == [v |-> v, ty |-> ty]

(* reply parser -> its variants, in matching order *)
ReplySets == [
  Ack |-> << V("Ack", "Ack") >>,
  RegistrationResponse |-> << V("CompletionData", "CompletionData") >>,
  ReadCardResponse |-> << V("IntermediateStatusInformation", "IntermediateStatusInformation"),
                          V("StatusInformation", "StatusInformation"), V("Abort", "Abort") >>,
  InitializationResponse |-> << V("IntermediateStatusInformation", "IntermediateStatusInformation"), V("PrintLine", "PrintLine"),
                                V("PrintTextBlock", "PrintTextBlock"), V("CompletionData", "CompletionData"), V("Abort", "Abort") >>,
  SetTerminalIdResponse |-> << V("CompletionData", "CompletionData"), V("Abort", "Abort") >>,
  ResetTerminalResponse |-> << V("CompletionData", "CompletionData") >>,
  DiagnosisResponse |-> << V("IntermediateStatusInformation", "IntermediateStatusInformation"), V("SetTimeAndDate", "SetTimeAndDate"),
                           V("PrintLine", "PrintLine"), V("PrintTextBlock", "PrintTextBlock"),
                           V("CompletionData", "CompletionData"), V("Abort", "Abort") >>,
  EndOfDayResponse |-> << V("IntermediateStatusInformation", "IntermediateStatusInformation"), V("StatusInformation", "StatusInformation"),
                          V("PrintLine", "PrintLine"), V("PrintTextBlock", "PrintTextBlock"),
                          V("CompletionData", "CompletionData"), V("Abort", "PartialReversalAbort") >>,
  AuthorizationResponse |-> << V("IntermediateStatusInformation", "IntermediateStatusInformation"), V("StatusInformation", "StatusInformation"),
                               V("PrintLine", "PrintLine"), V("PrintTextBlock", "PrintTextBlock"),
                               V("CompletionData", "CompletionData"), V("Abort", "Abort") >>,
  PartialReversalResponse |-> << V("IntermediateStatusInformation", "IntermediateStatusInformation"), V("StatusInformation", "StatusInformation"),
                                 V("PrintLine", "PrintLine"), V("PrintTextBlock", "PrintTextBlock"),
                                 V("CompletionData", "CompletionData"), V("PartialReversalAbort", "PartialReversalAbort") >>,
  PrintSystemConfigurationResponse |-> << V("PrintLine", "PrintLine"), V("PrintTextBlock", "PrintTextBlock"),
                                          V("CompletionData", "CompletionData") >>,
  SelectLanguageResponse |-> << V("CompletionData", "CompletionData") >>,
  StatusEnquiryResponse |-> << V("IntermediateStatusInformation", "IntermediateStatusInformation"), V("PrintLine", "PrintLine"),
                               V("PrintTextBlock", "PrintTextBlock"), V("CompletionData", "CompletionData") >>,
  GetSystemInfoResponse |-> << V("CVendFunctionsEnhancedSystemInformationCompletion", "feig_CVendFunctionsEnhancedSystemInformationCompletion"),
                               V("Abort", "Abort") >>,
  WriteFileResponse |-> << V("CompletionData", "CompletionData"), V("RequestForData", "feig_RequestForData"), V("Abort", "Abort") >>,
  FactoryResetResponse |-> << V("CompletionData", "CompletionData") >>,
  ChangeHostConfigurationResponse |-> << V("CompletionData", "CompletionData"), V("Abort", "Abort") >> ]

ReplyParsers == DOMAIN ReplySets
ControlField(ty) == Command[ty][1] * 256 + Command[ty][2]

\* the variant a control field selects, or "" when it is outside the reply set
VariantFor(e, cf) ==
  LET m == SelectSeq(ReplySets[e], LAMBDA x : ControlField(x.ty) = cf) IN IF m = <<>> THEN "" ELSE m[1].v
TypeOfVariant(e, v) == (SelectSeq(ReplySets[e], LAMBDA x : x.v = v))[1].ty

\* no reply parser lists one control field under two variants
NoAmbiguity == \A e \in ReplyParsers : \A i, j \in 1..Len(ReplySets[e]) :
                 i # j => ControlField(ReplySets[e][i].ty) # ControlField(ReplySets[e][j].ty)

S(req, parser, finals, loop) == [req |-> req, parser |-> parser, finals |-> finals, loop |-> loop]

(* command sequence -> request packet type, reply parser, final variants, loop until final? *)
SequencesTable == [
  Registration |-> S("Registration", "RegistrationResponse", {"CompletionData"}, FALSE),
  ReadCard |-> S("ReadCard", "ReadCardResponse", {"StatusInformation", "Abort"}, TRUE),
  Initialization |-> S("Initialization", "InitializationResponse", {"CompletionData", "Abort"}, TRUE),
  SetTerminalId |-> S("SetTerminalId", "SetTerminalIdResponse", {"CompletionData", "Abort"}, FALSE),
  ResetTerminal |-> S("ResetTerminal", "ResetTerminalResponse", {"CompletionData"}, FALSE),
  Diagnosis |-> S("Diagnosis", "DiagnosisResponse", {"CompletionData", "Abort"}, TRUE),
  EndOfDay |-> S("EndOfDay", "EndOfDayResponse", {"CompletionData", "Abort"}, TRUE),
  Authorization |-> S("Authorization", "AuthorizationResponse", {"CompletionData", "Abort"}, TRUE),
  Reservation |-> S("Reservation", "AuthorizationResponse", {"CompletionData", "Abort"}, TRUE),
  PartialReversal |-> S("PartialReversal", "PartialReversalResponse", {"CompletionData", "PartialReversalAbort"}, TRUE),
  PreAuthReversal |-> S("PreAuthReversal", "PartialReversalResponse", {"CompletionData", "PartialReversalAbort"}, TRUE),
  PrintSystemConfiguration |-> S("PrintSystemConfiguration", "PrintSystemConfigurationResponse", {"CompletionData"}, TRUE),
  SelectLanguage |-> S("SelectLanguage", "SelectLanguageResponse", {"CompletionData"}, FALSE),
  StatusEnquiry |-> S("StatusEnquiry", "StatusEnquiryResponse", {"CompletionData"}, TRUE),
  GetSystemInfo |-> S("feig_CVendFunctions", "GetSystemInfoResponse", {"CVendFunctionsEnhancedSystemInformationCompletion", "Abort"}, FALSE),
  FactoryReset |-> S("feig_CVendFunctions", "FactoryResetResponse", {"CompletionData"}, FALSE),
  ChangeHostConfiguration |-> S("feig_ChangeConfiguration", "ChangeHostConfigurationResponse", {"CompletionData", "Abort"}, FALSE),
  WriteFile |-> S("feig_WriteFile", "WriteFileResponse", {"CompletionData", "Abort"}, TRUE) ]

SequenceNames == DOMAIN SequencesTable
=============================================================================
