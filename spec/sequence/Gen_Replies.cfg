INIT Init
NEXT Next
