INIT Init
NEXT Next
INVARIANT BlockShape
INVARIANT Reconstructs
