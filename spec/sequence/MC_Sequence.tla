------------------------------ MODULE MC_Sequence ------------------------------
(* C05 / C06 on the specification: every command sequence against every PT    *)
(* script up to Depth frames over the command's alphabet - the positive       *)
(* acknowledgement, every reply kind of its reply set, and the fault kinds    *)
(* NACK (84 xx), foreign control field, malformed body, truncated frame; the  *)
(* end of the script is the end of the connection (EOF).  The P-specs are     *)
(* invariants of every state; every finished exchange is printed once as a    *)
(* case (script bytes + expected event log) for replay into the real code.    *)
EXTENDS ZvtSequence, ZvtValues, FiniteSets

Depth == IF "SEQ_DEPTH" \in DOMAIN IOEnv THEN atoi(IOEnv.SEQ_DEPTH) ELSE 3
Emitting == IF "SEQ_EMIT" \in DOMAIN IOEnv THEN IOEnv.SEQ_EMIT = "1" ELSE FALSE
OnlyCmd == IF "SEQ_CMD" \in DOMAIN IOEnv THEN IOEnv.SEQ_CMD ELSE ""

AckFrame == Fr(<<128, 0, 0>>, FALSE)
NackFrame == Fr(<<132, 30, 0>>, FALSE)
ForeignFrame == Fr(<<4, 13, 0>>, FALSE)                 \* a well-formed frame no reply set contains
TruncFrame == Fr(<<4, 15, 5, 39>>, TRUE)                \* announces 5 bytes, the connection ends after 1

Witness(ty) == Fr(EncPacket(ty, TypVal(ty)), FALSE)
\* a frame with the control field of ty whose body the parser rejects
Malformed(ty) ==
  LET cf == <<Command[ty][1], Command[ty][2]>> IN
  CASE ty = "StatusInformation" -> Fr(cf \o <<2, 4, 0>>, FALSE)              \* BMP 04 needs six bytes
    [] ty = "CompletionData" -> Fr(cf \o <<2, 41, 0>>, FALSE)                \* BMP 29 needs four
    [] ty = "PrintTextBlock" -> Fr(cf \o <<2, 6, 5>>, FALSE)                 \* TLV length beyond the body
    [] ty = "feig_RequestForData" -> Fr(cf \o <<2, 6, 5>>, FALSE)
    [] ty = "SetTimeAndDate" -> Fr(cf \o <<0>>, FALSE)                       \* mandatory tags missing
    [] ty = "feig_CVendFunctionsEnhancedSystemInformationCompletion" -> Fr(cf \o <<1, 65>>, FALSE)
    [] OTHER -> Fr(cf \o <<0>>, FALSE)                                       \* a mandatory positional field is missing

Variants(cmd) == ReplySets[SeqOf(cmd).parser]
\* alphabet of a command: <<frames usable anywhere>>
Alphabet(cmd) ==
  LET vs == Variants(cmd)
      ws == {Witness(vs[i].ty) : i \in 1..Len(vs)}
            \* a status information that reports success (result code 00) and nothing else
            \cup (IF \E i \in 1..Len(vs) : vs[i].ty = "StatusInformation"
                  THEN {Fr(EncPacket("StatusInformation", [MinVal("StatusInformation") EXCEPT !.result_code = << <<>> >>]), FALSE)} ELSE {})
      ms == {Malformed(vs[i].ty) : i \in 1..Len(vs)} IN
  ({AckFrame, NackFrame, ForeignFrame} \cup ws \cup ms
   \* well-formed packets that are replies - but not to this command
   \cup {Witness(t) : t \in {"IntermediateStatusInformation", "StatusInformation", "PrintLine", "CompletionData", "Abort"} \ {vs[i].ty : i \in 1..Len(vs)}}) \cup
  (IF cmd = "WriteFile" THEN {Fr(EncPacket("feig_RequestForData", [tlv |-> <<[file |-> <<[file_id |-> << <<1,6>> >>, file_offset |-> << <<>> >>, file_size |-> <<>>, payload |-> <<>>]>>]>>]), FALSE),
                              Fr(EncPacket("feig_RequestForData", [tlv |-> <<[file |-> <<[file_id |-> << <<3,3>> >>, file_offset |-> << <<2>> >>, file_size |-> <<>>, payload |-> <<>>]>>]>>]), FALSE),
                              Fr(EncPacket("feig_RequestForData", [tlv |-> <<[file |-> <<[file_id |-> << <<1,6>> >>, file_offset |-> <<>>, file_size |-> <<>>, payload |-> <<>>]>>]>>]), FALSE),
                              Fr(EncPacket("feig_RequestForData", [tlv |-> <<>>]), FALSE)}
   ELSE {})

\* the malformed witnesses really are rejected, the valid ones accepted, by the reference parser
ASSUME \A cmd \in SequenceNames : \A i \in 1..Len(Variants(cmd)) :
          /\ ~ParseEnum(SeqOf(cmd).parser, Malformed(Variants(cmd)[i].ty).bytes).ok
          /\ ParseEnum(SeqOf(cmd).parser, Witness(Variants(cmd)[i].ty).bytes).ok
          /\ ~ParseEnum(SeqOf(cmd).parser, ForeignFrame.bytes).ok /\ ~ParseEnum(SeqOf(cmd).parser, NackFrame.bytes).ok
          /\ ~ParseEnum("Ack", NackFrame.bytes).ok /\ ~ParseEnum("Ack", ForeignFrame.bytes).ok

Cmds == IF OnlyCmd = "" THEN SequenceNames ELSE {OnlyCmd}
\* announced file ids for the firmware upload in this model: 0x10 and 0x22
Announced(cmd) == IF cmd = "WriteFile" THEN {16, 34} ELSE {}

VARIABLE s
Scripts(cmd) == UNION {[1..n -> Alphabet(cmd)] : n \in 0..Depth}
\* which write of the ECR the connection refuses, if any: 0 (none) .. MaxWFail
MaxWFail == IF "SEQ_WFAIL" \in DOMAIN IOEnv THEN atoi(IOEnv.SEQ_WFAIL) ELSE 0
\* (the scripts are enumerated length by length: the union of all of them is too large a set to build at depth 5)
Init == \E cmd \in Cmds : \E n \in 0..Depth, tr \in BOOLEAN, wf \in 0..MaxWFail :
          IF n = 0 THEN s = StartW(cmd, IF tr THEN <<TruncFrame>> ELSE <<>>, Announced(cmd), wf)
          ELSE \E pre \in [1..(n - 1) -> Alphabet(cmd)], last \in Alphabet(cmd) :
                 s = StartW(cmd, IF tr THEN Append(Append(pre, last), TruncFrame) ELSE Append(pre, last), Announced(cmd), wf)
Next == ~Terminal(s) /\ s' = Step(s)

C05 == P_C05(s.log, s.cmd)
C06 == P_C06(s.log)

\* what a finished exchange delivered, from the script alone: Ack, then the replies up to the first final one
FaultFreePrefix(st) ==
  LET sq == SeqOf(st.cmd)
      n == Len(st.frames)
      kind(k) == ReadResult(IF k = 1 THEN "Ack" ELSE sq.parser, st.frames[k])
      isRep(k) == k >= 2 /\ kind(k) \notin {"parse", "transport"}
      good(k) == \A j \in 2..k : isRep(j) /\ ~(st.cmd = "WriteFile" /\ kind(j) = "RequestForData" /\ ~RequestValid(st.frames[j], st.announced))
      fin(k) == kind(k) \in sq.finals \/ ~sq.loop IN
  {k \in 2..n : kind(1) = "Ack" /\ good(k) /\ fin(k) /\ \A j \in 2..(k - 1) : ~fin(j)}
\* a fault-free exchange hands over every reply up to the first final one, in order, and leaves the rest on the connection
Delivers == (Terminal(s) /\ s.wfail = 0) =>
  \A k \in FaultFreePrefix(s) :
     /\ Idx(s.log, IsErr) = {}
     /\ Cardinality(Idx(s.log, IsOk)) = k - 1
     /\ s.next = k + 1
     /\ Left(s) = BytesFrom(s.frames, k + 1)
\* anything else ends in exactly one error
FaultsFail == Terminal(s) => (FaultFreePrefix(s) = {} => Cardinality(Idx(s.log, IsErr)) = 1)

Emit == (Emitting /\ Terminal(s)) =>
          PrintT(<<"CASE", ToJson([cmd |-> s.cmd,
                                   req |-> EncPacket(SeqOf(s.cmd).req, TypVal(SeqOf(s.cmd).req)),
                                   frames |-> s.frames, log |-> s.log, left |-> Left(s), wfail |-> s.wfail])>>)
=============================================================================
