------------------------------ MODULE ZvtValues -------------------------------
(* Value sets of the layout table's types: for every field its boundary      *)
(* values, the minimal and the typical value of a type, and Values(t): for   *)
(* every field and every boundary value of that field two values - all other *)
(* fields absent / minimal, and all other fields present / typical - plus    *)
(* the all-minimal and all-typical value and every Option absent             *)
(* individually.  No variables: usable from generators and models alike.     *)
EXTENDS ZvtCodec, TLC, Json, IOUtils

Big == IF "GEN_BIG" \in DOMAIN IOEnv THEN IOEnv.GEN_BIG = "1" ELSE FALSE

Pow10(k) == <<1>> \o Rep(0, k)
Nines(k) == Rep(9, k)
Pat(n, a, s) == [i \in 1..n |-> IF i = n /\ ((a + i * s) % 256) = 0 THEN 1 ELSE (a + i * s) % 256]
Ascii(n, a) == [i \in 1..n |-> 32 + ((a + i) % 95)]

\* how many decimal digits the field can carry, from its length style
MaxDigits(f) == IF f.len.s = "Fixed" THEN 2 * f.len.n ELSE 20

\* numbers whose BCD image looks like structure: the number of a bitmap the layouts use (06, 04, 19, 27, 29, 49, 60, 87) as the first
\* byte, then a length byte that announces nothing or exactly the bytes that remain - a decoder that looks ahead must not take the
\* value for the element that may follow it
LookAlike(nbytes) ==
  IF nbytes < 2 THEN {}
  ELSE {DNorm(<<t[1], t[2], l \div 10, l % 10>> \o [i \in 1..(2 * (nbytes - 2)) |-> (i + 4) % 10]) :
          <<t, l>> \in {<<0, 6>>, <<0, 4>>, <<1, 9>>, <<2, 7>>, <<2, 9>>, <<4, 9>>, <<6, 0>>, <<8, 7>>} \X {0, nbytes - 2, 2, 6}}

IntBounds(f) ==
  LET w == f.enc.w
      md == MaxDigits(f)
      cand == IF f.enc.e = "Bcd"
              THEN {Nines(k) : k \in 0..md} \cup {Pow10(k) : k \in 0..(md - 1)} \cup {DMaxU(w)} \cup {<<2, 5, 0, 0>>, <<9, 7, 8>>}
                   \cup (IF f.len.s = "Fixed" THEN LookAlike(f.len.n) ELSE {})
              ELSE IF f.enc.e = "Receipt"
              THEN {<<>>, <<1>>, <<9>>, <<1, 0>>, <<9, 9>>, <<1, 0, 0>>, <<2, 3, 1>>, <<9, 9, 9>>, <<1, 0, 0, 0>>, <<9, 9, 9, 9>>, D65535}
              ELSE {<<>>, <<1>>, <<1, 2, 7>>, <<1, 2, 8>>, <<2, 5, 5>>, <<2, 5, 6>>, <<6, 5, 5, 3, 5>>, <<6, 5, 5, 3, 6>>,
                    <<1, 6, 7, 7, 7, 2, 1, 5>>, <<1, 6, 7, 7, 7, 2, 1, 6>>, DMaxU(w)} \cup {DMaxU(x) : x \in {1, 2, 4}}
                   \* bytes that announce a two-byte tag (1F, FF) as the value's first / last byte
                   \cup {<<3, 1>>, <<7, 9, 3, 6>>, <<6, 5, 2, 8, 0>>}
  IN {d \in cand : (Len(d) <= md \/ (f.enc.e = "Receipt" /\ d = D65535)) /\ Fits(d, w)}

\* payload lengths worth trying for a variable-length field
VarLens(f) ==
  CASE f.len.s = "Fixed" -> {f.len.n}
    [] f.len.s = "Llv"   -> {0, 1, 2, 98, 99}
    [] f.len.s = "Lllv"  -> {0, 1, 99, 100, 998, 999}
    [] f.len.s = "Tlv"   -> {0, 1, 2, 127, 128, 255, 256} \cup (IF Big THEN {1068, 32768, 65000} ELSE {300})
    [] f.len.s = "Empty" -> {0, 1, 7, 40}
    [] f.len.s = "Temperature" -> {3, 4}

\* CP437 texts whose bytes happen to be well-formed UTF-8 (box-drawing / accented bytes followed by 80..BF), padded to the lengths
\* the field can carry
Utf8Look == {<<196, 180>>, <<65, 195, 164, 66>>, <<226, 130, 172>>, <<240, 159, 166, 128>>, <<83, 117, 109, 109, 101, 32, 196, 180>>}
TextBounds(f) == {Pat(n, 64, 1) : n \in VarLens(f)} \cup {Pat(n, 255, 255) : n \in VarLens(f)}
                 \cup {Ascii(n, 7) : n \in VarLens(f)} \cup {Pat(n, 0, 0) : n \in VarLens(f) \cap {1, 2}}
                 \cup {u \o Ascii(n - Len(u), 3) : <<u, n>> \in {<<v, m>> \in Utf8Look \X (VarLens(f) \cup {8, 12}) :
                                                                   m >= Len(v) /\ (f.len.s # "Fixed" \/ m = f.len.n)
                                                                   /\ (f.len.s # "Llv" \/ m <= 99) /\ (f.len.s # "Temperature" \/ m \in {3, 4})}}
HexBounds(f)  == {Pat(n, 160, 1) : n \in VarLens(f)} \cup {Rep(0, n) : n \in VarLens(f)} \cup {Rep(255, n) : n \in VarLens(f)}
RawBounds(f)  == {Pat(n, 3, 7) : n \in VarLens(f) \ {0}} \cup {Rep(0, n) : n \in (VarLens(f) \ {0}) \cap {1, 2, 300}}
\* (a byte order mark in front, inside and alone; line ends and blanks at either end; long texts of 2-, 3- and 4-byte characters shifted
\* by 0..3 bytes, so that a character straddles every byte offset a decoder might cut at)
RepSeq(u, k) == [i \in 1..(k * Len(u)) |-> u[((i - 1) % Len(u)) + 1]]
Utf8Bounds(f) == {Ascii(n, 3) : n \in VarLens(f)} \cup {<<226, 130, 172>>, <<240, 159, 166, 128, 65>>, <<195, 164, 0, 66>>}
                 \cup {<<239, 187, 191>>, <<239, 187, 191, 86, 49>>, <<86, 239, 187, 191, 49>>, <<65, 10>>, <<65, 13, 10>>, <<32, 65, 32>>, <<9, 65>>}
                 \cup {Ascii(sh, 5) \o RepSeq(u, 70) : <<sh, u>> \in (0..3) \X {<<195, 164>>, <<226, 130, 172>>, <<240, 159, 166, 128>>}}
DtBounds == {<<2023, 11, 5, 12, 34, 56>>, <<2023, 12, 31, 23, 59, 59>>, <<2024, 2, 29, 0, 0, 0>>, <<0, 1, 1, 0, 0, 0>>,
             <<9999, 12, 31, 23, 59, 59>>, <<1999, 10, 10, 10, 10, 10>>}

RECURSIVE Values(_), MinVal(_), TypVal(_)

SetToSeq(S) == LET RECURSIVE H(_)
                   H(X) == IF X = {} THEN <<>> ELSE LET x == CHOOSE y \in X : TRUE IN <<x>> \o H(X \ {x})
               IN H(S)

\* boundary values of ONE element of field f, as a sequence
Bounds(f) ==
  CASE f.kind = "int" -> SetToSeq(IntBounds(f))
    [] f.kind = "text" -> SetToSeq(TextBounds(f))
    [] f.kind = "hex" -> SetToSeq(HexBounds(f))
    [] f.kind = "raw" -> SetToSeq(RawBounds(f))
    [] f.kind = "utf8" -> SetToSeq(Utf8Bounds(f))
    [] f.kind = "datetime" -> SetToSeq(DtBounds)
    [] f.kind = "struct" -> Values(f.sub)

MinElem(f) ==
  CASE f.kind = "int" -> <<>>
    [] f.kind = "text" -> Ascii(CHOOSE n \in VarLens(f) : \A m \in VarLens(f) : n <= m, 1)
    [] f.kind = "hex" -> Rep(0, CHOOSE n \in VarLens(f) : \A m \in VarLens(f) : n <= m)
    [] f.kind = "raw" -> <<1>>
    [] f.kind = "utf8" -> <<>>
    [] f.kind = "datetime" -> <<2000, 1, 1, 0, 0, 0>>
    [] f.kind = "struct" -> MinVal(f.sub)
TypElem(f) ==
  CASE f.kind = "int" -> (IF Fits(<<1, 2, 3>>, f.enc.w) /\ MaxDigits(f) >= 3 THEN <<1, 2, 3>> ELSE <<7>>)
    [] f.kind = "text" -> Ascii(IF f.len.s \in {"Fixed", "Temperature"} THEN (CHOOSE n \in VarLens(f) : TRUE) ELSE 5, 33)
    [] f.kind = "hex" -> IF f.len.s = "Fixed" THEN Pat(f.len.n, 170, 1) ELSE <<160, 0, 0, 0, 4, 16, 16>>
    [] f.kind = "raw" -> <<0, 1, 2, 3, 255>>
    [] f.kind = "utf8" -> <<71, 69, 82, 45, 65, 80, 80>>
    [] f.kind = "datetime" -> <<2023, 6, 15, 13, 45, 30>>
    [] f.kind = "struct" -> TypVal(f.sub)

MinField(f) == IF f.card = "req" THEN MinElem(f) ELSE <<>>
TypField(f) == CASE f.card = "req" -> TypElem(f) [] f.card = "opt" -> <<TypElem(f)>> [] f.card = "vec" -> <<TypElem(f), MinElem(f)>>

Rec(t, F(_)) == [n \in FieldNames(t) |-> F(FieldByName(t, n))]
MinVal(t) == Rec(t, MinField)
TypVal(t) == Rec(t, TypField)

Wrap(f, b) == IF f.card = "req" THEN b ELSE <<b>>

\* all values of type t, as a sequence
Values(t) ==
  LET fs == Fields(t)
      mn == MinVal(t)
      ty == TypVal(t)
      perField(i) ==
        LET f == fs[i]
            bs == Bounds(f)
            each == Flatten([k \in 1..Len(bs) |-> << [mn EXCEPT ![f.name] = Wrap(f, bs[k])], [ty EXCEPT ![f.name] = Wrap(f, bs[k])] >>])
            absent == IF f.card # "req" THEN << [ty EXCEPT ![f.name] = <<>>] >> ELSE <<>>
            reps == IF f.card = "vec" /\ Len(bs) >= 2
                    THEN << [mn EXCEPT ![f.name] = <<bs[1], bs[2]>>], [ty EXCEPT ![f.name] = <<bs[2], bs[1], bs[Len(bs)]>>],
                            [mn EXCEPT ![f.name] = <<TypElem(f), TypElem(f), TypElem(f), TypElem(f)>>] >>
                    ELSE <<>>
        IN each \o absent \o reps
  IN <<mn, ty>> \o Flatten([i \in 1..Len(fs) |-> perField(i)])

(* ---- size-targeted values: the body (and with it every enclosing container) on both sides of the length switches ---- *)
\* growable leaves of a type: paths (sequences of field names) to a text / hex / raw field whose length is announced by a
\* prefix (or that takes the rest), through optional / mandatory struct fields
RECURSIVE GrowPaths(_, _)
GrowPaths(t, depth) ==
  IF depth = 0 THEN {}
  ELSE UNION {LET f == Fields(t)[i] IN
              IF f.kind \in {"text", "hex", "raw"} /\ f.len.s \in {"Lllv", "Tlv", "Empty"} /\ f.card # "vec" THEN {<<f.name>>}
              ELSE IF f.kind = "struct" /\ f.card # "vec" THEN {<<f.name>> \o p : p \in GrowPaths(f.sub, depth - 1)}
              ELSE {} : i \in 1..Len(Fields(t))}
\* value v of type t with the leaf at path p set to n patterned bytes (absent structs on the way become typical ones)
RECURSIVE SetLeaf(_, _, _, _)
SetLeaf(t, v, p, n) ==
  LET f == FieldByName(t, p[1]) IN
  IF Len(p) = 1 THEN [v EXCEPT ![p[1]] = Wrap(f, Ascii(n, 11))]
  ELSE LET inner == IF f.card = "req" THEN v[p[1]] ELSE (IF v[p[1]] = <<>> THEN TypVal(f.sub) ELSE v[p[1]][1]) IN
       [v EXCEPT ![p[1]] = Wrap(f, SetLeaf(f.sub, inner, Tail(p), n))]
SwitchLens == {126, 127, 128, 129, 253, 254, 255, 256, 257}

Types == SetToSeq(TypeNames)
\* SubSeq forces TLC to materialise the table once instead of re-evaluating an entry per state
AllValuesF == [i \in 1..Len(Types) |-> Values(Types[i])]
AllValues == SubSeq(AllValuesF, 1, Len(Types))
=============================================================================
