------------------------------- MODULE Gen_C13 -------------------------------
(* spec -> impl generator for C13 (tagged fields: any order, duplicates,     *)
(* missing, foreign tags) and C14 (bytes beyond the announced length).       *)
(* A base value is encoded by the reference into its positional part and     *)
(* its tagged groups (one group per present tagged field; the elements of a  *)
(* repeated field form one group because they must stay consecutive).  The   *)
(* cases re-assemble those groups:                                           *)
(*   perm     the groups in another order            -> same value           *)
(*   dup      one group repeated (not adjacent to itself when it is a        *)
(*            repeated field)                        -> DuplicateTag(tag)    *)
(*   missing  mandatory groups removed               -> MissingRequiredTags  *)
(*   foreign  a group with a tag the type does not know spliced in           *)
(*                                                    -> error, or exactly   *)
(*            the value of the bytes before it, the rest handed back         *)
(*   suffix   bytes appended behind the packet       -> same value, suffix   *)
(*            handed back untouched                                          *)
(*   nested   bytes inserted right behind a nested container, inside its     *)
(*            parent                                 -> nested value unchanged *)
(* Each case is a state and is printed once as JSON with what the property   *)
(* demands (base / tag / missing / tail).                                    *)
EXTENDS Gen_Values, FiniteSets

Thorough == IF "GEN_THOROUGH" \in DOMAIN IOEnv THEN IOEnv.GEN_THOROUGH = "1" ELSE FALSE

TaggedOf(t) == Tagged(t)
PosBytes(t, v) == Flatten([i \in 1..Len(Positional(t)) |-> EncField(Positional(t)[i], v[Positional(t)[i].name])])
\* present groups in declaration order: <<[tag, card, bytes]>>
Groups(t, v) ==
  LET tg == TaggedOf(t)
      all == [i \in 1..Len(tg) |-> [tag |-> tg[i].tag, card |-> tg[i].card, bytes |-> EncField(tg[i], v[tg[i].name])]]
  IN SelectSeq(all, LAMBDA g : g.bytes # <<>>)

Frame(t, body) == IF IsCommand(t) THEN <<Command[t][1], Command[t][2]>> \o AdpuEnc(Len(body)) \o body ELSE body
Cat(gs) == Flatten([i \in 1..Len(gs) |-> gs[i].bytes])

\* restrict a value to the tagged fields of a window (others absent), keeping mandatory ones
Window(t, v, lo, hi) ==
  LET tg == TaggedOf(t) IN
  [n \in DOMAIN v |->
     IF \E i \in 1..Len(tg) : tg[i].name = n /\ tg[i].card # "req" /\ (i < lo \/ i > hi) THEN <<>> ELSE v[n]]

W == IF Thorough THEN 6 ELSE 4
\* base values: the typical value cut down to windows of W consecutive tagged fields, and the full typical value
Bases(t) ==
  LET k == Len(TaggedOf(t))
      ty == TypVal(t) IN
  IF k = 0 THEN << >>
  ELSE IF k <= W THEN <<ty>>
  ELSE [j \in 1..(k - W + 1) |-> Window(t, ty, j, j + W - 1)]

PermSeqs(k) == {p \in [1..k -> 1..k] : \A i, j \in 1..k : i # j => p[i] # p[j]}
\* the full typical value of a type with many fields: structured permutations only
BigPerms(k) == {[i \in 1..k |-> k - i + 1]} \cup {[i \in 1..k |-> ((i + s - 1) % k) + 1] : s \in 1..(k - 1)}
               \cup {[i \in 1..k |-> IF i = j THEN j + 1 ELSE IF i = j + 1 THEN j ELSE i] : j \in 1..(k - 1)}

\* (tag 00 - the "filler" of ISO 7816 - is a foreign tag like any other: alone, with an empty value, with a value)
ForeignGroups == << <<158, 2, 1, 2>>, <<31, 254, 1, 9>>, <<255, 127, 0>>, <<158>>, <<0>>, <<0, 0>>, <<0, 1, 7>>, <<0, 0, 0>> >>

Apply(gs, p) == [i \in 1..Len(gs) |-> gs[p[i]]]
InsertAt(s, pos, x) == SubSeq(s, 1, pos) \o <<x>> \o SubSeq(s, pos + 1, Len(s))    \* after position pos (0..Len)
RemoveSet(s, R) == SelectSeq(s, LAMBDA g : g.tag \notin R)

TypeIdx == {i \in 1..Len(Types) : Len(TaggedOf(Types[i])) > 0}

\* ---- the cases of one (type, base) --------------------------------------------------------
CasesOf(t, v) ==
  LET gs == Groups(t, v)
      k == Len(gs)
      pos == PosBytes(t, v)
      base == Frame(t, pos \o Cat(gs))
      perms == IF k <= W THEN PermSeqs(k) ELSE BigPerms(k)
      permC == {[ty |-> t, cls |-> "perm", in |-> Frame(t, pos \o Cat(Apply(gs, p))), base |-> base] : p \in perms}
      dupC == {[ty |-> t, cls |-> "dup", tag |-> gs[j].tag,
                in |-> Frame(t, pos \o Cat(InsertAt(gs, q, gs[j]))), base |-> base] :
                  <<j, q>> \in {x \in (1..k) \X (0..k) : gs[x[1]].card # "vec" \/ (x[2] # x[1] /\ x[2] # x[1] - 1)}}
      reqTags == {gs[i].tag : i \in {j \in 1..k : gs[j].card = "req"}}
      missC == {[ty |-> t, cls |-> "missing", missing |-> SortedSeq(R),
                 in |-> Frame(t, pos \o Cat(RemoveSet(gs, R))), base |-> base] : R \in (SUBSET reqTags) \ {{}}}
      forC == {[ty |-> t, cls |-> "foreign",
                in |-> Frame(t, pos \o Cat(SubSeq(gs, 1, q)) \o ForeignGroups[fg] \o Cat(SubSeq(gs, q + 1, k))),
                base |-> Frame(t, pos \o Cat(SubSeq(gs, 1, q))),
                tail |-> Len(ForeignGroups[fg]) + Len(Cat(SubSeq(gs, q + 1, k)))] :
                  <<q, fg>> \in (0..k) \X (1..Len(ForeignGroups))}
  IN permC \cup dupC \cup missC \cup forC

\* ---- suffix cases (C14) ---------------------------------------------------------------------
Suffixes == [b \in 1..256 |-> <<b - 1>>] \o << <<128, 0, 0>>, <<6, 15, 0>>, <<4, 15, 2, 39, 0>>, Pat(64, 17, 13), <<6>>, <<31>>, <<255, 255, 255>> >>
FewSuffixes == << <<0>>, <<6>>, <<255>>, <<128, 0, 0>>, Pat(64, 17, 13) >>
SuffixCases(t, v, sfx) ==
  LET base == EncPacket(t, v) IN
  [k \in 1..Len(sfx) |-> [ty |-> t, cls |-> "suffix", in |-> base \o sfx[k], base |-> base, tail |-> Len(sfx[k])]]

\* nested containers: bytes inserted right behind the container of tagged struct field f of t
NestedCases(t, v) ==
  LET tg == TaggedOf(t)
      gs == Groups(t, v)
      pos == PosBytes(t, v)
      k == Len(gs)
      isStruct(tag) == \E i \in 1..Len(tg) : tg[i].tag = tag /\ tg[i].kind = "struct"
      nameOf(tag) == (CHOOSE i \in 1..Len(tg) : tg[i].tag = tag)
      ins == {<<158, 1, 7>>, <<0>>, <<255>>, <<6, 0>>, <<31, 254, 0>>}
  IN {[ty |-> t, cls |-> "nested", field |-> tg[nameOf(gs[j].tag)].name,
       in |-> Frame(t, pos \o Cat(SubSeq(gs, 1, j)) \o x \o Cat(SubSeq(gs, j + 1, k))),
       base |-> Frame(t, pos \o Cat(gs))] : <<j, x>> \in {y \in (1..k) \X ins : isStruct(gs[y[1]].tag)}}

\* a foreign group at the END of a nested container, with the parent's remaining groups behind the container: what the nested
\* struct did not consume and what follows its container are both handed on - nothing behind the container may get lost
NestedTailCases(t, v) ==
  LET tg == TaggedOf(t)
      gs == Groups(t, v)
      pos == PosBytes(t, v)
      k == Len(gs)
      fieldOf(tag) == tg[CHOOSE i \in 1..Len(tg) : tg[i].tag = tag]
      isStruct(tag) == fieldOf(tag).kind = "struct" /\ fieldOf(tag).card # "vec" /\ fieldOf(tag).len.s = "Tlv"
      \* re-wrap group j with the foreign bytes appended inside its container
      rewrap(j, x) == LET f == fieldOf(gs[j].tag)
                          inner == EncStruct(f.sub, IF f.card = "req" THEN v[f.name] ELSE v[f.name][1]) \o x IN
                      TagDefEnc(f.tag) \o LenEnc(f.len, Len(inner)) \o inner
      ins == {<<158, 1, 7>>, <<31, 254, 0>>, <<0>>, <<0, 0>>}
  IN {[ty |-> t, cls |-> "nestedtail",
       in |-> Frame(t, pos \o Cat(SubSeq(gs, 1, j - 1)) \o rewrap(j, x) \o Cat(SubSeq(gs, j + 1, k))),
       base |-> Frame(t, pos \o Cat(gs))] : <<j, x>> \in {y \in (1..k) \X ins : isStruct(gs[y[1]].tag)}}

\* the date / time group (TLV 1F0E / 1F0F inside one field): a repeated element is a duplicate naming that element
\* (the values matter: midnight, the first of January of the year 0 - zeros a decoder might take for "not seen yet")
DtDates == {<<31, 14, 4, 32, 35, 17, 5>>, <<31, 14, 4, 0, 0, 1, 1>>, <<31, 14, 4, 153, 153, 18, 49>>}
DtTimes == {<<31, 15, 3, 18, 52, 86>>, <<31, 15, 3, 0, 0, 0>>, <<31, 15, 3, 0, 0, 1>>, <<31, 15, 3, 35, 89, 89>>}
DtOrders == SetToSeq(
  UNION {{ [g |-> <<d, t1, t2>>, tag |-> 7951], [g |-> <<t1, d, t2>>, tag |-> 7951], [g |-> <<t1, t2>>, tag |-> 7951], [g |-> <<t1, t2, d>>, tag |-> 7951] }
         : <<d, t1, t2>> \in DtDates \X DtTimes \X DtTimes}
  \cup UNION {{ [g |-> <<d1, d2, t>>, tag |-> 7950], [g |-> <<d1, t, d2>>, tag |-> 7950], [g |-> <<t, d1, d2>>, tag |-> 7950], [g |-> <<d1, d2>>, tag |-> 7950] }
         : <<d1, d2, t>> \in DtDates \X DtDates \X DtTimes})
DtCases(t) ==
  LET tg == TaggedOf(t)
      idx == {i \in 1..Len(tg) : tg[i].kind = "datetime"} IN
  UNION {{LET body == Flatten(DtOrders[o].g) IN
          [ty |-> t, cls |-> "dup", tag |-> DtOrders[o].tag,
           in |-> Frame(t, PosBytes(t, MinVal(t)) \o TagDefEnc(tg[i].tag) \o LenEnc(tg[i].len, Len(body)) \o body),
           base |-> Frame(t, PosBytes(t, MinVal(t)))] : o \in 1..Len(DtOrders)} : i \in idx}

\* bytes behind a packet that carries something the library does not know (a foreign group between its own, or at the end of a nested
\* container): what follows the packet is handed back untouched all the same
FSuffixCases(t, v) ==
  LET fs == {x \in CasesOf(t, v) \cup NestedTailCases(t, v) : x.cls \in {"foreign", "nestedtail"}} IN
  {[ty |-> t, cls |-> "fsuffix", in |-> x.in \o sfx, base |-> x.in, tail |-> Len(sfx)] : x \in fs, sfx \in {<<0>>, <<6>>, <<128, 0, 0>>, <<31, 254>>}}

\* ---- all cases, as one sequence per type (computed once) -------------------------------------
SetSeq(S) == SetToSeq(S)
C13Of(i) == LET t == Types[i]
                bs == Bases(t) IN
            Flatten([b \in 1..Len(bs) |-> IF Canonical(t, bs[b]) THEN SetSeq(CasesOf(t, bs[b]) \cup NestedCases(t, bs[b]) \cup NestedTailCases(t, bs[b])) ELSE <<>>])
            \o SetSeq(DtCases(t))
            \o (IF Len(TaggedOf(t)) > W /\ Canonical(t, TypVal(t)) THEN SetSeq(CasesOf(t, TypVal(t))) ELSE <<>>)
C14Of(i) == LET t == Types[i]
                vs == AllValues[i]
                canon == SelectSeq(vs, LAMBDA v : Canonical(t, v))
                pick == IF Len(canon) = 0 THEN <<>> ELSE <<canon[1], canon[IF Len(canon) >= 2 THEN 2 ELSE 1], canon[Len(canon)]>> IN
            Flatten([b \in 1..Len(pick) |-> SuffixCases(t, pick[b], Suffixes)])
            \o (IF Canonical(t, TypVal(t)) THEN SetSeq(FSuffixCases(t, TypVal(t))) ELSE <<>>)
            \o Flatten([b \in 1..Len(canon) |->
                  IF Thorough \/ b % 8 = 0 THEN SuffixCases(t, canon[b], FewSuffixes) ELSE <<>>])

Which == IF "GEN_WHICH" \in DOMAIN IOEnv THEN IOEnv.GEN_WHICH ELSE "C13"
\* SubSeq forces TLC to materialise the table once instead of re-evaluating an entry per state
AllCasesF == [i \in 1..Len(Types) |-> IF Which = "C13" THEN (IF i \in TypeIdx THEN C13Of(i) ELSE <<>>)
                                      ELSE (IF IsCommand(Types[i]) THEN C14Of(i) ELSE <<>>)]
AllCases == SubSeq(AllCasesF, 1, Len(Types))

\* the state variable c of Gen_Values is reused: [t |-> type index, i |-> case index]
GStride == 16
GInit == \E t \in 1..Len(Types), i0 \in 1..GStride : i0 <= Len(AllCases[t]) /\ c = [t |-> t, i |-> i0]
GNext == c.i + GStride <= Len(AllCases[c.t]) /\ c' = [c EXCEPT !.i = @ + GStride]
GEmit == PrintT(<<"CASE", ToJson(AllCases[c.t][c.i])>>)
=============================================================================
