INIT GInit
NEXT GNext
INVARIANT PHolds
