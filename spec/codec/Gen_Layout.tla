------------------------------ MODULE Gen_Layout ------------------------------
(* Exports the layout table as JSON so that the harness's structure-aware     *)
(* random input generator (an input source, not an oracle) follows the        *)
(* specification's table rather than the code's attributes.                   *)
EXTENDS ZvtLayout, TLC, Json, IOUtils
ASSUME JsonSerialize(IOEnv.LAYOUT_OUT, [layout |-> Layout, command |-> Command])
VARIABLE x
Init == x = 0
Next == UNCHANGED x
=============================================================================
