------------------------------ MODULE ZvtLength ------------------------------
(* The length-prefix styles of the ZVT wire format, stated independently of *)
(* the code: Enc maps a payload length to its prefix, Dec parses a prefix   *)
(* off the front of a byte string and returns the announced length and the  *)
(* remaining bytes.  Leniencies of the shipped parser are named.            *)
EXTENDS Naturals, Sequences, Bytes

LOk(n, rest) == [ok |-> TRUE, len |-> n, rest |-> rest]
LErr(k)      == [ok |-> FALSE, err |-> k]

Styles == {"Empty", "Fixed", "Llv", "Lllv", "Tlv", "Adpu", "Temperature"}

(* ---- BER-TLV: one byte up to 127, 81 xx up to 255, 82 hh ll up to 65535 ---- *)
TlvMax == 65535
TlvEnc(n) == IF n <= 127 THEN <<n>>
             ELSE IF n <= 255 THEN <<129, n>>
             ELSE <<130, n \div 256, n % 256>>
TlvDec(b) ==
  IF Len(b) = 0 THEN LErr("Incomplete")
  ELSE IF b[1] <= 127 THEN LOk(b[1], Drop(b, 1))
  ELSE IF b[1] = 129 THEN (IF Len(b) < 2 THEN LErr("Incomplete") ELSE LOk(b[2], Drop(b, 2)))
  ELSE IF b[1] = 130 THEN (IF Len(b) < 3 THEN LErr("Incomplete") ELSE LOk(b[2] * 256 + b[3], Drop(b, 3)))
  \* longer forms are not implemented; one whose number does not even fit a machine word (more than eight length bytes, a non-zero
  \* byte in front of the last eight) is named as such: whatever a decoder may learn to accept, it must not take it for a small length
  ELSE IF b[1] - 128 >= 9 /\ Len(b) >= 1 + (b[1] - 128) /\ \E i \in 2..(b[1] - 128 - 7) : b[i] # 0 THEN LErr("Overflow")
  ELSE LErr("NonImplemented")
\* Leniency (named): 81 xx and 82 hh ll are accepted for any value, also ones that have a shorter form.
TlvLenient(b) == /\ Len(b) >= 2
                 /\ \/ b[1] = 129 /\ b[2] <= 127
                    \/ b[1] = 130 /\ Len(b) >= 3 /\ b[2] = 0

(* ---- APDU: one byte up to 254, FF lo hi from 255 ---- *)
AdpuMax == 65535
AdpuShortMax == 254
AdpuEnc(n) == IF n <= AdpuShortMax THEN <<n>> ELSE <<255, n % 256, n \div 256>>
AdpuDec(b) ==
  IF Len(b) = 0 THEN LErr("Incomplete")
  ELSE IF b[1] = 255 THEN (IF Len(b) < 3 THEN LErr("Incomplete") ELSE LOk(b[2] + 256 * b[3], Drop(b, 3)))
  ELSE LOk(b[1], Drop(b, 1))

(* ---- LLVAR / LLLVAR: N bytes F0|digit ---- *)
LlMax(N) == (10 ^ N) - 1
LlEnc(N, n) == [i \in 1..N |-> 240 + ((n \div (10 ^ (N - i))) % 10)]
\* Leniency (named LenientNibble): only the low nibble is read, and it is taken as a digit even if > 9.
LlVal(N, b) == LET F[i \in 0..N] == IF i = 0 THEN 0 ELSE F[i - 1] * 10 + LoNib(b[i]) IN F[N]
LlDec(N, b) == IF Len(b) < N THEN LErr("Incomplete") ELSE LOk(LlVal(N, b), Drop(b, N))

(* ---- Fixed<N>: no prefix, the payload is left-padded with NUL to N bytes ---- *)
FixedEnc(N, n) == Rep(0, N - n)            \* defined for n <= N only
FixedDec(N, b) == IF Len(b) < N THEN LErr("Incomplete") ELSE LOk(N, b)

(* ---- Empty: no prefix, the field takes the rest of its container ---- *)
EmptyEnc(n) == <<>>
EmptyDec(b) == LOk(Len(b), b)

(* ---- Feig temperature: 3 or 4 bytes, whatever is there ---- *)
TempDec(b) == IF Len(b) < 3 THEN LErr("Incomplete") ELSE LOk(Min(Len(b), 4), b)

(* ---- dispatch by style record [s |-> style, n |-> N] ---- *)
LenEnc(st, n) == CASE st.s = "Empty" -> <<>>
                   [] st.s = "Fixed" -> FixedEnc(st.n, n)
                   [] st.s = "Llv"   -> LlEnc(2, n)
                   [] st.s = "Lllv"  -> LlEnc(3, n)
                   [] st.s = "Tlv"   -> TlvEnc(n)
                   [] st.s = "Adpu"  -> AdpuEnc(n)
                   [] st.s = "Temperature" -> <<>>
LenDec(st, b) == CASE st.s = "Empty" -> EmptyDec(b)
                   [] st.s = "Fixed" -> FixedDec(st.n, b)
                   [] st.s = "Llv"   -> LlDec(2, b)
                   [] st.s = "Lllv"  -> LlDec(3, b)
                   [] st.s = "Tlv"   -> TlvDec(b)
                   [] st.s = "Adpu"  -> AdpuDec(b)
                   [] st.s = "Temperature" -> TempDec(b)
\* largest payload a style can announce (Fixed: exactly N; Empty: unbounded, here the APDU limit)
LenMax(st) == CASE st.s = "Empty" -> 65535
                [] st.s = "Fixed" -> st.n
                [] st.s = "Llv"   -> 99
                [] st.s = "Lllv"  -> 999
                [] st.s = "Tlv"   -> 65535
                [] st.s = "Adpu"  -> 65535
                [] st.s = "Temperature" -> 4
=============================================================================
