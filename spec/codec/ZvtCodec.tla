------------------------------- MODULE ZvtCodec -------------------------------
(* The reference codec: a generic serialiser and deserialiser interpreting   *)
(* the layout table.  A value of a struct type is a record keyed by field    *)
(* name; an optional field is <<>> or <<x>>; a repeated field a sequence; an  *)
(* integer a sequence of decimal digits; text / hex / raw values are byte    *)
(* sequences; a date-time is <<Y, M, D, h, m, s>>.                           *)
(*                                                                           *)
(* The deserialiser is implementation-shaped (I-spec): positional fields in  *)
(* declaration order, then a loop over tagged fields in arrival order with   *)
(* duplicate detection, a stop at the first unknown tag (UnknownTagStop), a  *)
(* progress guard (NoProgressStop), and the report of missing mandatory      *)
(* tags.  Every leniency of the shipped decoder is a named branch:           *)
(*   PositionalOptionalTry  an untagged Option is decoded by trying          *)
(*   UnknownTagStop         an unknown tag ends the struct, the rest is      *)
(*                          handed back to the enclosing container           *)
(*   LeakRemainder          bytes a field did not consume inside its own     *)
(*                          length are handed back and parsed as what follows *)
(*   NoProgressStop         a repeated tagged field whose first element does *)
(*                          not decode ends the struct                        *)
EXTENDS Naturals, Sequences, Bytes, Decimal, ZvtLength, ZvtEncoding, ZvtLayout, CP437

Fields(t) == Layout[t]
Positional(t) == SelectSeq(Fields(t), LAMBDA f : f.tag = NoTag)
Tagged(t) == SelectSeq(Fields(t), LAMBDA f : f.tag # NoTag)
FieldNames(t) == {Fields(t)[i].name : i \in 1..Len(Fields(t))}

(* ========================================================================= *)
(* serialiser                                                                *)
(* ========================================================================= *)
RECURSIVE EncStruct(_, _)

\* the payload of one present element of field f
Payload(f, x) == IF f.kind = "struct" THEN EncStruct(f.sub, x) ELSE Enc(f.enc, x)

\* tag ++ length prefix ++ payload.  A raw (binary) payload of length 0 is emitted as nothing at all.
EncOne(f, x) ==
  LET p == Payload(f, x) IN
  IF f.kind = "raw" /\ p = <<>> THEN <<>>
  ELSE (IF f.tag = NoTag THEN <<>> ELSE TagDefEnc(f.tag)) \o LenEnc(f.len, Len(p)) \o p

EncField(f, x) ==
  CASE f.card = "req" -> EncOne(f, x)
    [] f.card = "opt" -> (IF x = <<>> THEN <<>> ELSE EncOne(f, x[1]))
    [] f.card = "vec" -> Flatten([j \in 1..Len(x) |-> EncOne(f, x[j])])

EncStruct(t, v) == Flatten([i \in 1..Len(Fields(t)) |-> EncField(Fields(t)[i], v[Fields(t)[i].name])])

\* a whole packet: commands are framed as  class instr <APDU length> body
EncPacket(t, v) ==
  LET body == EncStruct(t, v) IN
  IF IsCommand(t) THEN <<Command[t][1], Command[t][2]>> \o AdpuEnc(Len(body)) \o body ELSE body

(* ========================================================================= *)
(* deserialiser                                                              *)
(* ========================================================================= *)
DOk(v, rest) == [ok |-> TRUE, val |-> v, rest |-> rest]
DErr(k, tags) == [ok |-> FALSE, err |-> k, tags |-> tags]

RECURSIVE DecStruct(_, _)

\* decode the payload of field f from exactly its window
DecPayload(f, w) == IF f.kind = "struct" THEN DecStruct(f.sub, w) ELSE Dec(f.enc, w)

\* length prefix, window, payload; what the payload did not consume and what follows the window
\* are handed back together (LeakRemainder)
DecBody(f, b) ==
  LET l == LenDec(f.len, b) IN
  IF ~l.ok THEN DErr(l.err, <<>>)
  ELSE IF l.len > Len(l.rest) THEN DErr("Incomplete", <<>>)
  ELSE LET r == DecPayload(f, Take(l.rest, l.len)) IN
       IF ~r.ok THEN r ELSE DOk(r.val, r.rest \o Drop(l.rest, l.len))

\* one element of a tagged field: the tag must be the field's
DecTaggedOne(f, b) ==
  LET t == TagDefDec(b) IN
  IF ~t.ok THEN DErr(t.err, <<>>)
  ELSE IF t.val # f.tag THEN DErr("WrongTag", <<t.val>>)
  ELSE DecBody(f, t.rest)

DecOneElem(f, b) == IF f.tag = NoTag THEN DecBody(f, b) ELSE DecTaggedOne(f, b)

\* repeated field: elements are taken while they decode
RECURSIVE DecVec(_, _, _)
DecVec(f, b, acc) ==
  LET r == DecOneElem(f, b) IN
  IF ~r.ok THEN DOk(acc, b) ELSE DecVec(f, r.rest, Append(acc, r.val))

\* a positional field
DecPositional(f, b) ==
  CASE f.card = "req" -> DecOneElem(f, b)
    [] f.card = "opt" -> LET r == DecOneElem(f, b) IN          \* PositionalOptionalTry
                         IF r.ok THEN DOk(<<r.val>>, r.rest) ELSE DOk(<<>>, b)
    [] f.card = "vec" -> DecVec(f, b, <<>>)

\* a tagged field whose tag was just seen
DecTagged(f, b) ==
  CASE f.card = "req" -> DecTaggedOne(f, b)
    [] f.card = "opt" -> LET r == DecTaggedOne(f, b) IN IF r.ok THEN DOk(<<r.val>>, r.rest) ELSE r
    [] f.card = "vec" -> DecVec(f, b, <<>>)

DefaultOf(f) == <<>>           \* Option -> None, Vec -> empty; a mandatory field has no default (its absence is an error)

\* positional fields in declaration order; st = [ok, vals (record so far), rest]
RECURSIVE DecPosSeq(_, _, _, _)
DecPosSeq(fs, i, vals, b) ==
  IF i > Len(fs) THEN [ok |-> TRUE, vals |-> vals, rest |-> b]
  ELSE LET r == DecPositional(fs[i], b) IN
       IF ~r.ok THEN r
       ELSE DecPosSeq(fs, i + 1, [n \in (DOMAIN vals) \cup {fs[i].name} |-> IF n = fs[i].name THEN r.val ELSE vals[n]], r.rest)

FieldWithTag(fs, tag) == SelectSeq(fs, LAMBDA f : f.tag = tag)

\* the loop over tagged fields; seen = set of tags already taken; prev = length at the previous iteration
RECURSIVE TagLoop(_, _, _, _, _)
TagLoop(fs, vals, seen, b, prev) ==
  IF Len(b) = 0 \/ Len(b) = prev THEN [ok |-> TRUE, vals |-> vals, seen |-> seen, rest |-> b]     \* end / NoProgressStop
  ELSE LET t == TagDefDec(b) IN
       IF ~t.ok THEN [ok |-> TRUE, vals |-> vals, seen |-> seen, rest |-> b]                      \* no tag readable: stop
       ELSE LET m == FieldWithTag(fs, t.val) IN
            IF m = <<>> THEN [ok |-> TRUE, vals |-> vals, seen |-> seen, rest |-> b]              \* UnknownTagStop
            ELSE IF t.val \in seen THEN DErr("DuplicateTag", <<t.val>>)
            ELSE LET f == m[1]
                     r == DecTagged(f, b) IN
                 IF ~r.ok THEN r
                 ELSE TagLoop(fs, [vals EXCEPT ![f.name] = r.val], seen \cup {t.val}, r.rest, Len(b))

\* ascending list of a finite set of naturals
RECURSIVE SortedSeq(_)
SortedSeq(S) == IF S = {} THEN <<>> ELSE LET m == CHOOSE x \in S : \A y \in S : x <= y IN <<m>> \o SortedSeq(S \ {m})

DecStruct(t, b) ==
  LET pos == Positional(t)
      tag == Tagged(t)
      p == DecPosSeq(pos, 1, <<>>, b) IN
  IF ~p.ok THEN p
  ELSE LET init == [n \in (DOMAIN p.vals) \cup {tag[i].name : i \in 1..Len(tag)} |->
                      IF n \in DOMAIN p.vals THEN p.vals[n] ELSE <<>>]
           l == TagLoop(tag, init, {}, p.rest, Len(p.rest) + 1) IN
       IF ~l.ok THEN l
       ELSE LET missing == {tag[i].tag : i \in {j \in 1..Len(tag) : tag[j].card = "req"}} \ l.seen IN
            IF missing # {} THEN DErr("MissingRequiredTags", SortedSeq(missing))
            ELSE DOk(l.vals, l.rest)

\* a whole packet as the public entry point sees it
DecPacket(t, b) ==
  IF ~IsCommand(t) THEN DecStruct(t, b)
  ELSE LET cf == TagBeDec(b) IN
       IF ~cf.ok THEN DErr(cf.err, <<>>)
       ELSE IF cf.val # Command[t][1] * 256 + Command[t][2] THEN DErr("WrongTag", <<cf.val>>)
       ELSE LET l == AdpuDec(cf.rest) IN
            IF ~l.ok THEN DErr(l.err, <<>>)
            ELSE IF l.len > Len(l.rest) THEN DErr("Incomplete", <<>>)
            ELSE LET r == DecStruct(t, Take(l.rest, l.len)) IN
                 IF ~r.ok THEN r ELSE DOk(r.val, r.rest \o Drop(l.rest, l.len))

(* ========================================================================= *)
(* canonical domain (DESIGN.md 5.1): fixed points of the reference codec     *)
(* ========================================================================= *)
Canonical(t, v) == DecPacket(t, EncPacket(t, v)) = DOk(v, <<>>)

(* ========================================================================= *)
(* observation form: how a value looks when read off the implementation's    *)
(* Debug output (numbers as digits, strings as Unicode code points)          *)
(* ========================================================================= *)
HexDigit(n) == IF n < 10 THEN 48 + n ELSE 87 + n
HexPoints(b) == [k \in 1..(2 * Len(b)) |-> IF k % 2 = 1 THEN HexDigit(HiNib(b[(k + 1) \div 2])) ELSE HexDigit(LoNib(b[k \div 2]))]

RECURSIVE ObsStruct(_, _)
ObsElem(f, x) ==
  CASE f.kind = "struct" -> ObsStruct(f.sub, x)
    [] f.kind = "int" -> x
    [] f.kind = "text" -> CP437ToUnicode(x)
    [] f.kind = "hex" -> HexPoints(x)
    [] f.kind = "utf8" -> Utf8Points(x)
    [] f.kind = "raw" -> [i \in 1..Len(x) |-> DFromInt(x[i])]
    [] f.kind = "datetime" -> x
ObsField(f, x) ==
  CASE f.card = "req" -> ObsElem(f, x)
    [] f.card = "opt" -> (IF x = <<>> THEN <<>> ELSE <<ObsElem(f, x[1])>>)
    [] f.card = "vec" -> [j \in 1..Len(x) |-> ObsElem(f, x[j])]
FieldByName(t, n) == LET m == SelectSeq(Fields(t), LAMBDA f : f.name = n) IN m[1]
ObsStruct(t, v) == [n \in FieldNames(t) |-> ObsField(FieldByName(t, n), v[n])]
=============================================================================
