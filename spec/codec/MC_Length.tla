------------------------------ MODULE MC_Length ------------------------------
(* C16 on the specification itself: every representable length of every      *)
(* style is a state (cases are states, the laws are invariants), and every   *)
(* one- and two-byte prefix string is a state of the parser table.           *)
EXTENDS ZvtLength, TLC

VARIABLE c   \* [k |-> "len", st |-> style, n |-> length]  or  [k |-> "pre", st |-> style, p |-> bytes]

FixedStyles == {[s |-> "Fixed", n |-> N] : N \in 1..17}
VarStyles == {[s |-> "Llv", n |-> 0], [s |-> "Lllv", n |-> 0], [s |-> "Tlv", n |-> 0], [s |-> "Adpu", n |-> 0]}
Stride == 64

Trailers == {<<>>, <<0>>, <<255>>, <<129, 1>>, <<130>>, <<1, 2, 3>>}

Init == \/ \E st \in VarStyles, n0 \in 0..(Stride - 1) :
              n0 <= LenMax(st) /\ c = [k |-> "len", st |-> st, n |-> n0]
        \/ \E st \in FixedStyles, n0 \in 0..17 :
              n0 <= st.n /\ c = [k |-> "len", st |-> st, n |-> n0]
        \/ \E st \in VarStyles, b0 \in 0..255 : c = [k |-> "pre", st |-> st, p |-> <<b0>>]

Next == \/ /\ c.k = "len" /\ c.st.s # "Fixed" /\ c.n + Stride <= LenMax(c.st)
           /\ c' = [c EXCEPT !.n = @ + Stride]
        \/ /\ c.k = "pre" /\ Len(c.p) = 1
           /\ \E b1 \in 0..255 : c' = [c EXCEPT !.p = Append(@, b1)]

(* decode(encode(n) ++ d) = (n, d), the data untouched *)
RoundTrip ==
  c.k = "len" /\ c.st.s # "Fixed" =>
    \A d \in Trailers : LenDec(c.st, LenEnc(c.st, c.n) \o d) = LOk(c.n, d)

(* fixed width: the padding completes the payload to exactly N bytes, and the parser hands *)
(* back N and the whole field                                                              *)
FixedPads ==
  c.k = "len" /\ c.st.s = "Fixed" =>
    LET pad == LenEnc(c.st, c.n)
        field == pad \o Rep(7, c.n) IN
      /\ Len(field) = c.st.n
      /\ \A i \in 1..Len(pad) : pad[i] = 0
      /\ \A d \in Trailers : LenDec(c.st, field \o d) = LOk(c.st.n, field \o d)
      /\ \A k \in 0..(c.st.n - 1) : LenDec(c.st, Rep(7, k)) = LErr("Incomplete")

(* a truncated prefix is an error *)
Truncated ==
  c.k = "len" /\ c.st.s # "Fixed" =>
    LET e == LenEnc(c.st, c.n) IN
      \A k \in 0..(Len(e) - 1) : LenDec(c.st, Take(e, k)) = LErr("Incomplete")

(* expected prefix sizes: the switch points of the format *)
Sizes ==
  c.k = "len" =>
    LET L == Len(LenEnc(c.st, c.n)) IN
      CASE c.st.s = "Tlv"  -> L = (IF c.n <= 127 THEN 1 ELSE IF c.n <= 255 THEN 2 ELSE 3)
        [] c.st.s = "Adpu" -> L = (IF c.n <= 254 THEN 1 ELSE 3)
        [] c.st.s = "Llv"  -> L = 2
        [] c.st.s = "Lllv" -> L = 3
        [] OTHER -> TRUE

(* shortest form, seen from the parser: whenever a complete prefix string p announces n,  *)
(* the emitted prefix for n is not longer than p                                           *)
Shortest ==
  c.k = "pre" =>
    LET r == LenDec(c.st, c.p) IN
      (r.ok /\ r.rest = <<>> /\ r.len <= LenMax(c.st)) => Len(LenEnc(c.st, r.len)) <= Len(c.p)

(* the parser is total on every prefix string and hands back a true suffix *)
ParserTotal ==
  c.k = "pre" =>
    LET r == LenDec(c.st, c.p) IN
      \/ ~r.ok /\ r.err \in {"Incomplete", "NonImplemented"}
      \/ r.ok /\ \E k \in 1..Len(c.p) : r.rest = Drop(c.p, k)
=============================================================================
