----------------------------- MODULE TraceScalar -----------------------------
(* impl -> spec for C17: one table of calls of a real scalar / text / tag     *)
(* encoder or decoder (harness: scalar-table) judged row by row against       *)
(* ZvtEncoding.  A disagreement prints ("BAD", row) - the property is         *)
(* violated there; an error of a different *kind* than the specification      *)
(* names prints ("KIND", row) and is only model drift.                        *)
EXTENDS ZvtEncoding, CP437, TLC, Json, IOUtils

Rows == JsonDeserialize(IOEnv.SCALAR_TABLE).rows
N == Len(Rows)
Block == 256
Seeds == 16
NBlocks == (N + Block - 1) \div Block

VARIABLE c
Init == \E b \in 0..(Seeds - 1) : b < NBlocks /\ c = b
Next == c + Seeds < NBlocks /\ c' = c + Seeds

WidthOf(ty) == CASE ty = "u8" -> 1 [] ty = "u16" -> 2 [] ty = "u32" -> 4 [] ty = "u64" -> 8 [] ty = "usize" -> 8

HexDigit(n) == IF n < 10 THEN 48 + n ELSE 87 + n
HexPoints(b) == [k \in 1..(2 * Len(b)) |-> IF k % 2 = 1 THEN HexDigit(HiNib(b[(k + 1) \div 2])) ELSE HexDigit(LoNib(b[k \div 2]))]
UnHex(cp) == IF cp <= 57 THEN cp - 48 ELSE cp - 87
HexBytes(p) == [k \in 1..(Len(p) \div 2) |-> UnHex(p[2 * k - 1]) * 16 + UnHex(p[2 * k])]
\* a code point outside the table maps to 999 (no byte): the comparison then fails instead of the evaluation
CP437FromUnicode(p) == [k \in 1..Len(p) |-> IF \E b \in 1..256 : CP437Table[b] = p[k] THEN (CHOOSE b \in 1..256 : CP437Table[b] = p[k]) - 1 ELSE 999]

\* what the specification expects, in the harness's shape [st, out, rest]
DecOut(r, show(_)) == IF r.ok THEN [st |-> "ok", out |-> show(r.val), rest |-> Len(r.rest), kind |-> ""]
                      ELSE [st |-> "err", out |-> <<>>, rest |-> 0, kind |-> r.err]
EncOut(b) == [st |-> "ok", out |-> b, rest |-> 0, kind |-> ""]
Id(x) == x

Known == {"Le", "Be", "Bcd", "TagDef", "TagBe", "Text", "Hex", "Utf8", "Receipt", "DateTime"}

Expected(row) ==
  LET enc == row.enc
      ty == row.ty
      op == row.op
      inp == row.in IN
  CASE enc = "Le" /\ op = "enc" -> EncOut(LeEnc(inp, WidthOf(ty)))
    [] enc = "Le" /\ op = "dec" -> DecOut(LeDec(inp, WidthOf(ty)), Id)
    [] enc = "Be" /\ op = "enc" -> EncOut(BeEnc(inp, WidthOf(ty)))
    [] enc = "Be" /\ op = "dec" -> DecOut(BeDec(inp, WidthOf(ty)), Id)
    [] enc = "Bcd" /\ op = "enc" -> EncOut(BcdEnc(inp))
    [] enc = "Bcd" /\ op = "dec" -> DecOut(BcdDec(inp, WidthOf(ty)), Id)
    [] enc = "TagDef" /\ op = "enc" -> EncOut(TagDefEnc(inp))
    [] enc = "TagDef" /\ op = "dec" -> DecOut(TagDefDec(inp), Id)
    [] enc = "TagBe" /\ op = "enc" -> EncOut(TagBeEnc(inp))
    [] enc = "TagBe" /\ op = "dec" -> DecOut(TagBeDec(inp), Id)
    [] enc = "Text" /\ op = "enc" -> EncOut(TextEnc(CP437FromUnicode(inp)))
    [] enc = "Text" /\ op = "dec" -> DecOut(TextDec(inp), CP437ToUnicode)
    [] enc = "Hex" /\ op = "enc" -> EncOut(HexEnc(HexBytes(inp)))
    [] enc = "Hex" /\ op = "dec" -> DecOut(HexDec(inp), HexPoints)
    [] enc = "Utf8" /\ op = "dec" -> DecOut(Utf8Dec(inp), Utf8Points)
    [] enc = "Receipt" /\ op = "enc" -> EncOut(ReceiptEnc(inp))
    [] enc = "Receipt" /\ op = "dec" -> DecOut(ReceiptDec(inp), Id)
    [] enc = "DateTime" /\ op = "enc" -> EncOut(DateTimeEnc(inp))
    [] enc = "DateTime" /\ op = "dec" -> DecOut(DateTimeDec(inp), Id)

\* the UTF-8 encoder is judged through the decoder: the bytes must decode to the same code points
Utf8EncOk(row) == row.st = "ok" /\ Utf8Valid(row.out) /\ Utf8Points(row.out) = row.in

\* outside the domain the property speaks about: BCD input with nibbles A-E (or F in the high position), tag numbers the
\* default tag encoding cannot represent - the shipped code reads them leniently; a different reading is model drift
OutOfDomain(row) == \/ (row.enc = "Bcd" /\ row.op = "dec" /\ ~BcdStrict(row.in))
                    \/ (row.enc = "TagDef" /\ row.op = "enc" /\ ~TagRepresentable(row.in))
                    \/ (row.enc = "Receipt" /\ row.op = "dec" /\ Len(row.in) >= 2 /\ ~(row.in[1] = 255 /\ row.in[2] = 255) /\ ~BcdStrict(SubSeq(row.in, 1, 2)))
Soften(row, v) == IF v = "bad" /\ OutOfDomain(row) /\ row.st # "panic" THEN "kind" ELSE v

RowVerdict0(i) ==
  LET row == Rows[i] IN
  IF row.enc \notin Known THEN "ok"
  ELSE IF row.enc = "Utf8" /\ row.op = "enc" THEN (IF Utf8EncOk(row) THEN "ok" ELSE "bad")
  ELSE LET exp == Expected(row) IN
       IF exp.st # row.st THEN "bad"
       ELSE IF exp.st = "err" THEN (IF exp.kind = row.kind \/ (exp.kind = "Overflow" /\ row.kind = "Incomplete") THEN "ok" ELSE "kind")
       ELSE IF exp.out = row.out /\ exp.rest = row.rest THEN "ok" ELSE "bad"

RowVerdict(i) == Soften(Rows[i], RowVerdict0(i))

Judge == \A i \in (c * Block + 1)..Min((c + 1) * Block, N) :
           LET v == RowVerdict(i) IN
             \/ v = "ok"
             \/ v = "kind" /\ PrintT(<<"KIND", i>>)
             \/ v = "bad" /\ PrintT(<<"BAD", i>>)
=============================================================================
