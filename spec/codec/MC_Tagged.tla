------------------------------- MODULE MC_Tagged -------------------------------
(* C13 / C14 on the specification itself: for every re-assembled case of       *)
(* Gen_C13 (permutation, duplicate, removal, foreign tag, suffix, bytes behind *)
(* a nested container) the REFERENCE decoder's outcome satisfies what the      *)
(* property demands.  Each case is a state; the invariant evaluates the        *)
(* reference decoder on the case's bytes.  Together with the conformance of    *)
(* the real decoder to the reference (TraceCodec) this is "I-spec => P-spec".  *)
EXTENDS Gen_C13

Case == AllCases[c.t][c.i]
Outcome(cs) == DecPacket(cs.ty, cs.in)
BaseVal(cs) == DecPacket(cs.ty, cs.base)

PermOk(cs) == cs.cls = "perm" => (Outcome(cs).ok /\ Outcome(cs).rest = <<>> /\ BaseVal(cs).ok /\ Outcome(cs).val = BaseVal(cs).val)
DupOk(cs) == cs.cls = "dup" => (~Outcome(cs).ok /\ Outcome(cs).err = "DuplicateTag" /\ Outcome(cs).tags = <<cs.tag>>)
MissingOk(cs) == cs.cls = "missing" => (~Outcome(cs).ok /\ Outcome(cs).err = "MissingRequiredTags" /\ Outcome(cs).tags = cs.missing)
ForeignOk(cs) == cs.cls = "foreign" =>
                   (~Outcome(cs).ok \/ (BaseVal(cs).ok /\ Outcome(cs).val = BaseVal(cs).val /\ Len(Outcome(cs).rest) = cs.tail))
SuffixOk(cs) == cs.cls = "suffix" =>
                   (Outcome(cs).ok /\ BaseVal(cs).ok /\ Outcome(cs).val = BaseVal(cs).val
                    /\ Outcome(cs).rest = SubSeq(cs.in, Len(cs.in) - cs.tail + 1, Len(cs.in)))
NestedOk(cs) == cs.cls = "nested" =>
                   (Outcome(cs).ok /\ BaseVal(cs).ok => Outcome(cs).val[cs.field] = BaseVal(cs).val[cs.field])

\* nestedtail: the reference hands on the unread tail of the nested container followed by what follows the container
NestedTailOk(cs) == cs.cls = "nestedtail" => (Outcome(cs).ok => Len(Outcome(cs).rest) > 0)

PHolds == NestedTailOk(Case) /\ PermOk(Case) /\ DupOk(Case) /\ MissingOk(Case) /\ ForeignOk(Case) /\ SuffixOk(Case) /\ NestedOk(Case)
=============================================================================
