------------------------------ MODULE TraceCodec ------------------------------
(* impl -> spec for the codec layer (C01, C02, C03, C13, C14): records of what *)
(* the real zvt_deserialize / zvt_serialize did (harness: codec-run) are read *)
(* from ndjson and judged against the reference codec.  Every block of        *)
(* records is a state.  For each record a set of flags is computed; a record  *)
(* with a non-empty set is printed as <<"FLAGS", index, flags>> and the run   *)
(* goes on.  Which flag is a violation of which property (and which is only   *)
(* model drift) is decided per case class by the driver - see DESIGN.md 3.3.  *)
EXTENDS ZvtCodec, TLC, Json, IOUtils, FiniteSets

Recs == ndJsonDeserialize(IOEnv.CODEC_TRACE)
N == Len(Recs)
Block == 64
Seeds == 16
NBlocks == (N + Block - 1) \div Block

VARIABLE c
Init == \E b \in 0..(Seeds - 1) : b < NBlocks /\ c = b
Next == c + Seeds < NBlocks /\ c' = c + Seeds

SameKind(a, b) == a = b \/ (a = "Overflow" /\ b \in {"Incomplete", "NonImplemented"})

Has(r, f) == f \in DOMAIN r

\* the value the reference decodes from the bytes in field `f` of the record, in observation form
RefObs(ty, bytes) == LET d == DecPacket(ty, bytes) IN IF d.ok THEN ObsStruct(ty, d.val) ELSE [undecodable |-> TRUE]

ClassFlags(r) ==
  LET cls == IF Has(r, "cls") THEN r.cls ELSE "" IN
  CASE cls = "perm" ->
         IF r.st = "ok" /\ r.rest = 0 /\ r.val = RefObs(r.ty, r.base) THEN {} ELSE {"P13-perm"}
    [] cls = "dup" ->
         IF r.st = "err" /\ r.kind = "DuplicateTag" /\ r.tags = <<r.tag>> THEN {} ELSE {"P13-dup"}
    [] cls = "missing" ->
         IF r.st = "err" /\ r.kind = "MissingRequiredTags" /\ r.tags = r.missing THEN {} ELSE {"P13-missing"}
    [] cls = "foreign" ->
         IF r.st = "err" \/ (r.st = "ok" /\ r.val = RefObs(r.ty, r.base) /\ r.rest = r.tail) THEN {} ELSE {"P13-foreign"}
    [] cls = "suffix" ->
         IF r.st = "ok" /\ r.val = RefObs(r.ty, r.base) /\ r.rest = r.tail THEN {} ELSE {"P14-suffix"}
    [] cls = "fsuffix" ->
         \* the same packet without the bytes behind it decodes (by the reference) to b: with them the value is the same and the rest is
         \* longer by exactly those bytes
         LET b == DecPacket(r.ty, r.base) IN
         IF b.ok /\ ~(r.st = "ok" /\ r.val = ObsStruct(r.ty, b.val) /\ r.rest = Len(b.rest) + r.tail) THEN {"P14-suffix"} ELSE {}
    [] cls = "nested" ->
         \* the nested container's value is what it was without the inserted bytes
         LET b == DecPacket(r.ty, r.base) IN
         IF r.st = "ok" /\ b.ok /\ r.field \in DOMAIN r.val /\ r.val[r.field] # ObsStruct(r.ty, b.val)[r.field]
         THEN {"P14-nested"} ELSE {}
    [] cls = "nestedtail" ->
         \* what a nested container leaves unread and what follows the container are both handed on (LeakRemainder), nothing is lost
         LET d == DecPacket(r.ty, r.in) IN
         \* (rejecting the packet because of the unknown tag would be fine: only a returned value is judged)
         IF d.ok /\ r.st = "ok" /\ (ObsStruct(r.ty, d.val) # r.val \/ Len(d.rest) # r.rest)
         THEN {"P14-nested-tail"} ELSE {}
    [] OTHER -> {}

Flags(r) ==
  IF r.st \in {"panic", "overalloc", "badrest", "hang"} THEN {"total"} \cup ClassFlags(r)
  ELSE LET d == DecPacket(r.ty, r.in) IN
    (IF d.ok /\ r.st = "ok" THEN
        LET same == ObsStruct(r.ty, d.val) = r.val /\ Len(d.rest) = r.rest IN
        IF ~same THEN {"value"}
        ELSE IF Canonical(r.ty, d.val)
             THEN (IF r.ost = "ok" /\ r.out = EncPacket(r.ty, d.val) THEN {} ELSE {"reenc"})
                  \cup (IF r.rt = "ok" THEN {} ELSE {"rt"})
                  \cup (IF Len(d.rest) = 0 THEN {} ELSE {})
             ELSE {"noncanon"}
     ELSE IF d.ok /\ r.st = "err" THEN {"ref-ok-impl-err"}
     \* the reference rejects the bytes because a number does not fit its field, the implementation returns a value: that value
     \* is a wrapped / narrowed number (C02), whatever else the implementation may be lenient about
     ELSE IF ~d.ok /\ r.st = "ok" THEN (IF d.err = "Overflow" THEN {"ref-err-impl-ok", "P02-wrapped"} ELSE {"ref-err-impl-ok"})
     ELSE (IF SameKind(d.err, r.kind) THEN {} ELSE {"kind"})
          \cup (IF d.tags = r.tags THEN {} ELSE {"tags"}))
    \cup ClassFlags(r)

Judge == \A i \in (c * Block + 1)..Min((c + 1) * Block, N) :
           LET f == Flags(Recs[i]) IN f = {} \/ PrintT(<<"FLAGS", i, ToJson(f)>>)
=============================================================================
