INIT Init
NEXT Next
INVARIANT RoundTrip
INVARIANT FixedPads
INVARIANT Truncated
INVARIANT Sizes
INVARIANT Shortest
INVARIANT ParserTotal
