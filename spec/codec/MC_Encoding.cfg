INIT Init
NEXT Next
INVARIANT SmallInts
INVARIANT Tags
INVARIANT WideInts
INVARIANT Overflow
INVARIANT BcdInputs
INVARIANT Text
INVARIANT Receipt
