INIT Init
NEXT Next
INVARIANT Total
INVARIANT ReEncodes
INVARIANT Truncated
