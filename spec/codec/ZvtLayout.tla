------------------------------ MODULE ZvtLayout ------------------------------
(* The wire layout of every packet and TLV container the library ships:     *)
(* per field its position or BMP / TLV tag number, its length-prefix style, *)
(* its value encoding and its cardinality; per command its class and        *)
(* instruction.  This table is a separate, hand-written artefact (see       *)
(* DESIGN.md, C03, for its provenance).  It is NOT produced from the derive *)
(* attributes and does not move when an attribute in the code is edited:    *)
(* that is what lets the conformance checks see a change that the encoder   *)
(* and the decoder make together.                                           *)
(*                                                                          *)
(* Type names: plain = zvt::packets, tlv_ = zvt::packets::tlv,              *)
(* feig_ = zvt::feig::packets, feig_tlv_ = zvt::feig::packets::tlv.         *)
EXTENDS Naturals, Sequences

(* ---- length styles ---- *)
Em     == [s |-> "Empty", n |-> 0]
Fx(n)  == [s |-> "Fixed", n |-> n]
Llv    == [s |-> "Llv", n |-> 0]
Lllv   == [s |-> "Lllv", n |-> 0]
Tlv    == [s |-> "Tlv", n |-> 0]
Temp   == [s |-> "Temperature", n |-> 0]

(* ---- value encodings; w = byte width of the integer type ---- *)
Le(w)  == [e |-> "Le", w |-> w]
Be(w)  == [e |-> "Be", w |-> w]
Bcd(w) == [e |-> "Bcd", w |-> w]
BcdU   == Bcd(8)                       \* usize on the 64-bit targets the crate is built for
Text   == [e |-> "Text", w |-> 0]
Hex    == [e |-> "Hex", w |-> 0]
Raw    == [e |-> "Raw", w |-> 0]
Utf8   == [e |-> "Utf8", w |-> 0]
Rcpt   == [e |-> "Receipt", w |-> 8]
DtTm   == [e |-> "DateTime", w |-> 0]
None   == [e |-> "Struct", w |-> 0]

NoTag == 99999
KindOf(enc) == CASE enc.e \in {"Le", "Be", "Bcd", "Receipt"} -> "int"
                 [] enc.e = "Text" -> "text" [] enc.e = "Hex" -> "hex" [] enc.e = "Raw" -> "raw"
                 [] enc.e = "Utf8" -> "utf8" [] enc.e = "DateTime" -> "datetime" [] enc.e = "Struct" -> "struct"

Fld(name, tag, len, card, enc, sub) ==
  [name |-> name, tag |-> tag, len |-> len, card |-> card, kind |-> KindOf(enc), enc |-> enc, sub |-> sub]

\* positional field / BMP field / TLV field (TLV fields always carry a BER-TLV length)
P(name, len, card, enc)        == Fld(name, NoTag, len, card, enc, "")
PS(name, len, card, sub)       == Fld(name, NoTag, len, card, None, sub)
B(name, tag, len, card, enc)   == Fld(name, tag, len, card, enc, "")
BS(name, tag, len, card, sub)  == Fld(name, tag, len, card, None, sub)
T(name, tag, card, enc)        == Fld(name, tag, Tlv, card, enc, "")
TS(name, tag, card, sub)       == Fld(name, tag, Tlv, card, None, sub)

U8 == Le(1)

(* the fields Authorization and Reservation share *)
PayCommon == <<
  B("amount", 4, Fx(6), "opt", BcdU),
  B("currency", 73, Fx(2), "opt", BcdU),
  B("payment_type", 25, Em, "opt", U8),
  B("expiry_date", 14, Fx(2), "opt", BcdU),
  B("card_number", 34, Llv, "opt", BcdU),
  B("track_2_data", 35, Llv, "opt", Hex),
  B("timeout", 1, Em, "opt", U8),
  B("maximum_no_of_status_info", 2, Em, "opt", U8),
  B("pump_no", 5, Em, "opt", U8) >>

Layout == [
  (* ------------------------------------------------------------ zvt::packets *)
  SetTimeAndDate |-> <<
    B("date", 170, Fx(3), "req", BcdU),                    \* AA  YYMMDD
    B("time", 12, Fx(3), "req", BcdU) >>,                  \* 0C  HHMMSS
  NumAndTotal |-> <<
    P("num", Em, "req", U8),
    P("total", Fx(6), "req", BcdU) >>,
  SingleAmounts |-> <<
    P("receipt_no_start", Fx(2), "req", BcdU),
    P("receipt_no_end", Fx(2), "req", BcdU),
    PS("girocard", Em, "req", "NumAndTotal"),
    PS("jcb", Em, "req", "NumAndTotal"),
    PS("eurocard", Em, "req", "NumAndTotal"),
    PS("amex", Em, "req", "NumAndTotal"),
    PS("visa", Em, "req", "NumAndTotal"),
    PS("diners", Em, "req", "NumAndTotal"),
    PS("others", Em, "req", "NumAndTotal") >>,
  StatusInformation |-> <<
    B("amount", 4, Fx(6), "opt", BcdU),                    \* 04  amount, 6 byte BCD
    B("trace_number", 11, Fx(3), "opt", BcdU),             \* 0B
    B("time", 12, Fx(3), "opt", BcdU),                     \* 0C  HHMMSS
    B("date", 13, Fx(2), "opt", BcdU),                     \* 0D  MMDD
    B("expiry_date", 14, Fx(2), "opt", BcdU),              \* 0E  YYMM
    B("card_sequence_number", 23, Fx(2), "opt", BcdU),     \* 17
    B("card_type", 25, Em, "opt", U8),                     \* 19
    B("card_number", 34, Llv, "opt", BcdU),                \* 22  PAN, LLVAR BCD
    B("track_2_data", 35, Llv, "opt", Hex),                \* 23
    B("result_code", 39, Fx(1), "opt", U8),                \* 27
    B("terminal_id", 41, Fx(4), "opt", BcdU),              \* 29
    B("vu_number", 42, Fx(15), "opt", Text),               \* 2A
    B("aid_authorization_attribute", 59, Fx(8), "opt", Text),   \* 3B
    B("additional_text", 60, Lllv, "opt", Text),           \* 3C
    BS("single_amounts", 96, Lllv, "opt", "SingleAmounts"),     \* 60
    B("receipt_no", 135, Fx(2), "opt", BcdU),              \* 87
    B("currency", 73, Fx(2), "opt", BcdU),                 \* 49
    B("zvt_card_type", 138, Em, "opt", U8),                \* 8A
    B("card_name", 139, Llv, "opt", Text),                 \* 8B
    B("zvt_card_type_id", 140, Em, "opt", U8),             \* 8C
    BS("tlv", 6, Tlv, "opt", "tlv_StatusInformation") >>,  \* 06  TLV container
  IntermediateStatusInformation |-> <<
    P("status", Em, "req", U8),
    P("timeout", Em, "opt", Bcd(1)) >>,
  StatusEnquiry |-> <<
    P("password", Fx(3), "opt", BcdU),
    B("service_byte", 3, Em, "opt", U8),
    BS("tlv", 6, Tlv, "opt", "tlv_StatusEnquiry") >>,
  Registration |-> <<
    P("password", Fx(3), "req", BcdU),
    P("config_byte", Em, "req", U8),
    P("currency", Fx(2), "opt", BcdU),
    BS("tlv", 6, Tlv, "opt", "tlv_Registration") >>,
  CompletionData |-> <<
    B("result_code", 39, Em, "opt", U8),
    B("status_byte", 25, Em, "opt", U8),
    B("terminal_id", 41, Fx(4), "opt", BcdU),
    B("currency", 73, Fx(2), "opt", BcdU) >>,
  ReceiptPrintoutCompletion |-> <<
    P("sw_version", Lllv, "req", Utf8),
    P("terminal_status_code", Em, "req", U8),
    BS("tlv", 6, Tlv, "opt", "tlv_ReceiptPrintoutCompletion") >>,
  ResetTerminal |-> << >>,
  PrintSystemConfiguration |-> << >>,
  SetTerminalId |-> <<
    P("password", Fx(3), "req", BcdU),
    B("terminal_id", 41, Fx(4), "opt", BcdU) >>,
  Abort |-> <<
    P("error", Em, "req", U8) >>,
  ReservationAbort |-> <<
    P("error", Em, "req", U8),
    P("currency", Fx(2), "opt", BcdU),
    BS("tlv", 6, Tlv, "opt", "tlv_ReservationAbort") >>,
  PartialReversalAbort |-> <<
    P("error", Em, "req", U8),
    B("receipt_no", 135, Fx(2), "opt", Rcpt) >>,
  Authorization |-> PayCommon \o <<
    B("additional_text", 60, Lllv, "opt", Text),
    B("zvt_card_type", 138, Em, "opt", U8),
    BS("tlv", 6, Tlv, "opt", "tlv_AuthData") >>,
  Reservation |-> PayCommon \o <<
    B("trace_number", 11, Fx(3), "opt", BcdU),
    B("aid_authorization_attribute", 59, Fx(8), "opt", Text),
    B("additional_text", 60, Lllv, "opt", Text),
    B("zvt_card_type", 138, Em, "opt", U8),
    BS("tlv", 6, Tlv, "opt", "tlv_PreAuthData") >>,
  PartialReversal |-> <<
    B("receipt_no", 135, Fx(2), "opt", Rcpt),
    B("amount", 4, Fx(6), "opt", BcdU),
    B("payment_type", 25, Em, "opt", U8),
    B("currency", 73, Fx(2), "opt", BcdU),
    BS("tlv", 6, Tlv, "opt", "tlv_PreAuthData") >>,
  PreAuthReversal |-> <<
    B("payment_type", 25, Em, "opt", U8),
    B("currency", 73, Fx(2), "opt", BcdU),
    B("receipt_no", 135, Fx(2), "opt", BcdU) >>,
  EndOfDay |-> <<
    P("password", Fx(3), "req", BcdU) >>,
  Diagnosis |-> <<
    BS("tlv", 6, Tlv, "opt", "tlv_Diagnosis") >>,
  Initialization |-> <<
    P("password", Fx(3), "req", BcdU) >>,
  ReadCard |-> <<
    P("timeout_sec", Em, "req", U8),
    B("card_type", 25, Em, "opt", U8),
    B("dialog_control", 252, Em, "opt", U8),               \* FC
    BS("tlv", 6, Tlv, "opt", "tlv_ReadCard") >>,
  PrintLine |-> <<
    P("attribute", Em, "req", U8),
    P("text", Em, "req", Text) >>,
  PrintTextBlock |-> <<
    BS("tlv", 6, Tlv, "opt", "tlv_PrintTextBlock") >>,
  SelectLanguage |-> <<
    P("language", Em, "req", U8) >>,
  Ack |-> << >>,
  (* ------------------------------------------------------------ zvt::packets::tlv *)
  Subs |-> <<
    T("card_type", 65, "opt", Hex),                        \* 41
    T("application_id", 67, "opt", Hex) >>,                \* 43
  SubsOnCard |-> <<
    TS("subs", 96, "vec", "Subs") >>,                      \* 60
  tlv_StatusInformation |-> <<
    T("uuid", 76, "opt", Hex),                             \* 4C
    T("maximum_pre_autorisation", 7947, "opt", BcdU),      \* 1F0B
    T("card_identification_item", 7956, "opt", Hex),       \* 1F14
    T("ats", 8005, "opt", Hex),                            \* 1F45
    T("card_type", 8012, "opt", U8),                       \* 1F4C
    T("sub_type", 8013, "opt", Hex),                       \* 1F4D
    T("atqa", 8015, "opt", Hex),                           \* 1F4F
    T("sak", 8016, "opt", U8),                             \* 1F50
    TS("subs", 96, "vec", "Subs"),                         \* 60
    TS("subs_on_card", 98, "opt", "SubsOnCard") >>,        \* 62
  tlv_StatusEnquiry |-> <<
    T("enable_extended_contactless_card_detection", 8178, "opt", U8) >>,   \* 1FF2
  DeviceInformation |-> <<
    T("device_name", 8000, "opt", Text),                   \* 1F40
    T("software_version", 8001, "opt", Text),              \* 1F41
    T("serial_number", 8002, "opt", BcdU),                 \* 1F42
    T("device_state", 8003, "opt", U8) >>,                 \* 1F43
  tlv_ReceiptPrintoutCompletion |-> <<
    T("terminal_id", 8004, "opt", BcdU),                   \* 1F44
    TS("device_information", 228, "opt", "DeviceInformation"),   \* E4
    T("date_time", 52, "opt", DtTm) >>,                    \* 34, holding 1F0E / 1F0F
  tlv_ReservationAbort |-> <<
    T("extended_error_code", 7958, "opt", BcdU),           \* 1F16
    T("extended_error_text", 7959, "opt", Text) >>,        \* 1F17
  Bmp60 |-> <<
    T("bmp_prefix", 8034, "req", Text),                    \* 1F62
    T("bmp_data", 8035, "req", Text) >>,                   \* 1F63
  tlv_AuthData |-> <<
    TS("bmp_data", 233, "opt", "Bmp60") >>,                \* E9
  tlv_PreAuthData |-> <<
    TS("bmp_data", 233, "opt", "Bmp60") >>,
  tlv_Diagnosis |-> <<
    T("diagnosis_type", 27, "opt", U8) >>,                 \* 1B
  tlv_ReadCard |-> <<
    T("card_reading_control", 7957, "opt", U8),            \* 1F15
    T("card_type", 8032, "opt", U8) >>,                    \* 1F60
  ZvtString |-> <<
    T("line", 7, "req", Text) >>,
  TextLines |-> <<
    T("lines", 7, "vec", Text),
    T("eol", 9, "opt", U8) >>,
  tlv_PrintTextBlock |-> <<
    T("receipt_type", 7943, "opt", U8),                    \* 1F07
    TS("lines", 37, "opt", "TextLines") >>,                \* 25
  tlv_Registration |-> <<
    T("max_len_adpu", 26, "opt", Be(2)) >>,                \* 1A, high byte first
  (* ------------------------------------------------------------ zvt::feig::packets *)
  feig_RequestForData |-> <<
    BS("tlv", 6, Tlv, "opt", "feig_tlv_WriteData") >>,
  feig_CVendFunctionsEnhancedSystemInformationCompletion |-> <<
    P("device_id", Fx(8), "req", Text),
    P("sw_version", Fx(17), "req", Text),
    P("terminal_id", Fx(8), "req", Text),
    P("temperature", Temp, "req", Text) >>,
  feig_WriteFile |-> <<
    P("password", Fx(3), "req", BcdU),
    BS("tlv", 6, Tlv, "opt", "feig_tlv_WriteFile") >>,
  feig_ChangeConfiguration |-> <<
    BS("tlv", 6, Tlv, "req", "feig_tlv_ChangeConfiguration") >>,
  feig_CVendFunctions |-> <<
    P("password", Fx(3), "opt", BcdU),
    P("instr", Em, "req", Be(2)) >>,
  feig_WriteData |-> <<
    BS("tlv", 6, Tlv, "opt", "feig_tlv_WriteData") >>,
  (* ------------------------------------------------------------ zvt::feig::packets::tlv *)
  feig_tlv_File |-> <<
    T("file_id", 29, "opt", U8),                           \* 1D
    T("file_offset", 30, "opt", Be(4)),                    \* 1E
    T("file_size", 7936, "opt", Be(4)),                    \* 1F00
    T("payload", 28, "opt", Raw) >>,                       \* 1C
  feig_tlv_WriteData |-> <<
    TS("file", 45, "opt", "feig_tlv_File") >>,             \* 2D
  feig_tlv_WriteFile |-> <<
    TS("files", 45, "vec", "feig_tlv_File") >>,
  feig_tlv_HostConfigurationData |-> <<
    P("ip", Em, "req", Be(4)),
    P("port", Em, "req", Be(2)),
    P("config_byte", Em, "req", Be(1)) >>,
  feig_tlv_SystemInformation |-> <<
    T("password", 65344, "req", BcdU),                     \* FF40
    TS("host_configuration_data", 65345, "opt", "feig_tlv_HostConfigurationData") >>,   \* FF41
  feig_tlv_ChangeConfiguration |-> <<
    TS("system_information", 228, "req", "feig_tlv_SystemInformation") >> ]   \* E4

(* class / instruction of the packets that are commands (APDU framed at top level) *)
Command == [
  SetTimeAndDate |-> <<4, 1>>, StatusInformation |-> <<4, 15>>, IntermediateStatusInformation |-> <<4, 255>>,
  StatusEnquiry |-> <<5, 1>>, Registration |-> <<6, 0>>, CompletionData |-> <<6, 15>>,
  ReceiptPrintoutCompletion |-> <<6, 15>>, ResetTerminal |-> <<6, 24>>, PrintSystemConfiguration |-> <<6, 26>>,
  SetTerminalId |-> <<6, 27>>, Abort |-> <<6, 30>>, ReservationAbort |-> <<6, 30>>, PartialReversalAbort |-> <<6, 30>>,
  Authorization |-> <<6, 1>>, Reservation |-> <<6, 34>>, PartialReversal |-> <<6, 35>>, PreAuthReversal |-> <<6, 37>>,
  EndOfDay |-> <<6, 80>>, Diagnosis |-> <<6, 112>>, Initialization |-> <<6, 147>>, ReadCard |-> <<6, 192>>,
  PrintLine |-> <<6, 209>>, PrintTextBlock |-> <<6, 211>>, SelectLanguage |-> <<8, 48>>, Ack |-> <<128, 0>>,
  feig_RequestForData |-> <<4, 12>>, feig_CVendFunctionsEnhancedSystemInformationCompletion |-> <<6, 15>>,
  feig_WriteFile |-> <<8, 20>>, feig_ChangeConfiguration |-> <<8, 19>>, feig_CVendFunctions |-> <<15, 161>>,
  feig_WriteData |-> <<128, 0>> ]

TypeNames == DOMAIN Layout
IsCommand(t) == t \in DOMAIN Command
=============================================================================
