----------------------------- MODULE TraceLength3 ----------------------------
(* All three-byte strings b0 b1 b2 for 16 values of b0: the outcome codes the *)
(* real parser produced (harness: len-de3) against ZvtLength.  One state per  *)
(* (b0, b1); the invariant ranges over b2.                                    *)
EXTENDS ZvtLength, TLC, Json, IOUtils

T == JsonDeserialize(IOEnv.LEN_DE3)
Style == CASE T.style = "Tlv" -> [s |-> "Tlv", n |-> 0]
           [] T.style = "Adpu" -> [s |-> "Adpu", n |-> 0]
           [] T.style = "Lllv" -> [s |-> "Lllv", n |-> 0]
           [] T.style = "Llv" -> [s |-> "Llv", n |-> 0]
N0 == Len(T.codes)

VARIABLES i, j
Init == i \in 1..N0 /\ j = 0
Next == j < 255 /\ j' = j + 1 /\ UNCHANGED i

Code(r, input) == IF r.ok THEN r.len * 8 + (Len(input) - Len(r.rest))
                  ELSE IF r.err = "Incomplete" THEN 0 - 1 ELSE 0 - 2
Judge == LET row == T.codes[i][j + 1] IN
         (\A b2 \in 0..255 : LET inp == <<T.lo + i - 1, j, b2>> IN row[b2 + 1] = Code(LenDec(Style, inp), inp))
         \/ PrintT(<<"BAD3", T.lo + i - 1, j>>)
=============================================================================
