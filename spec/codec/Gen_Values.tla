------------------------------ MODULE Gen_Values ------------------------------
(* spec -> impl generator for C01 / C03 (and the base values of C13 / C14):  *)
(* every value of ZvtValues!Values(t) of every type is a state; the state's  *)
(* case (type, reference bytes) is printed once as JSON.                     *)
EXTENDS ZvtValues

VARIABLE c    \* [t |-> index of the type, i |-> index of the value]
Stride == 16
Init == \E t \in 1..Len(Types), i0 \in 1..Stride : i0 <= Len(AllValues[t]) /\ c = [t |-> t, i |-> i0]
Next == c.i + Stride <= Len(AllValues[c.t]) /\ c' = [c EXCEPT !.i = @ + Stride]

CaseOf(cc) ==
  LET t == Types[cc.t]
      v == AllValues[cc.t][cc.i]
      bytes == EncPacket(t, v) IN
  [ty |-> t, cls |-> IF Canonical(t, v) THEN "canon" ELSE "gen-noncanon", vi |-> cc.i, in |-> bytes]

Emit == PrintT(<<"CASE", ToJson(CaseOf(c))>>)
=============================================================================
