----------------------------- MODULE TraceLength -----------------------------
(* impl -> spec for C16: the tables the harness recorded from the real       *)
(* Length::serialize / Length::deserialize are read from JSON; every block   *)
(* of rows is a state and each row is compared with ZvtLength.  A row that   *)
(* disagrees is printed ("BAD", ...) and the run goes on, so one run lists   *)
(* every disagreement.                                                       *)
EXTENDS ZvtLength, TLC, Json, IOUtils

Ser == JsonDeserialize(IOEnv.LEN_SER).rows
De  == JsonDeserialize(IOEnv.LEN_DE).rows
Block == 512
NSer == Len(Ser)
NDe  == Len(De)
Seeds == 32

VARIABLE c   \* [t |-> "ser" | "de", b |-> block number]

StyleOf(name) ==
  CASE name = "Empty" -> [s |-> "Empty", n |-> 0]
    [] name = "Llv"   -> [s |-> "Llv", n |-> 0]
    [] name = "Lllv"  -> [s |-> "Lllv", n |-> 0]
    [] name = "Tlv"   -> [s |-> "Tlv", n |-> 0]
    [] name = "Adpu"  -> [s |-> "Adpu", n |-> 0]
    [] name = "Fixed1" -> [s |-> "Fixed", n |-> 1]   [] name = "Fixed2" -> [s |-> "Fixed", n |-> 2]
    [] name = "Fixed3" -> [s |-> "Fixed", n |-> 3]   [] name = "Fixed4" -> [s |-> "Fixed", n |-> 4]
    [] name = "Fixed5" -> [s |-> "Fixed", n |-> 5]   [] name = "Fixed6" -> [s |-> "Fixed", n |-> 6]
    [] name = "Fixed7" -> [s |-> "Fixed", n |-> 7]   [] name = "Fixed8" -> [s |-> "Fixed", n |-> 8]
    [] name = "Fixed9" -> [s |-> "Fixed", n |-> 9]   [] name = "Fixed10" -> [s |-> "Fixed", n |-> 10]
    [] name = "Fixed11" -> [s |-> "Fixed", n |-> 11] [] name = "Fixed12" -> [s |-> "Fixed", n |-> 12]
    [] name = "Fixed13" -> [s |-> "Fixed", n |-> 13] [] name = "Fixed14" -> [s |-> "Fixed", n |-> 14]
    [] name = "Fixed15" -> [s |-> "Fixed", n |-> 15] [] name = "Fixed16" -> [s |-> "Fixed", n |-> 16]
    [] name = "Fixed17" -> [s |-> "Fixed", n |-> 17]

NBlocks(n) == (n + Block - 1) \div Block

Init == \E t \in {"ser", "de"}, b \in 0..(Seeds - 1) :
           b < NBlocks(IF t = "ser" THEN NSer ELSE NDe) /\ c = [t |-> t, b |-> b]
Next == /\ c.b + Seeds < NBlocks(IF c.t = "ser" THEN NSer ELSE NDe)
        /\ c' = [c EXCEPT !.b = @ + Seeds]

Rows(n) == {i \in (c.b * Block + 1)..Min((c.b + 1) * Block, n) : TRUE}

(* expected outcome code of a parser call, as the harness encodes it *)
Code(r, input) == IF r.ok THEN r.len * 8 + (Len(input) - Len(r.rest))
                  ELSE IF r.err = "Incomplete" THEN 0 - 1 ELSE 0 - 2

SerOk(i) == LET row == Ser[i]
                st == StyleOf(row[1]) IN
            row[3] = LenEnc(st, row[2])
DeOk(i) == LET row == De[i]
               st == StyleOf(row[1]) IN
           row[3] = Code(LenDec(st, row[2]), row[2])

\* The property speaks about the prefixes the format emits (and their truncations).  A parser input that is neither - a
\* non-shortest BER form, an LLVAR nibble above 9, an unknown first byte - is read leniently by the shipped code; the
\* specification mirrors that, but a different reading of such an input is only model drift (as long as it is no panic).
InDomain(i) ==
  LET row == De[i]
      st == StyleOf(row[1])
      r == LenDec(st, row[2]) IN
  \/ row[3] <= 0 - 4                                                          \* a panic / a remainder that is not the tail: always judged
  \/ (r.ok /\ r.len <= LenMax(st) /\ IsPrefixOf(LenEnc(st, r.len), row[2]))    \* an emitted prefix followed by data
  \/ (~r.ok /\ r.err = "Incomplete")                                          \* a truncated prefix
Judge == IF c.t = "ser"
         THEN \A i \in Rows(NSer) : SerOk(i) \/ PrintT(<<"BAD", "ser", i>>)
         ELSE \A i \in Rows(NDe)  : DeOk(i)  \/ (IF InDomain(i) THEN PrintT(<<"BAD", "de", i>>) ELSE PrintT(<<"LENIENT", "de", i>>))
=============================================================================
