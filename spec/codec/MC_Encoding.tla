----------------------------- MODULE MC_Encoding -----------------------------
(* C17 on the specification itself.  Cases are states; the laws are          *)
(* invariants.  u8 / u16 and all 65,536 tags are enumerated completely,      *)
(* wider integers at every digit-count and byte-count boundary, BCD inputs   *)
(* over the nibble classes {0, 9, A, F}.                                      *)
EXTENDS ZvtEncoding, TLC

VARIABLE c

Stride == 64
NibBytes == {h * 16 + l : h \in {0, 9, 10, 15}, l \in {0, 9, 10, 15}}
Widths == {1, 2, 4, 8}
Pow10(k) == <<1>> \o Rep(0, k)
Nines(k) == Rep(9, k)
Pow256(j) == DFromBE(<<1>> \o Rep(0, j))
\* boundary values of the wide integers: 10^k - 1, 10^k, 256^j - 1, 256^j, the maxima
Bounds == {Nines(k) : k \in 0..20} \cup {Pow10(k) : k \in 0..19}
          \cup {Pow256(j) : j \in 0..7} \cup {DSub(Pow256(j), <<1>>) : j \in 1..8}
          \cup {DMaxU(w) : w \in Widths}
TooBig == {Nines(k) : k \in 3..22} \cup {Pow10(k) : k \in 3..22} \cup {DMulAdd(DMaxU(w), 1, 1) : w \in Widths}
Trailers == {<<>>, <<0>>, <<255, 1>>}

Init == \/ \E n0 \in 0..(Stride - 1) : c = [k |-> "u16", n |-> n0]
        \/ \E n0 \in 0..(Stride - 1) : c = [k |-> "tag", n |-> n0]
        \/ \E d \in Bounds, w \in Widths : c = [k |-> "wide", d |-> d, w |-> w]
        \/ \E d \in TooBig, w \in Widths : c = [k |-> "big", d |-> d, w |-> w]
        \/ c = [k |-> "bcdin", b |-> <<>>]
        \/ \E b0 \in 0..255 : c = [k |-> "text", b |-> <<b0>>]
        \/ \E n0 \in 0..(Stride - 1) : c = [k |-> "rcpt", n |-> n0]

Next == \/ /\ c.k \in {"u16", "tag"} /\ c.n + Stride <= 65535 /\ c' = [c EXCEPT !.n = @ + Stride]
        \/ /\ c.k = "rcpt" /\ c.n + Stride <= 9999 /\ c' = [c EXCEPT !.n = @ + Stride]
        \/ /\ c.k = "bcdin" /\ Len(c.b) < 3 /\ \E x \in NibBytes : c' = [c EXCEPT !.b = Append(@, x)]
        \/ /\ c.k = "text" /\ Len(c.b) < 2 /\ \E x \in 0..255 : c' = [c EXCEPT !.b = Append(@, x)]

(* u8 and u16 completely: little endian, big endian and BCD are the identity after a round trip, *)
(* with any data behind the fixed-width forms left untouched                                    *)
SmallInts ==
  c.k = "u16" =>
    LET d == DFromInt(c.n) IN
      /\ \A t \in Trailers : LeDec(LeEnc(d, 2) \o t, 2) = EOk(d, t) /\ BeDec(BeEnc(d, 2) \o t, 2) = EOk(d, t)
      /\ LeEnc(d, 2) = <<c.n % 256, c.n \div 256>> /\ BeEnc(d, 2) = <<c.n \div 256, c.n % 256>>
      /\ BcdDec(BcdEnc(d), 2) = EOk(d, <<>>)
      /\ (c.n <= 255 => /\ LeDec(LeEnc(d, 1), 1) = EOk(d, <<>>) /\ BeDec(BeEnc(d, 1), 1) = EOk(d, <<>>)
                        /\ BcdDec(BcdEnc(d), 1) = EOk(d, <<>>))
      /\ (c.n > 255 => BcdDec(BcdEnc(d), 1) = EErr("Overflow"))
      /\ Len(BcdEnc(d)) = (Len(d) + 1) \div 2            \* most significant digit first, two digits a byte

(* every tag 0..65535 in both tag encodings *)
Tags ==
  c.k = "tag" =>
    /\ \A t \in Trailers : TagBeDec(TagBeEnc(c.n) \o t) = EOk(c.n, t)
    /\ TagRepresentable(c.n) => \A t \in Trailers : TagDefDec(TagDefEnc(c.n) \o t) = EOk(c.n, t)
    /\ TagRepresentable(c.n) => Len(TagDefEnc(c.n)) = (IF c.n <= 255 THEN 1 ELSE 2)

(* u32 / u64 at every digit-count and byte-count boundary *)
WideInts ==
  c.k = "wide" =>
    IF Fits(c.d, c.w)
    THEN /\ LeDec(LeEnc(c.d, c.w), c.w) = EOk(c.d, <<>>)
         /\ BeDec(BeEnc(c.d, c.w), c.w) = EOk(c.d, <<>>)
         /\ LeEnc(c.d, c.w) = Reverse(BeEnc(c.d, c.w))
         /\ BcdDec(BcdEnc(c.d), c.w) = EOk(c.d, <<>>)
    ELSE BcdDec(BcdEnc(c.d), c.w) = EErr("Overflow")

(* digits that do not fit the target integer are an error, never a wrapped value *)
Overflow ==
  c.k = "big" => (Fits(c.d, c.w) \/ BcdDec(BcdEnc(c.d), c.w) = EErr("Overflow"))

(* BCD parser: total on every nibble pattern; digits-only input with F padding decodes to its digits *)
BcdInputs ==
  c.k = "bcdin" =>
    \A w \in Widths :
      LET r == BcdDec(c.b, w) IN
        /\ (r.ok \/ r.err = "Overflow")
        /\ (BcdStrict(c.b) /\ r.ok) => r.val = DNorm(SelectSeq(Nibbles(c.b), NotF))
        /\ r.ok => Fits(r.val, w)

(* CP437 text: identity unless the text ends in NUL (the format cannot express that) *)
Text ==
  c.k = "text" =>
    /\ (c.b[Len(c.b)] # 0 => TextDec(TextEnc(c.b)) = EOk(c.b, <<>>))
    /\ HexDec(HexEnc(c.b)) = EOk(c.b, <<>>)
    /\ RawDec(RawEnc(c.b)) = EOk(c.b, <<>>)

(* receipt numbers 0..9999 in two BCD bytes, FFFF as the sentinel *)
Receipt ==
  c.k = "rcpt" =>
    LET d == DFromInt(c.n)
        e == ReceiptEnc(d)
        f == Rep(0, 2 - Len(e)) \o e IN
      /\ c.n <= 9999 => \A t \in Trailers : ReceiptDec(f \o t) = EOk(d, t)
      /\ ReceiptDec(ReceiptEnc(D65535) \o <<7>>) = EOk(D65535, <<7>>)
=============================================================================
