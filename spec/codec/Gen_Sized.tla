------------------------------ MODULE Gen_Sized -------------------------------
(* spec -> impl generator for C01 / C03: packets whose body (and with it the   *)
(* enclosing TLV / LLLVAR containers) sits on both sides of the length         *)
(* switches - BER-TLV 127/128 and 255/256, APDU 254/255.  Every (type,         *)
(* growable leaf, base value, leaf length 0..270) is a state; a state whose    *)
(* reference encoding has a body length in SwitchLens is printed as a case.    *)
EXTENDS ZvtValues

VARIABLE c    \* [t |-> type index, k |-> path index, b |-> 1 minimal / 2 typical base, n |-> leaf length]
Paths(t) == SetToSeq(GrowPaths(Types[t], 3))
Init == \E t \in 1..Len(Types), b \in 1..2 : \E k \in 1..Len(Paths(t)) : c = [t |-> t, k |-> k, b |-> b, n |-> 0]
Next == c.n < 270 /\ c' = [c EXCEPT !.n = @ + 1]

ValueOf(cc) == LET t == Types[cc.t] IN SetLeaf(t, IF cc.b = 1 THEN MinVal(t) ELSE TypVal(t), Paths(cc.t)[cc.k], cc.n)
Emit == LET t == Types[c.t]
            v == ValueOf(c) IN
        Len(EncStruct(t, v)) \in SwitchLens =>
          PrintT(<<"CASE", ToJson([ty |-> t, cls |-> IF Canonical(t, v) THEN "canon" ELSE "gen-noncanon", vi |-> 0, in |-> EncPacket(t, v)])>>)
=============================================================================
