----------------------------- MODULE ZvtEncoding -----------------------------
(* Value encodings of the ZVT wire format.  Integers are decimal digit       *)
(* sequences (module Decimal), text / hex / raw values are byte sequences,   *)
(* a date-time is <<Y, M, D, h, m, s>>.  Dec returns the value and the bytes *)
(* it did not consume; the greedy encodings (BCD, text, hex, raw, UTF-8)     *)
(* consume everything they are given.                                        *)
EXTENDS Naturals, Sequences, Bytes, Decimal, ZvtLength

EOk(v, rest) == [ok |-> TRUE, val |-> v, rest |-> rest]
EErr(k)      == [ok |-> FALSE, err |-> k, tags |-> <<>>]
EErrT(k, t)  == [ok |-> FALSE, err |-> k, tags |-> t]

(* ------------------------------------------------------------------ integers, little / big endian *)
LeEnc(d, w) == DToLE(d, w)
BeEnc(d, w) == DToBE(d, w)
LeDec(b, w) == IF Len(b) < w THEN EErr("Incomplete") ELSE EOk(DFromLE(Take(b, w)), Drop(b, w))
BeDec(b, w) == IF Len(b) < w THEN EErr("Incomplete") ELSE EOk(DFromBE(Take(b, w)), Drop(b, w))

(* ------------------------------------------------------------------ packed BCD *)
\* most significant digit first, two digits per byte, odd digit counts get a leading 0 nibble; 0 is the empty string
BcdEnc(d) == LET dd == IF Len(d) % 2 = 1 THEN <<0>> \o d ELSE d
             IN [i \in 1..(Len(dd) \div 2) |-> dd[2 * i - 1] * 16 + dd[2 * i]]

BcdStrict(b) == \A i \in 1..Len(b) : HiNib(b[i]) <= 9 /\ (LoNib(b[i]) <= 9 \/ LoNib(b[i]) = 15)
Nibbles(b) == [k \in 1..(2 * Len(b)) |-> IF k % 2 = 1 THEN HiNib(b[(k + 1) \div 2]) ELSE LoNib(b[k \div 2])]
NotF(x) == x # 15
\* digits 0-9 only; a low nibble F is padding and is skipped (F-padded odd-length input)
BcdStrictVal(b) == DNorm(SelectSeq(Nibbles(b), NotF))

Ovf == <<99>>   \* sentinel: no digit sequence contains 99
\* Leniency (named LenientNibble): nibbles A-E, and F in the high position, are taken arithmetically
\* (value*100 + high*10 + low); the recursion is along the bytes of the field.
BcdLenientVal(b, w) ==
  LET F[i \in 0..Len(b)] ==
        IF i = 0 THEN <<>>
        ELSE LET prev == F[i - 1] IN
             IF prev = Ovf THEN Ovf
             ELSE LET h == HiNib(b[i])
                      l == LoNib(b[i])
                      v == IF l # 15 THEN DMulAdd(prev, 100, h * 10 + l) ELSE DMulAdd(prev, 10, h)
                  IN IF Fits(v, w) THEN v ELSE Ovf
  IN F[Len(b)]
BcdVal(b, w) == IF BcdStrict(b)
                THEN LET v == BcdStrictVal(b) IN IF Fits(v, w) THEN v ELSE Ovf
                ELSE BcdLenientVal(b, w)
\* digits that do not fit the integer type are an error, never a wrapped value
BcdDec(b, w) == LET v == BcdVal(b, w) IN IF v = Ovf THEN EErr("Overflow") ELSE EOk(v, <<>>)

(* ------------------------------------------------------------------ text, hex, raw *)
TrailZ(b) == LET Z[i \in 0..Len(b)] ==
                   IF i = 0 THEN 0 ELSE IF b[i] # 0 THEN i ELSE Z[i - 1]
             IN Z[Len(b)]                        \* index of the last non-NUL byte
TextEnc(t) == t
TextDec(b) == EOk(Take(b, TrailZ(b)), <<>>)       \* CP437, trailing NUL stripped
HexEnc(h) == h
HexDec(b) == EOk(b, <<>>)
RawEnc(r) == r
RawDec(b) == EOk(b, <<>>)

(* UTF-8 well-formedness (RFC 3629, as Rust's String::from_utf8): the length of the sequence   *)
(* starting at position i, or 0 if ill-formed there.                                           *)
Cont(b, i) == i <= Len(b) /\ b[i] >= 128 /\ b[i] <= 191
In(b, i, lo, hi) == i <= Len(b) /\ b[i] >= lo /\ b[i] <= hi
Utf8SeqLen(b, i) ==
  LET x == b[i] IN
  IF x <= 127 THEN 1
  ELSE IF x >= 194 /\ x <= 223 THEN (IF Cont(b, i + 1) THEN 2 ELSE 0)
  ELSE IF x = 224 THEN (IF In(b, i + 1, 160, 191) /\ Cont(b, i + 2) THEN 3 ELSE 0)
  ELSE IF (x >= 225 /\ x <= 236) \/ x = 238 \/ x = 239 THEN (IF Cont(b, i + 1) /\ Cont(b, i + 2) THEN 3 ELSE 0)
  ELSE IF x = 237 THEN (IF In(b, i + 1, 128, 159) /\ Cont(b, i + 2) THEN 3 ELSE 0)
  ELSE IF x = 240 THEN (IF In(b, i + 1, 144, 191) /\ Cont(b, i + 2) /\ Cont(b, i + 3) THEN 4 ELSE 0)
  ELSE IF x >= 241 /\ x <= 243 THEN (IF Cont(b, i + 1) /\ Cont(b, i + 2) /\ Cont(b, i + 3) THEN 4 ELSE 0)
  ELSE IF x = 244 THEN (IF In(b, i + 1, 128, 143) /\ Cont(b, i + 2) /\ Cont(b, i + 3) THEN 4 ELSE 0)
  ELSE 0
Utf8Valid(b) ==
  LET V[i \in 1..(Len(b) + 1)] ==
        IF i > Len(b) THEN TRUE
        ELSE LET n == Utf8SeqLen(b, i) IN IF n = 0 THEN FALSE ELSE V[i + n]
  IN V[1]
Utf8Enc(u) == u
Utf8Dec(b) == IF Utf8Valid(b) THEN EOk(b, <<>>) ELSE EErr("Incomplete")
\* code points of a valid UTF-8 byte string (for comparison with what the code reports)
Utf8Points(b) ==
  LET P[i \in 1..(Len(b) + 1)] ==
        IF i > Len(b) THEN <<>>
        ELSE LET n == Utf8SeqLen(b, i)
                 cp == CASE n = 1 -> b[i]
                         [] n = 2 -> (b[i] % 32) * 64 + (b[i + 1] % 64)
                         [] n = 3 -> (b[i] % 16) * 4096 + (b[i + 1] % 64) * 64 + (b[i + 2] % 64)
                         [] n = 4 -> (b[i] % 8) * 262144 + (b[i + 1] % 64) * 4096 + (b[i + 2] % 64) * 64 + (b[i + 3] % 64)
             IN <<cp>> \o P[i + n]
  IN P[1]

(* ------------------------------------------------------------------ tags *)
\* BMP numbers and TLV tags: one byte, or two bytes when the first is 1F or FF
TagTwoByte(t) == (t \div 256) \in {31, 255}
TagRepresentable(t) == TagTwoByte(t) \/ (t <= 255 /\ t \notin {31, 255})
TagDefEnc(t) == IF TagTwoByte(t) THEN <<t \div 256, t % 256>> ELSE <<t % 256>>
TagDefDec(b) == IF Len(b) = 0 THEN EErr("Incomplete")
                ELSE IF b[1] \in {31, 255}
                     THEN (IF Len(b) < 2 THEN EErr("Incomplete") ELSE EOk(b[1] * 256 + b[2], Drop(b, 2)))
                     ELSE EOk(b[1], Drop(b, 1))
\* class / instruction of an APDU: always two bytes, big endian
TagBeEnc(t) == <<t \div 256, t % 256>>
TagBeDec(b) == IF Len(b) < 2 THEN EErr("Incomplete") ELSE EOk(b[1] * 256 + b[2], Drop(b, 2))

(* ------------------------------------------------------------------ receipt number with the FFFF sentinel *)
D65535 == <<6, 5, 5, 3, 5>>
ReceiptEnc(d) == IF d = D65535 THEN <<255, 255>> ELSE BcdEnc(d)
ReceiptDec(b) == IF Len(b) < 2 THEN EErr("Incomplete")
                 ELSE IF b[1] = 255 /\ b[2] = 255 THEN EOk(D65535, Drop(b, 2))
                 ELSE LET r == BcdDec(Take(b, 2), 8) IN IF r.ok THEN EOk(r.val, Drop(b, 2)) ELSE r

(* ------------------------------------------------------------------ date and time, TLV 1F0E / 1F0F inside the field *)
Leap(y) == (y % 4 = 0 /\ y % 100 # 0) \/ y % 400 = 0
DaysIn(y, m) == CASE m \in {1, 3, 5, 7, 8, 10, 12} -> 31
                  [] m \in {4, 6, 9, 11} -> 30
                  [] m = 2 -> IF Leap(y) THEN 29 ELSE 28
                  [] OTHER -> 0
ChronoMaxYear == 262143
ValidDate(y, m, d) == y <= ChronoMaxYear /\ m >= 1 /\ m <= 12 /\ d >= 1 /\ d <= DaysIn(y, m)
ValidTime(h, m, s) == h <= 23 /\ m <= 59 /\ s <= 59
Two(n) == << ((n \div 10) * 16) + (n % 10) >>
DateTimeEnc(v) == <<31, 14, 4>> \o Two(v[1] \div 100) \o Two(v[1] % 100) \o Two(v[2]) \o Two(v[3])
                  \o <<31, 15, 3>> \o Two(v[4]) \o Two(v[5]) \o Two(v[6])

\* one TLV-framed BCD number behind a tag already recognised: <<ok, digits, rest>>
TlvBcd(b, w) ==
  LET t == TagDefDec(b)
      l == TlvDec(t.rest) IN
  IF ~l.ok THEN EErr(l.err)
  ELSE IF l.len > Len(l.rest) THEN EErr("Incomplete")
  ELSE LET r == BcdDec(Take(l.rest, l.len), w) IN
       IF r.ok THEN EOk(r.val, Drop(l.rest, l.len)) ELSE r

RECURSIVE DtLoop(_, _, _)
\* st = [date |-> digits or <<99>>, time |-> digits or <<99>>]
DtLoop(b, date, time) ==
  IF Len(b) = 0 THEN [ok |-> TRUE, date |-> date, time |-> time, rest |-> b]
  ELSE LET t == TagDefDec(b) IN
       IF ~t.ok THEN EErr(t.err)
       ELSE IF t.val = 7950 THEN          \* 1F0E
              (IF date # Ovf THEN EErrT("DuplicateTag", <<7950>>)
               ELSE LET r == TlvBcd(b, 8) IN IF r.ok THEN DtLoop(r.rest, r.val, time) ELSE r)
       ELSE IF t.val = 7951 THEN          \* 1F0F
              (IF time # Ovf THEN EErrT("DuplicateTag", <<7951>>)
               ELSE LET r == TlvBcd(b, 4) IN IF r.ok THEN DtLoop(r.rest, date, r.val) ELSE r)
       ELSE [ok |-> TRUE, date |-> date, time |-> time, rest |-> b]

\* split a digit string into <<leading part as an int (or -1 if too long for an int), last k digits as an int>>
LastK(d, k) == DToInt(IF Len(d) > k THEN SubSeq(d, Len(d) - k + 1, Len(d)) ELSE d)
LeadK(d, k) == IF Len(d) <= k THEN 0 ELSE IF Len(d) - k > 8 THEN 999999999 ELSE DToInt(SubSeq(d, 1, Len(d) - k))

DateTimeDec(b) ==
  LET l == DtLoop(b, Ovf, Ovf) IN
  IF ~l.ok THEN l
  ELSE IF l.date = Ovf \/ l.time = Ovf THEN EErr("Incomplete")
  ELSE LET y == LeadK(l.date, 4)
           md == LastK(l.date, 4)
           hh == LeadK(l.time, 4)
           ms == LastK(l.time, 4) IN
       IF ValidDate(y, md \div 100, md % 100) /\ ValidTime(hh, ms \div 100, ms % 100)
       THEN EOk(<<y, md \div 100, md % 100, hh, ms \div 100, ms % 100>>, l.rest)
       ELSE EErr("Overflow")       \* a number outside the range of its calendar field: no valid date-time may come out of it

(* ------------------------------------------------------------------ dispatch by encoding record [e |-> name, w |-> bytes] *)
Enc(e, v) == CASE e.e = "Le"  -> LeEnc(v, e.w)
               [] e.e = "Be"  -> BeEnc(v, e.w)
               [] e.e = "Bcd" -> BcdEnc(v)
               [] e.e = "Text" -> TextEnc(v)
               [] e.e = "Hex" -> HexEnc(v)
               [] e.e = "Raw" -> RawEnc(v)
               [] e.e = "Utf8" -> Utf8Enc(v)
               [] e.e = "Receipt" -> ReceiptEnc(v)
               [] e.e = "DateTime" -> DateTimeEnc(v)
Dec(e, b) == CASE e.e = "Le"  -> LeDec(b, e.w)
               [] e.e = "Be"  -> BeDec(b, e.w)
               [] e.e = "Bcd" -> BcdDec(b, e.w)
               [] e.e = "Text" -> TextDec(b)
               [] e.e = "Hex" -> HexDec(b)
               [] e.e = "Raw" -> RawDec(b)
               [] e.e = "Utf8" -> Utf8Dec(b)
               [] e.e = "Receipt" -> ReceiptDec(b)
               [] e.e = "DateTime" -> DateTimeDec(b)
\* the encodings whose decoder consumes everything it is given
Greedy(e) == e.e \in {"Bcd", "Text", "Hex", "Raw", "Utf8"}
=============================================================================
