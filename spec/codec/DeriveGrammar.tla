----------------------------- MODULE DeriveGrammar -----------------------------
(* C12: the attribute grammar of #[derive(Zvt)].  A behaviour of this          *)
(* specification is a struct definition: fields are added one at a time        *)
(* (AddField) and the definition is finished (Finish); every finished          *)
(* definition that is well-formed is printed once as JSON.  The generator      *)
(* turns each definition into Rust source with the derive attributes AND into  *)
(* a layout record for the reference codec - the same description read twice.  *)
(*                                                                             *)
(* Well-formedness (what makes a definition describe a wire format at all):    *)
(*   - positional fields come before tagged ones                               *)
(*   - tags are representable (one byte, not 1F / FF; or two bytes 1Fxx/FFxx)  *)
(*     and distinct within the struct                                          *)
(*   - an encoding is only used on a type that implements it                   *)
(*   - a field that consumes the rest of its container (no length prefix and a *)
(*     variable-width encoding) is the last field, and positional              *)
(*   - fixed width: integers little/big endian in exactly their width; BCD     *)
(*     numbers whose digits fit; text / hex of exactly that many bytes         *)
(*   - a repeated positional field has self-delimiting elements and is last    *)
(*   - an untagged optional field is not followed by anything                  *)
EXTENDS Naturals, Sequences, FiniteSets, TLC, Json, IOUtils

MaxFields == IF "DG_FIELDS" \in DOMAIN IOEnv THEN atoi(IOEnv.DG_FIELDS) ELSE 2

\* Rust types
IntTypes == {"u8", "u16", "u32", "u64", "usize"}
Nested == {"N1", "N2", "N3"} \* N1: two optional TLV fields; N2: u8 then a 2-byte BCD number (fixed width, all positional);
                             \* N3: a REQUIRED TLV field and an optional one (decoding it from nothing is an error, not an empty value)

\* one field variant: [attr, ty, enc, len, n (fixed width), card]
IntEncs == {"Le", "Be", "Bcd"}
StrEncs == {"Text", "Hex", "Utf8"}
Lens == {"Empty", "Fixed", "Llv", "Lllv", "Tlv"}
Cards == {"req", "opt", "vec"}
Attrs == {"pos", "bmp", "tlv"}

WidthOf(t) == CASE t = "u8" -> 1 [] t = "u16" -> 2 [] t = "u32" -> 4 [] OTHER -> 8
FixedWidths(f) ==
  IF f.ty \in IntTypes /\ f.enc \in {"Le", "Be"} THEN {WidthOf(f.ty)}
  ELSE IF f.ty \in IntTypes THEN (IF f.ty = "u8" THEN {1} ELSE IF f.ty = "u16" THEN {1, 2} ELSE {1, 3})     \* BCD digits must fit the integer
  ELSE {4}

Variants ==
  {f \in [attr : Attrs, ty : IntTypes \cup {"String"} \cup Nested, enc : IntEncs \cup StrEncs \cup {"Struct"}, len : Lens, n : {0, 1, 2, 3, 4, 8}, card : Cards] :
     \* encodings per type
     /\ (f.ty \in IntTypes => f.enc \in IntEncs) /\ (f.ty = "String" => f.enc \in StrEncs) /\ (f.ty \in Nested => f.enc = "Struct")
     \* a TLV attribute always carries a BER-TLV length; positional / BMP fields choose
     /\ (f.attr = "tlv" => f.len = "Tlv")
     /\ (f.len = "Fixed" => f.n \in FixedWidths(f)) /\ (f.len # "Fixed" => f.n = 0)
     \* fixed width nested structs: only the all-positional fixed one, at its size
     /\ (f.ty \in Nested /\ f.len = "Fixed" => FALSE)
     /\ (f.ty = "N1" => f.len \in {"Llv", "Lllv", "Tlv"})
     /\ (f.ty = "N2" => f.len \in {"Empty", "Llv", "Tlv"})
     /\ (f.ty = "N3" => f.len \in {"Empty", "Llv", "Tlv"})
     \* keep the variant count manageable: u32 / u64 only in their natural encodings
     /\ (f.ty \in {"u32", "u64"} => (f.enc # "Bcd" /\ f.len \in {"Empty", "Tlv"}))
     /\ (f.card = "vec" => f.len # "Fixed" \/ f.ty \in IntTypes)}

\* consumes the rest of its container
Greedy(f) == f.len = "Empty" /\ (f.enc \in {"Bcd", "Text", "Hex", "Utf8"} \/ f.ty = "N3")
SelfDelimiting(f) == f.len \in {"Llv", "Lllv", "Tlv", "Fixed"} \/ (f.len = "Empty" /\ (f.enc \in {"Le", "Be"} \/ f.ty = "N2"))

WellFormed(fs) ==
  /\ \A i \in 1..Len(fs) : \A j \in 1..Len(fs) : (fs[i].attr # "pos" /\ fs[j].attr = "pos") => j < i            \* positional first
  /\ \A i \in 1..Len(fs) : Greedy(fs[i]) => i = Len(fs)
  \* ... and positional: tagged fields may arrive in any order, so none of them can be the one that takes the rest
  /\ \A i \in 1..Len(fs) : Greedy(fs[i]) => fs[i].attr = "pos"
  /\ \A i \in 1..Len(fs) : (fs[i].attr = "pos" /\ fs[i].card = "vec") => (SelfDelimiting(fs[i]) /\ i = Len(fs))
  /\ \A i \in 1..Len(fs) : (fs[i].attr = "pos" /\ fs[i].card = "opt") => i = Len(fs)
  \* a greedy element cannot repeat
  /\ \A i \in 1..Len(fs) : (fs[i].card = "vec") => ~Greedy(fs[i])

VARIABLES fs, done
Init == fs = <<>> /\ done = FALSE
AddField == /\ ~done /\ Len(fs) < MaxFields
            /\ \E f \in Variants : fs' = Append(fs, f) /\ WellFormed(Append(fs, f))
            /\ UNCHANGED done
Finish == /\ ~done /\ Len(fs) >= 1 /\ done' = TRUE /\ UNCHANGED fs
Next == AddField \/ Finish

\* tags are assigned by position: BMP numbers 0x21.., TLV tags alternate one- and two-byte forms
TagOf(i, f) == IF f.attr = "pos" THEN 99999 ELSE IF f.attr = "bmp" THEN 32 + i ELSE IF i % 2 = 1 THEN 64 + i ELSE 7936 + 64 + i
Def == [fields |-> [i \in 1..Len(fs) |-> [attr |-> fs[i].attr, ty |-> fs[i].ty, enc |-> fs[i].enc, len |-> fs[i].len, n |-> fs[i].n,
                                           card |-> fs[i].card, tag |-> TagOf(i, fs[i])]]]
Emit == done => PrintT(<<"CASE", ToJson(Def)>>)
=============================================================================
