INIT Init
NEXT Next
