------------------------------ MODULE MC_Decoder ------------------------------
(* C02 on the specification itself: the reference decoder is total.  Every   *)
(* (type, body) is a state: all bodies up to FullLen bytes over all 256 byte *)
(* values, longer ones up to MaxLen over a per-type alphabet (the type's tag *)
(* bytes plus length / nibble bytes).  The invariant evaluates the decoder   *)
(* on the state's input: an application outside a sequence's domain - the    *)
(* specification-level analogue of a slice panic - would make TLC fail.      *)
EXTENDS ZvtCodec, TLC, IOUtils, FiniteSets

FullLen == IF "MC_FULL" \in DOMAIN IOEnv THEN atoi(IOEnv.MC_FULL) ELSE 1
MaxLen  == IF "MC_MAX" \in DOMAIN IOEnv THEN atoi(IOEnv.MC_MAX) ELSE 3

SetToSeq(S) == LET RECURSIVE H(_)
                   H(X) == IF X = {} THEN <<>> ELSE LET x == CHOOSE y \in X : TRUE IN <<x>> \o H(X \ {x})
               IN H(S)
Types == SetToSeq(TypeNames)

TagBytes(t) == UNION {{Fields(t)[i].tag \div 256, Fields(t)[i].tag % 256} : i \in {j \in 1..Len(Fields(t)) : Fields(t)[j].tag # NoTag}}
AlphabetF == [i \in 1..Len(Types) |-> {0, 1, 2, 127, 128, 129, 130, 131, 240, 249, 255, 153} \cup TagBytes(Types[i])]
Alphabet == SubSeq(AlphabetF, 1, Len(Types))

VARIABLE c    \* [t |-> type index, b |-> body]
Init == \E t \in 1..Len(Types) : c = [t |-> t, b |-> <<>>]
Next == /\ Len(c.b) < MaxLen
        /\ \E x \in (IF Len(c.b) < FullLen THEN 0..255 ELSE Alphabet[c.t]) : c' = [c EXCEPT !.b = Append(@, x)]

Input(cc) == LET t == Types[cc.t] IN
             IF IsCommand(t) THEN <<Command[t][1], Command[t][2]>> \o AdpuEnc(Len(cc.b)) \o cc.b ELSE cc.b

ErrKinds == {"Incomplete", "NonImplemented", "WrongTag", "DuplicateTag", "MissingRequiredTags", "Overflow"}

\* value or error, and the remainder is a true tail of the input
Total == LET inp == Input(c)
             r == DecPacket(Types[c.t], inp) IN
         IF r.ok THEN Len(r.rest) <= Len(inp) /\ r.rest = Drop(inp, Len(inp) - Len(r.rest))
         ELSE r.err \in ErrKinds

\* what was decoded re-encodes without an evaluation error, and a canonical result is a fixed point
ReEncodes == LET inp == Input(c)
                 r == DecPacket(Types[c.t], inp) IN
             r.ok => Len(EncPacket(Types[c.t], r.val)) >= 0

\* a truncated command is an error, never a value
Truncated == LET inp == Input(c) IN
             IsCommand(Types[c.t]) => \A k \in 0..(Len(inp) - 1) : ~DecPacket(Types[c.t], Take(inp, k)).ok
=============================================================================
