------------------------------- MODULE Bytes -------------------------------
(* Byte-sequence helpers shared by every layer.  A byte string is a TLA+   *)
(* sequence over 0..255.  Nothing here recurses along a payload: all       *)
(* operators are function constructors / SubSeq, so 64 KiB bodies are fine. *)
EXTENDS Naturals, Sequences

Byte == 0..255

Take(s, n) == SubSeq(s, 1, IF n < Len(s) THEN n ELSE Len(s))
Drop(s, n) == SubSeq(s, n + 1, Len(s))
Min(a, b) == IF a < b THEN a ELSE b
Max(a, b) == IF a > b THEN a ELSE b

Rep(b, n) == [i \in 1..n |-> b]

HiNib(b) == b \div 16
LoNib(b) == b % 16

IsPrefixOf(p, s) == Len(p) <= Len(s) /\ SubSeq(s, 1, Len(p)) = p

(* Concatenate a sequence of byte strings without recursion along any one  *)
(* of them (recursion depth = number of pieces).                            *)
RECURSIVE Flatten(_)
Flatten(ss) == IF ss = <<>> THEN <<>> ELSE Head(ss) \o Flatten(Tail(ss))

(* Little / big endian of a natural that fits TLC's 32-bit integers.       *)
LE(n, w) == [i \in 1..w |-> (n \div (256 ^ (i - 1))) % 256]
BE(n, w) == [i \in 1..w |-> (n \div (256 ^ (w - i))) % 256]
FromLE(b) == IF Len(b) = 0 THEN 0 ELSE
             LET F[i \in 0..Len(b)] == IF i = 0 THEN 0 ELSE F[i - 1] + b[i] * (256 ^ (i - 1)) IN F[Len(b)]
FromBE(b) == IF Len(b) = 0 THEN 0 ELSE
             LET F[i \in 0..Len(b)] == IF i = 0 THEN 0 ELSE F[i - 1] * 256 + b[i] IN F[Len(b)]
=============================================================================
