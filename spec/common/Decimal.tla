------------------------------ MODULE Decimal ------------------------------
(* Naturals as sequences of decimal digits, most significant first, no     *)
(* leading zero; <<>> is 0.  TLC integers are 32-bit, but amounts go to    *)
(* 10^12 and BCD / integer fields to u64, so every quantity that can leave *)
(* 31 bits is carried in this form, and the reference converts decimal to  *)
(* base 256 / BCD itself.  Recursion is along the digits (<= ~200) or the   *)
(* byte width (<= 8), never along a payload.                                *)
EXTENDS Naturals, Sequences, Bytes

Digit == 0..9

IsDigits(d) == \A i \in 1..Len(d) : d[i] \in Digit
IsNormal(d) == IsDigits(d) /\ (Len(d) > 0 => d[1] # 0)

\* number of leading zeros
LeadZ(d) == LET Z[i \in 0..Len(d)] ==
                   IF i = Len(d) THEN i ELSE IF d[i + 1] # 0 THEN i ELSE Z[i + 1]
            IN Z[0]
DNorm(d) == Drop(d, LeadZ(d))

RECURSIVE DFromIntR(_)
DFromIntR(n) == IF n = 0 THEN <<>> ELSE Append(DFromIntR(n \div 10), n % 10)
DFromInt(n) == DFromIntR(n)

\* only for values known to fit
DToInt(d) == IF Len(d) = 0 THEN 0 ELSE
             LET F[i \in 0..Len(d)] == IF i = 0 THEN 0 ELSE F[i - 1] * 10 + d[i] IN F[Len(d)]

\* comparison of normalised digit strings
DLt(a, b) == \/ Len(a) < Len(b)
             \/ /\ Len(a) = Len(b)
                /\ \E i \in 1..Len(a) : /\ a[i] < b[i]
                                        /\ \A j \in 1..(i - 1) : a[j] = b[j]
DLeq(a, b) == a = b \/ DLt(a, b)

\* d * m + a   for small m, a (m <= 256, a < 2^20)
DMulAdd(d, m, a) ==
  LET n == Len(d)
      carry[i \in 0..n] == IF i = 0 THEN a ELSE (d[n - i + 1] * m + carry[i - 1]) \div 10
      digit[i \in 1..n] == (d[n - i + 1] * m + carry[i - 1]) % 10
  IN DNorm(DFromInt(carry[n]) \o [i \in 1..n |-> digit[n - i + 1]])

\* <<d \div m, d % m>>  for small m (<= 256)
DDivMod(d, m) ==
  LET n == Len(d)
      rem[i \in 0..n] == IF i = 0 THEN 0 ELSE (rem[i - 1] * 10 + d[i]) % m
      q == [i \in 1..n |-> (rem[i - 1] * 10 + d[i]) \div m]
  IN <<DNorm(q), rem[n]>>

\* a - b for a >= b (both normalised)
DSub(a, b) ==
  LET n == Len(a)
      bb == Rep(0, n - Len(b)) \o b
      borrow[i \in 0..n] == IF i = 0 THEN 0
                            ELSE IF a[n - i + 1] - borrow[i - 1] < bb[n - i + 1] THEN 1 ELSE 0
      digit[i \in 1..n] == (10 + a[n - i + 1] - borrow[i - 1] - bb[n - i + 1]) % 10
  IN DNorm([i \in 1..n |-> digit[n - i + 1]])

DSatSub(a, b) == IF DLeq(b, a) THEN DSub(a, b) ELSE <<>>
DMin(a, b) == IF DLeq(a, b) THEN a ELSE b

\* big-endian base-256 representation in exactly w bytes (value must fit)
RECURSIVE DToBE(_, _)
DToBE(d, w) == IF w = 0 THEN <<>>
               ELSE LET qr == DDivMod(d, 256) IN Append(DToBE(qr[1], w - 1), qr[2])
Reverse(s) == [i \in 1..Len(s) |-> s[Len(s) - i + 1]]
DToLE(d, w) == Reverse(DToBE(d, w))

RECURSIVE DFromBE(_)
DFromBE(b) == IF Len(b) = 0 THEN <<>>
              ELSE DMulAdd(DFromBE(SubSeq(b, 1, Len(b) - 1)), 256, b[Len(b)])
DFromLE(b) == DFromBE(Reverse(b))

\* largest value of an unsigned integer of w bytes
DMaxU(w) == CASE w = 1 -> <<2,5,5>>
              [] w = 2 -> <<6,5,5,3,5>>
              [] w = 4 -> <<4,2,9,4,9,6,7,2,9,5>>
              [] w = 8 -> <<1,8,4,4,6,7,4,4,0,7,3,7,0,9,5,5,1,6,1,5>>
Fits(d, w) == DLeq(d, DMaxU(w))
=============================================================================
